"""Type-directed generators for schemas and data (DESIGN §5).

Everything derives from one `random.Random`.  The generator computes full names by the
specification's namespace rules itself (it does not ask fastavro), keeps the definitions it has
emitted, and generates data by walking the *raw* schema."""
import random
import struct

PRIMS = ["null", "boolean", "int", "long", "float", "double", "bytes", "string"]
# a small pool so that type names collide across the schemas of one process (stale-cache defects)
REC_NAMES = ["R", "Node", "Item", "nullable", "in", "Rec2", "Outer", "Inner", "T"]
ENUM_NAMES = ["E", "Suit", "Kind", "E2"]
FIXED_NAMES = ["F", "Md5", "F2"]
NAMESPACES = ["", "", "ns", "a.b", "com.acme.x", "a"]
# field names and type names live in different name spaces: let them coincide
FIELD_NAMES = ["a", "b", "c", "x", "y", "id", "next", "kids", "val", "type", "name", "k", "E", "F", "R", "Node", "Suit", "T"]
SYMBOLS = ["A", "B", "C", "D", "HEARTS", "SPADES", "_x", "a1", "OTHER"]

INT_POOL = [0, 1, -1, 63, 64, -64, -65, 8191, 8192, -8192, -8193, 2 ** 20 - 1, 2 ** 20, -2 ** 20, -2 ** 20 - 1,
            2 ** 27 - 1, 2 ** 27, -2 ** 27, -2 ** 27 - 1, 2 ** 31 - 1, -2 ** 31, 127, 128, -128, -129, 300]
LONG_POOL = INT_POOL + [2 ** 31, -2 ** 31 - 1, 2 ** 34 - 1, 2 ** 34, -2 ** 34, -2 ** 34 - 1, 2 ** 41 - 1, 2 ** 41,
                        -2 ** 41, -2 ** 41 - 1, 2 ** 48 - 1, 2 ** 48, -2 ** 48, -2 ** 48 - 1, 2 ** 55 - 1, 2 ** 55,
                        -2 ** 55, -2 ** 55 - 1, 2 ** 62 - 1, 2 ** 62, -2 ** 62, -2 ** 62 - 1, 2 ** 63 - 1, -2 ** 63,
                        2 ** 53 + 1]
F32_EXACT = [0.0, -0.0, 1.0, -1.5, 0.5, 3.4028234663852886e38, -3.4028234663852886e38, 1.401298464324817e-45,
             1.1754943508222875e-38, 1.1754942106924411e-38, float("inf"), float("-inf"), float("nan"),
             16777216.0, 0.10000000149011612, 65504.0]
F64_POOL = F32_EXACT + [0.1, -0.1, 1e-310, 5e-324, 1.7976931348623157e308, 2.2250738585072014e-308,
                        3.141592653589793, 1e39, -1e39, 3.4028235677973362e38, 1e-46, 16777217.0]
STR_POOL = ["", "a", "hello", "é", "€", "\U0001F600", "null", "x" * 63, "y" * 64, "ß" * 32, "z" * 200, "\x00",
            "line\nbreak", "q\"uote", "-type", "߿ࠀ￿"]


def f32_round(x):
    try:
        return struct.unpack("<f", struct.pack("<f", x))[0]
    except OverflowError:
        return None


class Ctx:
    """definitions emitted so far in one schema: fullname -> (raw definition, namespace in effect inside it)"""

    def __init__(self):
        self.defs = {}
        self.order = []


def split_full(full):
    if "." in full:
        ns, _, n = full.rpartition(".")
        return ns, n
    return "", full


class Gen:
    def __init__(self, seed, **opt):
        self.r = random.Random(seed)
        self.opt = dict(logical=False, bytes_defaults=False, hints=True, big=True, recursion=True,
                        defaults=True, dictform=True, aliases=True, max_depth=3, tuple_seq=True,
                        float_int=True, f32_only=False, namespaces=True, zero_field=True, bytearray=True,
                        omit_defaults=True)
        self.opt.update(opt)

    # ------------------------------------------------------------------ schemas
    def fresh_name(self, ctx, pool, ns):
        r = self.r
        for _ in range(20):
            n = r.choice(pool)
            if r.random() < 0.3:
                n = n + str(r.randint(0, 3))
            nsx = ns
            spelled_ns = None
            dotted = False
            if self.opt["namespaces"]:
                k = r.random()
                if k < 0.25:
                    spelled_ns = r.choice(NAMESPACES)
                    nsx = spelled_ns
                elif k < 0.4:
                    nsx = r.choice(NAMESPACES[2:])
                    dotted = True
            full = (nsx + "." + n) if nsx else n
            if full not in ctx.defs and full not in PRIMS:
                return n, full, nsx, spelled_ns, dotted
        n = "U%d" % r.randint(0, 10 ** 6)
        full = (ns + "." + n) if ns else n
        return n, full, ns, None, False

    def named_header(self, kind, ctx, pool, ns):
        n, full, nsx, spelled_ns, dotted = self.fresh_name(ctx, pool, ns)
        d = {"type": kind}
        if dotted:
            d["name"] = full
            if self.r.random() < 0.3:
                d["namespace"] = "ignored.ns"
        else:
            d["name"] = n
            if spelled_ns is not None:
                d["namespace"] = spelled_ns
        if self.opt["aliases"] and self.r.random() < 0.15:
            d["aliases"] = [n + "Old"]
        if self.r.random() < 0.15:
            d["doc"] = "doc of " + n
        return d, full, nsx

    def ref_spelling(self, full, ns):
        fns, n = split_full(full)
        if fns == ns and ns != "" and self.r.random() < 0.6:
            return n
        if fns == "" and ns != "":
            return None  # not referable by a relative name from inside a namespace... full name has no dot
        return full

    def schema(self, ctx=None, ns="", depth=None, allow_union=True, top=False):
        r = self.r
        if ctx is None:
            ctx = Ctx()
        if depth is None:
            depth = self.opt["max_depth"]
        kinds = ["prim"] * 5
        if depth > 0:
            kinds += ["record"] * 3 + ["enum", "fixed", "array", "array", "map", "map"]
            if allow_union:
                kinds += ["union"] * 3
        if ctx.defs:
            kinds += ["ref"] * 2
        k = r.choice(kinds)
        if k == "prim":
            return self.prim_schema()
        if k == "ref":
            full = r.choice(list(ctx.defs))
            sp = self.ref_spelling(full, ns)
            if sp is None or ctx.defs[full][0] is None:
                # still being defined (recursion) is fine only through a nullable/collection position,
                # handled by the record generator; here use finished definitions only
                if sp is None or not self.opt["recursion"]:
                    return self.prim_schema()
                if ctx.defs[full][0] is None:
                    return ["null", sp] if allow_union else {"type": "array", "items": sp}
            return sp
        if k == "enum":
            return self.enum_schema(ctx, ns)
        if k == "fixed":
            return self.fixed_schema(ctx, ns)
        if k == "array":
            return {"type": "array", "items": self.schema(ctx, ns, depth - 1)}
        if k == "map":
            return {"type": "map", "values": self.schema(ctx, ns, depth - 1)}
        if k == "union":
            return self.union_schema(ctx, ns, depth)
        return self.record_schema(ctx, ns, depth)

    def prim_schema(self):
        r = self.r
        p = r.choice(PRIMS)
        if self.opt["dictform"] and r.random() < 0.15:
            d = {"type": p}
            if r.random() < 0.3:
                d["custom"] = "attr"
            return d
        return p

    def enum_schema(self, ctx, ns):
        r = self.r
        d, full, _ = self.named_header("enum", ctx, ENUM_NAMES, ns)
        syms = r.sample(SYMBOLS, r.randint(1, 5))
        d["symbols"] = syms
        if r.random() < 0.3:
            d["default"] = r.choice(syms)
        ctx.defs[full] = (d, ns)
        ctx.order.append(full)
        return d

    def fixed_schema(self, ctx, ns):
        d, full, _ = self.named_header("fixed", ctx, FIXED_NAMES, ns)
        d["size"] = self.r.choice([0, 1, 2, 4, 16, 3])
        ctx.defs[full] = (d, ns)
        ctx.order.append(full)
        return d

    def union_schema(self, ctx, ns, depth):
        r = self.r
        n = r.randint(1, 5)
        out, seen = [], set()
        for _ in range(n):
            snap_defs, snap_order = dict(ctx.defs), list(ctx.order)
            s = self.schema(ctx, ns, depth - 1, allow_union=False)
            key = self.branch_key(s, ns)
            if key in seen:
                # drop the branch together with whatever it defined
                ctx.defs.clear()
                ctx.defs.update(snap_defs)
                ctx.order[:] = snap_order
                continue
            seen.add(key)
            out.append(s)
        return out

    def branch_key(self, s, ns):
        if isinstance(s, str):
            return s if s in PRIMS else "named:" + self.resolve_name(s, ns)
        t = s["type"]
        if t in ("record", "enum", "fixed"):
            return "named:" + self.full_of(s, ns)
        return t

    def full_of(self, d, ns):
        n = d["name"]
        if "." in n:
            return n
        nsx = d.get("namespace", ns)
        return (nsx + "." + n) if nsx else n

    def resolve_name(self, name, ns):
        if "." in name or not ns:
            return name
        return ns + "." + name

    def record_schema(self, ctx, ns, depth):
        r = self.r
        d, full, nsx = self.named_header("record", ctx, REC_NAMES, ns)
        ctx.defs[full] = (None, nsx)
        ctx.order.append(full)
        nf = r.choice([0, 1, 1, 2, 2, 3, 4]) if self.opt["zero_field"] else r.choice([1, 1, 2, 2, 3, 4])
        fields, used = [], set()
        for _ in range(nf):
            fn = r.choice(FIELD_NAMES)
            if fn in used:
                continue
            used.add(fn)
            if self.opt["recursion"] and depth > 0 and r.random() < 0.12:
                me = self.ref_spelling(full, nsx) or full
                ft = r.choice([["null", me], {"type": "array", "items": me}, {"type": "map", "values": me}])
            else:
                ft = self.schema(ctx, nsx, depth - 1)
                # optional fields: a nullable union around a non-union type, null first or last
                if self.opt.get("optional_fields", True) and not isinstance(ft, list) and r.random() < 0.15 \
                        and ft != "null" and not (isinstance(ft, dict) and ft.get("type") == "null"):
                    ft = r.choice([[ft, "null"], ["null", ft]])
            f = {"name": fn, "type": ft}
            if self.opt["defaults"] and r.random() < 0.35:
                ok, dv = self.default_for(ft, ctx, nsx)
                if ok:
                    f["default"] = dv
            if self.opt["aliases"] and r.random() < 0.1:
                f["aliases"] = [fn + "_old"]
            if r.random() < 0.1:
                f["doc"] = "field doc"
            if r.random() < 0.05:
                f["order"] = "ignore"
            fields.append(f)
        d["fields"] = fields
        ctx.defs[full] = (d, nsx)
        return d

    def default_for(self, s, ctx, ns, depth=3):
        """(ok, JSON default) valid for schema s"""
        r = self.r
        if isinstance(s, list):
            if not s:
                return False, None
            return self.default_for(s[0], ctx, ns, depth)
        if isinstance(s, str):
            if s in PRIMS:
                t = s
                if t == "null":
                    return True, None
                if t == "boolean":
                    return True, r.random() < 0.5
                if t == "int":
                    return True, r.choice([0, 1, -5, 2 ** 31 - 1])
                if t == "long":
                    return True, r.choice([0, 7, -2 ** 40])
                if t in ("float", "double"):
                    return True, r.choice([0.0, 1.5, -2.25, 3, 0])
                if t == "string":
                    return True, r.choice(["", "dflt", "é"])
                if t == "bytes":
                    return (True, r.choice(["", "ab", "ÿ"])) if self.opt["bytes_defaults"] else (False, None)
            full = self.resolve_name(s, ns)
            if full in ctx.defs and ctx.defs[full][0] is not None and depth > 0:
                dd, dns = ctx.defs[full]
                return self.default_for(dd, ctx, dns, depth - 1)
            return False, None
        t = s["type"]
        if t in PRIMS:
            if t in ("float", "double"):
                return True, r.choice([0.0, 1.5])   # dict-form float/double want a float default (F13)
            return self.default_for(t, ctx, ns, depth)
        if t == "array":
            return True, []
        if t == "map":
            return True, {}
        if t == "enum":
            return True, r.choice(s["symbols"])
        if t == "fixed":
            return (True, "\u0001" * s["size"]) if self.opt["bytes_defaults"] else (False, None)
        if t == "record":
            out = {}
            nsx = split_full(self.full_of(s, ns))[0]
            for f in s["fields"]:
                if "default" in f:
                    continue
                ok, dv = self.default_for(f["type"], ctx, nsx, depth - 1) if depth > 0 else (False, None)
                if not ok:
                    return False, None
                out[f["name"]] = dv
            return True, out
        return False, None

    def top_schema(self):
        ctx = Ctx()
        s = self.schema(ctx, "", self.opt["max_depth"], top=True)
        return s, ctx

    # ------------------------------------------------------------------ data
    def lookup(self, name, ctx, ns):
        full = self.resolve_name(name, ns)
        return ctx.defs[full]

    def datum(self, s, ctx, ns="", depth=4, hint_ok=True):
        r = self.r
        if isinstance(s, list):
            i = r.randrange(len(s))
            b = s[i]
            v = self.datum(b, ctx, ns, depth - 1)
            if hint_ok and self.opt["hints"] and r.random() < 0.35:
                hn = self.hint_name(b, ctx, ns)
                bt = self.base_type(b, ctx, ns)
                if bt == "record" and r.random() < 0.5 and isinstance(v, dict):
                    v = dict(v)
                    v["-type"] = self.resolve_name(hn, "")
                else:
                    v = (hn, v)
            return v
        if isinstance(s, str):
            if s in PRIMS:
                return self.prim_datum(s)
            dd, dns = self.lookup(s, ctx, ns)
            return self.datum(dd, ctx, dns, depth, hint_ok)
        t = s["type"]
        if t in PRIMS:
            return self.prim_datum(t)
        if t == "enum":
            return r.choice(s["symbols"])
        if t == "fixed":
            return bytes(r.getrandbits(8) for _ in range(s["size"]))
        if t == "array":
            n = self.coll_size(depth)
            as_tuple = self.opt["tuple_seq"] and r.random() < self.opt.get("tuple_rate", 0.1)
            if as_tuple and r.random() < 0.5:
                n = 2        # a two-element tuple has the shape of a (name, value) hint
            xs = [self.datum(s["items"], ctx, ns, depth - 1) for _ in range(n)]
            if as_tuple:
                return tuple(xs)
            return xs
        if t == "map":
            n = self.coll_size(depth)
            return {self.map_key(): self.datum(s["values"], ctx, ns, depth - 1) for _ in range(n)}
        if t == "record":
            nsx = split_full(self.full_of(s, ns))[0]
            out = {}
            for f in s["fields"]:
                if "default" in f and self.opt["omit_defaults"] and r.random() < 0.4:
                    continue
                ft = f["type"]
                if depth <= 0 and isinstance(ft, list) and "null" in ft and "default" not in f and r.random() < 0.9:
                    if r.random() < 0.5:
                        continue           # absent nullable field: written as None
                    out[f["name"]] = None
                    continue
                out[f["name"]] = self.datum(ft, ctx, nsx, depth - 1)
            return out
        raise ValueError(s)

    def coll_size(self, depth):
        r = self.r
        if depth <= 0:
            return 0
        k = r.random()
        if k < 0.25:
            return 0
        if k < 0.9:
            return r.randint(1, 3)
        if self.opt["big"] and depth >= 3 and k > 0.97:
            return r.choice([64, 65, 100])
        return r.randint(4, 8)

    def map_key(self):
        return self.r.choice(["k", "k2", "a", "é", "key with space", "", "-type", "z" * 70, "name"])

    def base_type(self, s, ctx, ns):
        if isinstance(s, list):
            return "union"
        if isinstance(s, str):
            if s in PRIMS:
                return s
            return self.lookup(s, ctx, ns)[0]["type"]
        return s["type"]

    def hint_name(self, b, ctx, ns):
        """the name a (name, value) tuple must carry for branch b (write_union's rule)"""
        if isinstance(b, str):
            return b if b in PRIMS else self.resolve_name(b, ns)
        t = b["type"]
        if t in ("record", "enum", "fixed"):
            return self.full_of(b, ns)
        return t

    def prim_datum(self, t):
        r = self.r
        if t == "null":
            return None
        if t == "boolean":
            return r.random() < 0.5
        if t == "int":
            return r.choice(INT_POOL) if r.random() < 0.6 else r.randint(-2 ** 31, 2 ** 31 - 1)
        if t == "long":
            return r.choice(LONG_POOL) if r.random() < 0.6 else r.randint(-2 ** 63, 2 ** 63 - 1)
        if t == "float":
            if self.opt["float_int"] and r.random() < 0.15:
                return r.choice([0, 1, -7, 2 ** 24, 2 ** 24 + 1, 10 ** 30])
            if r.random() < 0.5:
                return r.choice(F32_EXACT)
            x = struct.unpack("<f", struct.pack("<I", r.getrandbits(32)))[0]
            if not self.opt["f32_only"] and r.random() < 0.3:
                x = r.uniform(-1e6, 1e6)
            return x
        if t == "double":
            if self.opt["float_int"] and r.random() < 0.15:
                return r.choice([0, 1, -7, 2 ** 53 + 1, 10 ** 300, -2 ** 63])
            if r.random() < 0.5:
                return r.choice(F64_POOL)
            return struct.unpack("<d", struct.pack("<Q", r.getrandbits(64)))[0]
        if t == "bytes":
            k = r.random()
            if k < 0.2:
                b = b""
            elif k < 0.3:
                b = bytes(range(256))
            else:
                b = bytes(r.getrandbits(8) for _ in range(r.choice([1, 2, 3, 63, 64, 65, 10])))
            return bytearray(b) if (self.opt["bytearray"] and r.random() < 0.15) else b
        if t == "string":
            if r.random() < 0.7:
                return r.choice(STR_POOL)
            return "".join(chr(r.choice([r.randint(32, 126), r.randint(0xA0, 0x7FF), r.randint(0x800, 0xD7FF),
                                         r.randint(0x10000, 0x10FFFF)])) for _ in range(r.randint(1, 12)))
        raise ValueError(t)

    # ------------------------------------------------------------------ non-conforming data
    def wrong_prim(self, t):
        """a value of the wrong Python type / range for primitive t"""
        r = self.r
        bad = {
            "null": [0, "", False, []],
            "boolean": [0, 1, None, "true"],
            "int": [2 ** 31, -2 ** 31 - 1, True, 1.0, "1", None, b"1"],
            "long": [2 ** 63, -2 ** 63 - 1, False, 1.5, "1", None],
            "float": [True, "1.0", None, b"", [1.0]],
            "double": [False, "nan", None, {}],
            "bytes": ["abc", 1, None, [1, 2]],
            "string": [b"abc", 1, None, ["a"]],
        }
        return r.choice(bad[t])


# ---------------------------------------------------------------------- targeted families
def ambiguous_union_case(g):
    """records with overlapping, optional fields used as union branches, inline or by name: the datum
    conforms to several branches and the rule 'most shared field names, first on ties' decides."""
    r = g.r
    pool = ["a", "b", "c", "x", "y", "id"]
    ns = r.choice(["", "", "ns", "a.b"])
    nrec = r.randint(2, 4)
    recs = []
    for i in range(nrec):
        names = r.sample(pool, r.randint(1, 4))
        fields = []
        for fn in names:
            t = r.choice(["int", "string", "long", ["null", "int"], ["null", "string"]])
            f = {"name": fn, "type": t}
            k = r.random()
            if isinstance(t, list):
                if k < 0.6:
                    f["default"] = None
            elif k < 0.5:
                f["default"] = 7 if t in ("int", "long") else "d"
            fields.append(f)
        rec = {"type": "record", "name": "Rec%d" % i, "fields": fields}
        if ns:
            rec["namespace"] = ns
        recs.append(rec)
    by_name = r.random() < 0.6
    extra = r.sample(["null", "string", {"type": "map", "values": "int"}, "double", "float"], r.randint(0, 2))
    if by_name:
        holder_fields = [{"name": "d%d" % i, "type": rec} for i, rec in enumerate(recs)]
        fulls = [((ns + ".") if ns else "") + rec["name"] for rec in recs]
        branches = [r.choice([f, rec["name"]]) if ns else f for f, rec in zip(fulls, recs)]
        r.shuffle(branches)
        pos = r.randint(0, len(branches))
        un = list(branches)
        for e in extra:
            un.insert(r.randint(0, len(un)), e)
        holder = {"type": "record", "name": "Holder", "fields": holder_fields + [{"name": "u", "type": un}]}
        if ns:
            holder["namespace"] = ns
        schema = holder
    else:
        un = list(recs)
        r.shuffle(un)
        for e in extra:
            un.insert(r.randint(0, len(un)), e)
        schema = {"type": "record", "name": "Holder", "fields": [{"name": "u", "type": un}]}

    def rec_datum(rec, full):
        out = {}
        for f in rec["fields"]:
            if "default" in f and r.random() < 0.5:
                continue
            t = f["type"]
            if isinstance(t, list):
                out[f["name"]] = r.choice([None, 5 if t[1] == "int" else "s"])
            else:
                out[f["name"]] = 3 if t in ("int", "long") else "v"
        return out

    data = []
    for _ in range(4):
        rec = r.choice(recs)
        full = ((ns + ".") if ns else "") + rec["name"]
        inner = rec_datum(rec, full)
        k = r.random()
        if k < 0.15:
            inner = (full, inner)
        elif k < 0.25:
            inner = dict(inner)
            inner["-type"] = full
        d = {"u": inner}
        if by_name:
            for i, rc in enumerate(recs):
                d["d%d" % i] = rec_datum(rc, None)
                for f in rc["fields"]:
                    if f["name"] not in d["d%d" % i] and "default" not in f:
                        d["d%d" % i][f["name"]] = None if isinstance(f["type"], list) else (3 if f["type"] in ("int", "long") else "v")
        data.append(d)
    return schema, data


# ---------------------------------------------------------------------- single mutations (C10)
def mutate(g, s, v, ctx, ns=""):
    """returns (kind, v') where v' is v made non-conforming by ONE mutation at a random position,
    or None when no mutation applies at the chosen path"""
    r = g.r

    def here(s, v, ns):
        """mutations applicable at this node"""
        opts = []
        if isinstance(s, list):
            opts.append(("wrong-hint", ("NoSuchBranch__", v if not isinstance(v, tuple) else v[1])))
            nonmatching = [x for x in (None, True, 1, 1.5, "s", b"b", [object()], {"k": object()})]
            opts.append(("no-branch", object()))
            return opts
        if isinstance(s, str) and s not in PRIMS:
            dd, dns = g.lookup(s, ctx, ns)
            return here(dd, v, dns)
        t = s if isinstance(s, str) else s["type"]
        if t in PRIMS:
            opts.append(("wrong-type", g.wrong_prim(t)))
            if t == "int":
                opts += [("out-of-range", r.choice([2 ** 31, -2 ** 31 - 1])), ("bool-for-int", r.choice([True, False]))]
            if t == "long":
                opts += [("out-of-range", r.choice([2 ** 63, -2 ** 63 - 1])), ("bool-for-int", True)]
        elif t == "fixed":
            opts += [("wrong-fixed-size", b"\x00" * (s["size"] + 1)), ("wrong-type", "x" * s["size"]),
                     ("wrong-type", bytearray(s["size"]))]
        elif t == "enum":
            opts += [("unknown-symbol", "NOT_A_SYMBOL"), ("wrong-type", 0)]
        elif t == "array":
            opts += [("wrong-type", "abc"), ("wrong-type", {"a": 1}), ("wrong-type", 5)]
        elif t == "map":
            opts += [("wrong-type", [("k", 1)]), ("wrong-type", "abc")]
            if isinstance(v, dict):
                d = dict(v)
                d[7] = r.choice(list(v.values())) if v else None
                opts.append(("non-string-key", d))
        elif t == "record":
            opts += [("wrong-type", [1]), ("wrong-type", "rec")]
            if isinstance(v, dict):
                req = [f["name"] for f in s["fields"] if "default" not in f and f["name"] in v and
                       not (isinstance(f["type"], list) and "null" in f["type"]) and f["type"] != "null"]
                if req:
                    d = dict(v)
                    del d[r.choice(req)]
                    opts.append(("missing-required-field", d))
                d = dict(v)
                d["-type"] = "Not.The.Name"
                opts.append(("wrong-hint", d))
        return opts

    def walk(s, v, ns, depth):
        """descend randomly; return mutated copy or None"""
        kids = []
        if isinstance(s, str) and s not in PRIMS:
            dd, dns = g.lookup(s, ctx, ns)
            return walk(dd, v, dns, depth)
        if isinstance(s, dict) and depth > 0:
            t = s["type"]
            if t == "array" and isinstance(v, (list, tuple)) and v:
                kids = [("item", i) for i in range(len(v))]
            elif t == "map" and isinstance(v, dict) and v:
                kids = [("val", k) for k in v]
            elif t == "record" and isinstance(v, dict):
                kids = [("field", f) for f in s["fields"] if f["name"] in v]
        if isinstance(s, list) and depth > 0 and not isinstance(v, tuple) and not (isinstance(v, dict) and "-type" in v):
            pass   # descending into an un-hinted union value would need the branch: mutate here only
        if kids and r.random() < 0.7:
            kind, key = r.choice(kids)
            if kind == "item":
                m = walk(s["items"], v[key], ns, depth - 1)
                if m is None:
                    return None
                out = list(v)
                out[key] = m[1]
                return m[0], (tuple(out) if isinstance(v, tuple) else out)
            if kind == "val":
                m = walk(s["values"], v[key], ns, depth - 1)
                if m is None:
                    return None
                out = dict(v)
                out[key] = m[1]
                return m[0], out
            f = key
            nsx = split_full(g.full_of(s, ns))[0]
            m = walk(f["type"], v[f["name"]], nsx, depth - 1)
            if m is None:
                return None
            out = dict(v)
            out[f["name"]] = m[1]
            return m[0], out
        opts = here(s, v, ns)
        if not opts:
            return None
        return r.choice(opts)

    return walk(s, v, ns, 4)


# ---------------------------------------------------------------------- cosmetic rewrites (C13)
def cosmetic(g, s, ns=""):
    """a copy of raw schema s changed only in ways the canonical form must ignore"""
    r = g.r
    if isinstance(s, list):
        return [cosmetic(g, b, ns) for b in s]
    if isinstance(s, str):
        if s in PRIMS:
            # simple form <-> dict form of a primitive
            return {"type": s, "whatever": 1} if r.random() < 0.15 else s
        # relative <-> qualified spelling of a reference
        if "." not in s and ns and r.random() < 0.5:
            return ns + "." + s
        if "." in s:
            sns, _, n = s.rpartition(".")
            if sns == ns and r.random() < 0.5:
                return n
        return s
    d = dict(s)
    t = d["type"]
    if t in PRIMS:
        if len(d) == 1 and r.random() < 0.3:
            return t
        if r.random() < 0.3:
            d["logicalType"] = "custom-thing"
        return shuffle_keys(r, d)
    if t == "array":
        d["items"] = cosmetic(g, d["items"], ns)
    elif t == "map":
        d["values"] = cosmetic(g, d["values"], ns)
    elif t in ("record", "enum", "fixed"):
        name = d["name"]
        if "." in name:
            inner_ns = name.rpartition(".")[0]
            if r.random() < 0.5:
                # dotted -> namespace + name
                d["name"] = name.rpartition(".")[2]
                d["namespace"] = inner_ns
            elif "namespace" in d and r.random() < 0.5:
                del d["namespace"]           # ignored anyway when the name is dotted
        else:
            inner_ns = d.get("namespace", ns)
            if inner_ns is None:
                inner_ns = ""
            k = r.random()
            if inner_ns and k < 0.35:
                d["name"] = inner_ns + "." + name
                d.pop("namespace", None)
            elif "namespace" not in d and ns and k < 0.7:
                d["namespace"] = ns          # spell out the inherited namespace
            elif d.get("namespace") == ns and ns and k < 0.9:
                del d["namespace"]           # inherit instead of spelling it out
        if r.random() < 0.4:
            d["doc"] = "changed doc %d" % r.randint(0, 99)
        elif "doc" in d and r.random() < 0.5:
            del d["doc"]
        if r.random() < 0.3:
            d["aliases"] = ["Alias%d" % r.randint(0, 9)]
        elif "aliases" in d and r.random() < 0.5:
            del d["aliases"]
        if t == "enum" and "default" in d and r.random() < 0.5:
            del d["default"]
        elif t == "enum" and "default" not in d and r.random() < 0.3:
            d["default"] = d["symbols"][0]
        if t == "record":
            fields = []
            for f in d.get("fields", []):
                f = dict(f)
                f["type"] = cosmetic(g, f["type"], inner_ns)
                if "default" in f and r.random() < 0.4:
                    del f["default"]
                if r.random() < 0.3:
                    f["doc"] = "fdoc"
                if r.random() < 0.2:
                    f["order"] = r.choice(["ascending", "descending", "ignore"])
                if r.random() < 0.2:
                    f["aliases"] = [f["name"] + "_alias"]
                if r.random() < 0.2:
                    f["x-custom"] = {"k": [1, 2]}
                if r.random() < 0.25:
                    # a custom attribute of the FIELD that is spelled like an attribute the canonical form keeps for TYPES
                    f[r.choice(["size", "items", "values", "symbols", "fields", "namespace", "logicalType", "precision"])] = \
                        r.choice([12, "int", ["A", "B"], [{"name": "q", "type": "int"}], "x.y", {"type": "int"}])
                fields.append(shuffle_keys(r, f))
            d["fields"] = fields
        if r.random() < 0.2:
            # an attribute that belongs to another kind of named type
            foreign = {"record": ["size", "symbols", "items", "values"], "enum": ["size", "fields", "items", "values"],
                       "fixed": ["symbols", "fields", "items", "values"]}[t]
            d[r.choice(foreign)] = r.choice([7, ["X"], "long", [{"name": "zz", "type": "long"}]])
    if t == "array" and r.random() < 0.15:
        d[r.choice(["values", "symbols", "fields", "size", "name"])] = r.choice([3, "string", ["Q"]])
    if t == "map" and r.random() < 0.15:
        d[r.choice(["items", "symbols", "fields", "size", "name"])] = r.choice([3, "string", ["Q"]])
    if r.random() < 0.3:
        d["custom-attr"] = r.choice([1, "x", [1], {"a": None}])
    return shuffle_keys(r, d)


def shuffle_keys(r, d):
    ks = list(d.keys())
    r.shuffle(ks)
    return {k: d[k] for k in ks}
