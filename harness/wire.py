"""Wire format between the harness and the Lean driver (DESIGN §2.3).

Python value  ->  JSON-able tree.  Floats travel as the 16 hex digits of their IEEE-754 bits,
strings as the hex of their UTF-8 bytes, ints as decimal strings (arbitrary precision)."""
import array
import datetime
import decimal
import struct
import uuid

EPOCH_AWARE = datetime.datetime(1970, 1, 1, tzinfo=datetime.timezone.utc)
EPOCH_NAIVE = datetime.datetime(1970, 1, 1)
US = datetime.timedelta(microseconds=1)


def f2hex(x):
    return "%x" % struct.unpack("<Q", struct.pack("<d", x))[0]


def hex2f(h):
    return struct.unpack("<d", struct.pack("<Q", int(h, 16)))[0]


def to_wire(v):
    if v is None:
        return None
    if v is True or v is False:
        return v
    t = type(v)
    if t is int:
        return {"i": str(v)}
    if t is float:
        return {"f": f2hex(v)}
    if t is str:
        try:
            return {"s": v.encode("utf-8").hex()}
        except UnicodeEncodeError:
            return {"o": "str-surrogate"}
    if t is bytes:
        return {"b": v.hex()}
    if t is bytearray:
        return {"ba": bytes(v).hex()}
    if t is list:
        return {"l": [to_wire(x) for x in v]}
    if t is tuple:
        return {"t": [to_wire(x) for x in v]}
    if t is dict:
        return {"d": [[to_wire(k), to_wire(x)] for k, x in v.items()]}
    if t is datetime.datetime:
        if v.tzinfo is not None:
            return {"dt": str((v - EPOCH_AWARE) // US), "aware": True}
        return {"dt": str((v - EPOCH_NAIVE) // US), "aware": False}
    if t is datetime.date:
        return {"date": str(v.toordinal())}
    if t is datetime.time:
        if v.tzinfo is not None:
            return {"o": "time-aware"}
        return {"time": str(((v.hour * 60 + v.minute) * 60 + v.second) * 1000000 + v.microsecond)}
    if t is decimal.Decimal:
        s, d, e = v.as_tuple()
        if not isinstance(e, int):
            return {"o": "decimal-special"}
        return {"dec": [s, list(d), str(e)]}
    if t is uuid.UUID:
        return {"uuid": "%032x" % v.int}
    if isinstance(v, dict):
        # dict subclasses (OrderedDict, defaultdict, ...) are mappings like any other to the writers and validators
        return {"d": [[to_wire(k), to_wire(x)] for k, x in v.items()]}
    if t is array.array:
        # validators and writers treat an array.array like any other sequence: the model is handed its items
        return {"l": [to_wire(x) for x in v]}
    return {"o": t.__name__}


def from_wire(j):
    if j is None or j is True or j is False:
        return j
    if "i" in j:
        return int(j["i"])
    if "f" in j:
        return hex2f(j["f"])
    if "s" in j:
        return bytes.fromhex(j["s"]).decode("utf-8")
    if "b" in j:
        return bytes.fromhex(j["b"])
    if "ba" in j:
        return bytearray(bytes.fromhex(j["ba"]))
    if "l" in j:
        return [from_wire(x) for x in j["l"]]
    if "t" in j:
        return tuple(from_wire(x) for x in j["t"])
    if "d" in j:
        return {from_wire(k): from_wire(v) for k, v in j["d"]}
    if "date" in j:
        return datetime.date.fromordinal(int(j["date"]))
    if "time" in j:
        us = int(j["time"])
        return datetime.time(us // 3600000000, us // 60000000 % 60, us // 1000000 % 60, us % 1000000)
    if "dt" in j:
        base = EPOCH_AWARE if j.get("aware") else EPOCH_NAIVE
        return base + datetime.timedelta(microseconds=int(j["dt"]))
    if "dec" in j:
        s, d, e = j["dec"]
        return decimal.Decimal((int(s), tuple(int(x) for x in d), int(e)))
    if "uuid" in j:
        return uuid.UUID(int=int(j["uuid"], 16))
    return ("<opaque>", j.get("o"))


NAN = {"f": "nan"}


def canon(j):
    """canonical form of a wire tree for comparison: NaNs collapse to one value, hex lower-case,
    dict entries keep their order (insertion order is observable in Python)."""
    if j is None or j is True or j is False:
        return j
    if "f" in j:
        bits = int(j["f"], 16)
        if (bits >> 52) & 0x7FF == 0x7FF and bits & ((1 << 52) - 1):
            return NAN
        return {"f": "%x" % bits}
    if "l" in j:
        return {"l": [canon(x) for x in j["l"]]}
    if "t" in j:
        return {"t": [canon(x) for x in j["t"]]}
    if "d" in j:
        return {"d": [[canon(k), canon(v)] for k, v in j["d"]]}
    if "i" in j:
        return {"i": str(int(j["i"]))}
    if "uuid" in j:
        return {"uuid": "%032x" % int(j["uuid"], 16)}
    if "date" in j:
        return {"date": str(int(j["date"]))}
    if "time" in j:
        return {"time": str(int(j["time"]))}
    if "dt" in j:
        return {"dt": str(int(j["dt"])), "aware": bool(j.get("aware"))}
    if "dec" in j:
        s, d, e = j["dec"]
        return {"dec": [int(s), [int(x) for x in d], str(int(e))]}
    return j


def exc_class(e):
    """Python exception -> the model's error enum (by class only; messages never compared)."""
    import fastavro
    from fastavro._schema_common import SchemaParseException, UnknownType
    from fastavro._read_common import SchemaResolutionError
    from fastavro._validate_common import ValidationError
    if isinstance(e, RecursionError):
        return "fuel"
    if isinstance(e, UnknownType):
        return "unknownType"
    if isinstance(e, SchemaParseException):
        return "parse"
    if isinstance(e, SchemaResolutionError):
        return "resolution"
    if isinstance(e, ValidationError):
        return "validation"
    if isinstance(e, (EOFError, struct.error)):
        return "eof"
    if isinstance(e, (IndexError, KeyError)):
        return "index"
    if isinstance(e, (TypeError, AttributeError)):
        return "type"
    if isinstance(e, (ValueError, OverflowError, ArithmeticError)):
        return "value"
    return "other"
