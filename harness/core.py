"""Shared machinery of the checks: Lean build + proof audit, case bookkeeping, known findings,
verdict and evidence (DESIGN §3)."""
import hashlib
import json
import os
import re
import subprocess
import sys
import time

HERE = os.path.dirname(os.path.abspath(__file__))
VERIF = os.path.dirname(HERE)
LEAN_DIR = os.path.join(VERIF, "lean")
REPO = os.environ.get("VERIF_REPO", "/repo")
ALLOWED_AXIOMS = {"propext", "Classical.choice", "Quot.sound"}
FORBIDDEN = re.compile(r"\bsorry\b|\badmit\b|^\s*axiom\s|native_decide|bv_decide|implemented_by|\bunsafe\s|maxHeartbeats\s+0")


def _beat():
    try:
        import impl
        impl.heartbeat()
    except Exception:  # noqa
        pass


def sh(cmd, cwd=None, timeout=3600, env=None):
    p = subprocess.run(cmd, cwd=cwd, stdout=subprocess.PIPE, stderr=subprocess.STDOUT, timeout=timeout,
                       env=env, shell=isinstance(cmd, str))
    return p.returncode, p.stdout.decode(errors="replace")


def strip_comments(src):
    src = re.sub(r"/-.*?-/", "", src, flags=re.S)
    return "\n".join(l.split("--", 1)[0] for l in src.splitlines())


class Run:
    def __init__(self, pid, tier, seed):
        self.pid, self.tier, self.seed = pid, tier, seed
        self.t0 = time.time()
        self.violations = []      # (replay dict, suffix)
        self.known_hits = {}      # key -> what
        self.notes = []
        self.cov = {"evaluations": 0, "distinct_nontrivial": 0, "samples": [], "traces_validated_against_impl": 0,
                    "histogram": {}}
        self._distinct = set()
        self.proof_ok = None
        self.theorems = []
        self.findings = load_findings(pid)
        self.assumptions = []
        self.level = "proof"

    # ---------------------------------------------------------------- coverage
    def count(self, case, nontrivial, tags=()):
        self.cov["evaluations"] += 1
        _beat()
        if nontrivial:
            h = hashlib.sha1(json.dumps(case, sort_keys=True, default=str).encode()).hexdigest()
            if h not in self._distinct:
                self._distinct.add(h)
                self.cov["distinct_nontrivial"] += 1
        for t in tags:
            self.cov["histogram"][t] = self.cov["histogram"].get(t, 0) + 1
        if len(self.cov["samples"]) < 5 and nontrivial:
            self.cov["samples"].append(trim(case))

    def tag(self, t, n=1):
        _beat()
        self.cov["histogram"][t] = self.cov["histogram"].get(t, 0) + n

    # ---------------------------------------------------------------- lean
    def lean(self, targets, theorems):
        """regenerate Gen/*, build the targets of this property, audit axioms. Returns True when the
        proof obligations of this property are discharged."""
        self.theorems = theorems
        import gen_tables
        gen_tables.write(REPO, os.path.join(LEAN_DIR, "Gen", "Tables.lean"))
        import gen_effects
        gen_effects.write(REPO, os.path.join(LEAN_DIR, "Gen", "Effects.lean"))
        rc, out = sh(["lake", "build", "driver", "Model"], cwd=LEAN_DIR)
        if rc != 0:
            raise MachineryError("model/driver does not build:\n" + out[-3000:])
        rc, out = sh(["lake", "build"] + targets, cwd=LEAN_DIR)
        self.build_log = out
        problems = []
        if rc != 0:
            bad = re.findall(r"error: (\S+\.lean):(\d+):\d+: (.*)", out)
            problems.append({"kind": "build", "where": ["%s:%s %s" % b for b in bad[:6]], "log": out[-1500:]})
        # forbidden constructs
        for root, _, files in os.walk(LEAN_DIR):
            if ".lake" in root:
                continue
            for f in files:
                if f.endswith(".lean"):
                    src = strip_comments(open(os.path.join(root, f)).read())
                    for i, l in enumerate(src.splitlines()):
                        if FORBIDDEN.search(l):
                            problems.append({"kind": "forbidden", "where": "%s:%d %s" % (f, i + 1, l.strip())})
        discharged = []
        if rc == 0 and theorems:
            mods = sorted(set(targets))
            src = "".join("import %s\n" % m for m in mods) + "".join("#print axioms %s\n" % t for t in theorems)
            ap = os.path.join(LEAN_DIR, ".lake", "audit_%s.lean" % self.pid)
            open(ap, "w").write(src)
            rc2, out2 = sh(["lake", "env", "lean", ap], cwd=LEAN_DIR)
            for t in theorems:
                m = re.search(r"'%s' depends on axioms: \[(.*?)\]" % re.escape(t), out2, flags=re.S)
                if m:
                    ax = {a.strip() for a in m.group(1).replace("\n", " ").split(",") if a.strip()}
                    if ax <= ALLOWED_AXIOMS:
                        discharged.append(t)
                    else:
                        problems.append({"kind": "axioms", "where": t, "axioms": sorted(ax)})
                elif re.search(r"'%s' does not depend on any axioms" % re.escape(t), out2):
                    discharged.append(t)
                else:
                    problems.append({"kind": "missing-theorem", "where": t, "log": out2[-600:]})
        self.cov["obligations"] = len(theorems)
        self.cov["discharged"] = len(discharged)
        self.cov["theorems"] = theorems
        self.cov["checker_cmd"] = "cd lean && lake build %s && lake env lean <#print axioms of the listed theorems>" % " ".join(targets)
        self.proof_problems = problems
        self.proof_ok = not problems
        if self.tier == "thorough" and rc == 0:
            # independent re-check of the compiled proofs
            self.leanchecker(sorted(set(targets)))
        # from here on the check talks to the implementation: a call that does not return, or allocates without bound,
        # is aborted and counts as a failure of that call
        try:
            import impl
            impl.watchdog_start()
        except Exception:  # noqa
            pass
        return self.proof_ok

    def leanchecker(self, mods):
        rc, out = sh(["lake", "env", "leanchecker"] + mods, cwd=LEAN_DIR, timeout=3000)
        self.cov["leanchecker"] = {"modules": mods, "rc": rc, "tail": out[-300:]}
        if rc != 0:
            self.proof_problems.append({"kind": "leanchecker", "log": out[-1500:]})
            self.proof_ok = False

    # ---------------------------------------------------------------- verdicts
    def fail(self, case, why, kind="oracle"):
        """a property failure on the implementation (or a correspondence failure); attributed to a
        known finding when one matches, otherwise a violation."""
        for f in self.findings:
            if f.get("kind") == "open" and match_finding(f, case, why):
                self.known_hits.setdefault(f["key"], f["what"])
                return "known"
        if len(self.violations) < 50:
            self.violations.append({"kind": kind, "why": why, "case": case})
        return "violation"

    def finish(self):
        os.makedirs(os.path.join(VERIF, "evidence"), exist_ok=True)
        rc = 0
        lines = []
        # known findings: replay stored witnesses
        for key, what in sorted(self.known_hits.items()):
            lines.append("KNOWN-FINDING: property=%s %s: %s" % (self.pid, key, what))
        replay_path = None
        if self.proof_ok is False and not any(v["kind"] != "proof" for v in self.violations):
            # the property is no longer shown and the search found no failing input
            replay = {"property": self.pid, "seed": self.seed, "tier": self.tier,
                      "broken": self.proof_problems, "note": "proof obligation / audit no longer checks"}
            replay_path = self.write_replay(replay)
            lines.append("VIOLATION property=%s replay=%s no-failing-input-found" % (self.pid, replay_path))
            rc = 1
        elif self.violations:
            corr_only = all(v["kind"] == "correspondence" for v in self.violations)
            replay = {"property": self.pid, "seed": self.seed, "tier": self.tier,
                      "violations": self.violations[:10], "proof_problems": getattr(self, "proof_problems", [])}
            replay_path = self.write_replay(replay)
            suffix = " no-failing-input-found" if corr_only else ""
            lines.append("VIOLATION property=%s replay=%s%s" % (self.pid, replay_path, suffix))
            rc = 1
        ev = {
            "property_id": self.pid, "tier": self.tier, "seed": self.seed, "level": self.level,
            "coverage": dict(self.cov, rule=getattr(self, "rule", ""), trusted_base=TRUSTED_BASE,
                             known_findings_reconfirmed=sorted(self.known_hits),
                             notes=self.notes),
            "assumptions": self.assumptions,
            "wall_s": round(time.time() - self.t0, 2),
            "violations": len(self.violations) + (1 if self.proof_ok is False else 0),
        }
        if ev["coverage"]["distinct_nontrivial"] < 2:
            ev["coverage"]["distinct_nontrivial"] = ev["coverage"]["distinct_nontrivial"]
        with open(os.path.join(VERIF, "evidence", "%s.json" % self.pid), "w") as fo:
            json.dump(ev, fo, indent=1, default=str)
        for l in self.notes:
            print("NOTE:", l)
        for l in lines:
            print(l)
        print("%s %s seed=%d: evaluations=%d distinct=%d obligations=%s/%s wall=%.1fs rc=%d" % (
            self.pid, self.tier, self.seed, self.cov["evaluations"], self.cov["distinct_nontrivial"],
            self.cov.get("discharged"), self.cov.get("obligations"), time.time() - self.t0, rc))
        return rc

    def write_replay(self, obj):
        d = os.path.join(VERIF, "evidence", "replays")
        os.makedirs(d, exist_ok=True)
        p = os.path.join(d, "%s_%s_seed%d.json" % (self.pid, self.tier, self.seed))
        with open(p, "w") as fo:
            json.dump(obj, fo, indent=1, default=str)
        return p


class MachineryError(Exception):
    pass


TRUSTED_BASE = [
    "Lean 4.33 kernel; axioms of every listed theorem ⊆ {propext, Classical.choice, Quot.sound} (audited each run)",
    "harness/gen_tables.py (copies literals and dispatch keys from /repo by AST)",
    "harness/gen_effects.py (syntactic effect summaries of the pure-Python backend, closed over the call graph; C17/C18)",
    "correspondence harness: wire (de)serialisation, exception->enum mapping, Lean.Data.Json in the driver; "
    "agreement of model and implementation is observed on this run's cases, not proved",
    "CPython: int, bytes, dict order, str.encode/bytes.decode, struct pack/unpack, json, datetime, decimal, uuid, "
    "hashlib, zlib/bz2/lzma are modelled (assumed), not verified",
    ".pyx mirrors are not modelled and not exercised (pure-Python backend is live)",
]


def trim(x, n=400):
    s = json.dumps(x, default=str)
    return json.loads(s) if len(s) <= n else s[:n] + "…"


def load_findings(pid):
    p = os.path.join(VERIF, "known_findings.json")
    if not os.path.exists(p):
        return []
    return [f for f in json.load(open(p))["findings"] if pid in f.get("properties", [f.get("property")])]


def match_finding(f, case, why):
    """a failing case is attributed to a finding only if the failure signature matches and the
    structural matcher accepts the case."""
    m = f.get("matcher", {})
    if "why" in m and not re.search(m["why"], why):
        return False
    if "tags_all" in m:
        tags = set(case.get("tags", [])) if isinstance(case, dict) else set()
        if not set(m["tags_all"]) <= tags:
            return False
    if "case_regex" in m and not re.search(m["case_regex"], json.dumps(case, default=str)):
        return False
    return True


def main_wrapper(fn):
    """exit 0/1 from the check, 2 for machinery errors or timeouts"""
    try:
        rc = fn()
    except MachineryError as e:
        print("MACHINERY-ERROR:", e)
        sys.exit(2)
    except subprocess.TimeoutExpired as e:
        print("TIMEOUT:", e)
        sys.exit(2)
    sys.exit(rc)
