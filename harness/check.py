"""Entry point: ./check Cxx [--tier quick|thorough] [--replay file]"""
import argparse
import importlib
import os
import sys
import traceback

sys.path.insert(0, os.path.dirname(os.path.abspath(__file__)))


def main():
    ap = argparse.ArgumentParser()
    ap.add_argument("pid")
    ap.add_argument("--tier", default=os.environ.get("VERIF_TIER", "quick"))
    ap.add_argument("--replay", default=None)
    a = ap.parse_args()
    seed = int(os.environ.get("VERIF_SEED", "0") or 0)
    from core import MachineryError
    import subprocess
    try:
        mod = importlib.import_module("props." + a.pid.lower())
        if a.replay:
            rc = mod.replay(a.replay)
        else:
            rc = mod.run(a.tier, seed)
    except MachineryError as e:
        print("MACHINERY-ERROR:", e)
        sys.exit(2)
    except subprocess.TimeoutExpired as e:
        print("TIMEOUT:", e)
        sys.exit(2)
    except Exception:
        traceback.print_exc()
        print("MACHINERY-ERROR: internal error of the check (not a violation)")
        sys.exit(2)
    sys.exit(rc)


main()
