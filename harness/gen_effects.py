"""Translator for C17 / C18: extracts from /repo's *current* source, by AST analysis, the effect
summary of every function of the pure-Python backend and closes it over the call graph:

  * the module-level objects that can hold state (dict / list / set literals and comprehensions,
    constructor calls such as Context()), per module;
  * per function: module-level objects it reads, those it writes (attribute / subscript stores,
    `global` rebinding, mutating method calls), whether each write textually precedes every read of
    the same object in the function body ("write-first"), parameters it may mutate, parameters with
    a mutable default value that it may mutate, and the functions it may call (by name, through
    imports, through dispatch tables it reads, and methods by attribute name);
  * per public entry point: the transitive closure of all that.

Output: lean/Gen/Effects.lean (regenerated on every run; Properties/C17, C18 state their obligations
about it).  The analysis is syntactic and conservative in the listed respects only — aliasing through
attributes, setattr/exec and C code are invisible to it (trusted base; the dynamic snapshots of the
C17 harness validate the table against the running implementation)."""
import ast
import os
import sys

MUT_METHODS = {"append", "extend", "update", "pop", "popitem", "clear", "setdefault", "add", "remove", "discard",
               "insert", "sort", "reverse", "__setitem__", "__delitem__"}
# attribute calls with these names on an unknown receiver are calls on built-in objects (files, dicts, strings)
BUILTIN_METHODS = {"read", "write", "get", "flush", "seek", "tell", "close", "items", "keys", "values", "update", "pop",
                   "append", "extend", "join", "format", "encode", "decode", "startswith", "endswith", "split", "rsplit",
                   "strip", "copy", "index", "add", "load", "loads", "dumps", "getvalue", "truncate", "setdefault", "popitem",
                   "insert", "replace", "lower", "upper", "search", "match", "fullmatch", "hexdigest", "digest", "sort",
                   "to_bytes", "from_bytes", "as_tuple", "scaleb", "create_decimal", "total_seconds", "timestamp", "astimezone",
                   "toordinal", "fromordinal", "isoformat", "bit_length", "pack", "unpack", "compress", "decompress", "open"}
MUT_CTORS = {"dict", "list", "set", "Context", "defaultdict", "OrderedDict", "bytearray", "deque"}
# a module-level object made by any other call can hold state too (threading.local(), an instance of a class, a
# hash object, a cache decorator's wrapper ...) unless the callee is known to build an immutable value
IMMUTABLE_CTORS = {"datetime", "date", "time", "timedelta", "timezone", "TypeVar", "NewType", "compile", "object", "type",
                   "frozenset", "tuple", "int", "str", "bytes", "float", "bool", "toordinal", "namedtuple", "getLogger",
                   "_NoDefault", "_missing_codec_lib", "Struct", "join", "dirname", "abspath", "get_distribution"}

# entry points of the public API: name -> (module, qualified function, parameters allowed to be written)
PUBLIC = {
    "parse_schema": ("_schema_py", "parse_schema", ["named_schemas"]),
    "to_parsing_canonical_form": ("_schema_py", "to_parsing_canonical_form", []),
    "fingerprint": ("_schema_py", "fingerprint", []),
    "load_schema": ("_schema_py", "load_schema", ["named_schemas", "_injected_schemas"]),
    "load_schema_ordered": ("_schema_py", "load_schema_ordered", []),
    "expand_schema": ("_schema_py", "expand_schema", []),
    "fullname": ("_schema_py", "fullname", []),
    "schemaless_writer": ("_write_py", "schemaless_writer", ["fo"]),
    "writer": ("_write_py", "writer", ["fo", "metadata"]),
    "schemaless_reader": ("_read_py", "schemaless_reader", ["fo"]),
    "reader": ("_read_py", "reader.__init__", ["fo"]),
    "block_reader": ("_read_py", "block_reader.__init__", ["fo"]),
    "is_avro": ("_read_py", "is_avro", []),
    "validate": ("_validation_py", "validate", []),
    "validate_many": ("_validation_py", "validate_many", []),
    "json_writer": ("json_write", "json_writer", ["fo"]),
    "json_reader": ("json_read", "json_reader", ["fo"]),
    "generate_one": ("utils", "generate_one", []),
    "generate_many": ("utils", "generate_many", []),
    "anonymize_schema": ("utils", "anonymize_schema", []),
}


def is_mutable_ctor(v):
    if isinstance(v, (ast.Dict, ast.List, ast.Set, ast.DictComp, ast.ListComp, ast.SetComp)):
        return True
    if isinstance(v, ast.Call):
        f = v.func
        n = f.id if isinstance(f, ast.Name) else (f.attr if isinstance(f, ast.Attribute) else "")
        return n in MUT_CTORS or n not in IMMUTABLE_CTORS
    if isinstance(v, ast.BinOp):
        return is_mutable_ctor(v.left) or is_mutable_ctor(v.right)
    return False


def root_name(e):
    while isinstance(e, (ast.Attribute, ast.Subscript)):
        e = e.value
    return e.id if isinstance(e, ast.Name) else None


class Module:
    def __init__(self, name, path):
        self.name = name
        self.tree = ast.parse(open(path).read(), path)
        self.mutables = {}        # module-level name -> True (state-holding object)
        self.dispatch = {}        # module-level dict name -> function names it holds
        self.imports = {}         # local name -> (module, original name)
        self.funcs = {}           # qualified name -> FunctionDef
        self.classes = {}
        self.module_aliases = {}  # local name -> module it denotes (`from . import _x_py as _x`)
        for st in ast.walk(self.tree):
            if isinstance(st, ast.ImportFrom) and not st.module:
                for a in st.names:
                    self.module_aliases[a.asname or a.name] = a.name
        for st in self.tree.body:
            if (isinstance(st, ast.Assign) and len(st.targets) == 1 and isinstance(st.targets[0], ast.Name)
                    and isinstance(st.value, ast.Attribute) and isinstance(st.value.value, ast.Name)
                    and st.value.value.id in self.module_aliases):
                # X = _module.Y : a re-export
                self.imports[st.targets[0].id] = (self.module_aliases[st.value.value.id], st.value.attr)
                continue
            if isinstance(st, (ast.Assign, ast.AnnAssign)):
                targets = st.targets if isinstance(st, ast.Assign) else [st.target]
                value = st.value
                for t in targets:
                    if isinstance(t, ast.Name) and value is not None and is_mutable_ctor(value):
                        self.mutables[t.id] = True
                        if isinstance(value, ast.Dict):
                            self.dispatch[t.id] = [v.id for v in value.values if isinstance(v, ast.Name)]
            elif isinstance(st, ast.ImportFrom):
                mod = (st.module or "").split(".")[-1]
                for a in st.names:
                    self.imports[a.asname or a.name] = (mod, a.name)
            elif isinstance(st, ast.Try):
                for sub in st.body + [x for h in st.handlers for x in h.body]:
                    if isinstance(sub, ast.ImportFrom):
                        mod = (sub.module or "").split(".")[-1]
                        for a in sub.names:
                            self.imports.setdefault(a.asname or a.name, (mod, a.name))
            elif isinstance(st, (ast.FunctionDef, ast.AsyncFunctionDef)):
                self.funcs[st.name] = st
            elif isinstance(st, ast.ClassDef):
                self.classes[st.name] = st
                for sub in st.body:
                    if isinstance(sub, (ast.FunctionDef, ast.AsyncFunctionDef)):
                        self.funcs[st.name + "." + sub.name] = sub
        # a module-level name that some function rebinds (`global X; X = ...`) holds state whatever it is bound to
        for n in ast.walk(self.tree):
            if isinstance(n, ast.Global):
                for g in n.names:
                    self.mutables[g] = True
        # later subscript stores at module level (BLOCK_WRITERS["snappy"] = f) add dispatch members
        for st in ast.walk(self.tree):
            if isinstance(st, ast.Assign) and len(st.targets) == 1 and isinstance(st.targets[0], ast.Subscript):
                r = root_name(st.targets[0])
                if r in self.dispatch and isinstance(st.value, ast.Name):
                    self.dispatch[r].append(st.value.id)


def analyse(repo):
    fa = os.path.join(repo, "fastavro")
    mods = {}
    for dp, dn, fn in os.walk(fa):
        for f in sorted(fn):
            if f.endswith(".py") and not f.startswith("__"):
                p = os.path.join(dp, f)
                name = f[:-3]
                mods[name] = Module(name, p)
    # imports of the compiled twins (`from ._read import x`, falling back to `._read_py`) denote the
    # pure-Python modules analysed here
    for m in mods.values():
        for k, (mod, orig) in list(m.imports.items()):
            if (mod + "_py") in mods and (mod not in mods or not (mods[mod].funcs or mods[mod].mutables)):
                m.imports[k] = (mod + "_py", orig)
            elif mod not in mods and (mod + "_py") in mods:
                m.imports[k] = (mod + "_py", orig)
    def chase(mod, name, depth=0):
        """follow re-exports (`from ._x import name` in a facade module) to the defining module"""
        while depth < 6 and mod in mods:
            mm = mods[mod]
            if name in mm.mutables or name in mm.funcs or name in mm.classes:
                return mod, name
            if name in mm.imports:
                mod, name = mm.imports[name]
                depth += 1
                continue
            break
        return mod, name

    for m in mods.values():
        for k, (mod, orig) in list(m.imports.items()):
            m.imports[k] = chase(mod, orig)
    # ---- local summaries
    summ = {}
    method_index = {}         # attribute name -> [qualified functions] (methods, for calls through objects)
    for m in mods.values():
        for q in m.funcs:
            if "." in q:
                method_index.setdefault(q.split(".")[1], []).append((m.name, q))
    for m in mods.values():
        for q, fn in m.funcs.items():
            params = [a.arg for a in fn.args.posonlyargs + fn.args.args + fn.args.kwonlyargs]
            if fn.args.vararg:
                params.append(fn.args.vararg.arg)
            if fn.args.kwarg:
                params.append(fn.args.kwarg.arg)
            pos = fn.args.posonlyargs + fn.args.args
            defaults = dict(zip([a.arg for a in pos[len(pos) - len(fn.args.defaults):]], fn.args.defaults))
            for a, d in zip(fn.args.kwonlyargs, fn.args.kw_defaults):
                if d is not None:
                    defaults[a.arg] = d
            mutable_default_params = [p for p, d in defaults.items() if is_mutable_ctor(d)]
            local = set(params)
            globs_decl = set()
            for n in ast.walk(fn):
                if isinstance(n, ast.Name) and isinstance(n.ctx, ast.Store):
                    local.add(n.id)
                elif isinstance(n, ast.Global):
                    globs_decl |= set(n.names)
                elif isinstance(n, (ast.FunctionDef, ast.Lambda)) and n is not fn:
                    pass
            local -= globs_decl

            def resolve(name):
                """module-level state object a bare name denotes, as "module.name", or None"""
                if name in local:
                    return None
                if name in m.mutables:
                    return m.name + "." + name
                if name in m.imports:
                    mod, orig = m.imports[name]
                    if mod in mods and orig in mods[mod].mutables:
                        return mod + "." + orig
                return None

            reads, writes, calls, pwrites = [], [], set(), set()
            events = []       # (lineno, col, kind, object) in source order, for write-first
            for n in ast.walk(fn):
                tgts = []
                if isinstance(n, ast.Assign):
                    tgts = n.targets
                elif isinstance(n, (ast.AugAssign, ast.AnnAssign)):
                    tgts = [n.target]
                elif isinstance(n, ast.Delete):
                    tgts = n.targets
                for t in tgts:
                    if isinstance(t, (ast.Attribute, ast.Subscript)):
                        r = root_name(t)
                        if r is None:
                            continue
                        g = resolve(r)
                        if g:
                            events.append((n.lineno, n.col_offset, "w", g))
                        elif r in params and r != "self" and r != "cls":
                            pwrites.add(r)
                    elif isinstance(t, ast.Name) and t.id in globs_decl:
                        events.append((n.lineno, n.col_offset, "w", m.name + "." + t.id))
                if isinstance(n, ast.Call):
                    f = n.func
                    if isinstance(f, ast.Attribute) and f.attr in MUT_METHODS:
                        r = root_name(f.value)
                        g = resolve(r) if r else None
                        if g:
                            events.append((n.lineno, n.col_offset, "w", g))
                        elif r in params and r not in ("self", "cls"):
                            pwrites.add(r)
                    if isinstance(f, ast.Name):
                        calls.add(("name", f.id, tuple(a.id if isinstance(a, ast.Name) else None for a in n.args),
                                   tuple((k.arg, k.value.id if isinstance(k.value, ast.Name) else None) for k in n.keywords)))
                    elif isinstance(f, ast.Attribute):
                        recv = f.value.id if isinstance(f.value, ast.Name) else None
                        calls.add(("attr", f.attr, (recv,), ()))
                if isinstance(n, ast.Name) and isinstance(n.ctx, ast.Load):
                    g = resolve(n.id)
                    if g:
                        events.append((n.lineno, n.col_offset, "r", g))
                        # reading a dispatch table = possibly calling everything in it
                        mod, nm = g.split(".")
                        for fnm in mods[mod].dispatch.get(nm, []):
                            calls.add(("name@" + mod, fnm, (), ()))
            events.sort()
            first = {}
            for ln, col, kind, g in events:
                first.setdefault(g, (kind, ln))
            # a store `g.x = e` also loads g syntactically at the same position: treat a write whose
            # line is not later than the first read as first
            wf = []
            for g in {e[3] for e in events}:
                ws = [e for e in events if e[3] == g and e[2] == "w"]
                rs = [e for e in events if e[3] == g and e[2] == "r"]
                if ws and (not rs or min(w[0] for w in ws) <= min(r[0] for r in rs)):
                    # and the write is a top-level statement of the body (executed unconditionally)
                    top_lines = {st.lineno for st in fn.body}
                    if min(w[0] for w in ws) in top_lines:
                        wf.append(g)
            summ[(m.name, q)] = {
                "params": params,
                "reads": sorted({e[3] for e in events if e[2] == "r"}),
                "writes": sorted({e[3] for e in events if e[2] == "w"}),
                "write_first": sorted(wf),
                "pwrites": sorted(pwrites),
                "mutable_defaults": mutable_default_params,
                "calls": calls,
            }
    # ---- call resolution
    def callees(mname, q):
        m = mods[mname]
        out = []
        for kind, name, args, kws in summ[(mname, q)]["calls"]:
            if kind == "name":
                if name in m.funcs:
                    out.append((mname, name, args, kws))
                elif name in m.classes and (name + ".__init__") in m.funcs:
                    out.append((mname, name + ".__init__", (None,) + args, kws))
                elif name in m.imports:
                    mod, orig = m.imports[name]
                    if mod in mods:
                        if orig in mods[mod].funcs:
                            out.append((mod, orig, args, kws))
                        elif orig in mods[mod].classes and (orig + ".__init__") in mods[mod].funcs:
                            out.append((mod, orig + ".__init__", (None,) + args, kws))
            elif kind.startswith("name@"):
                mod = kind.split("@")[1]
                if name in mods[mod].funcs:
                    out.append((mod, name, (), ()))
                elif name in mods[mod].imports:
                    mod2, orig = mods[mod].imports[name]
                    if mod2 in mods and orig in mods[mod2].funcs:
                        out.append((mod2, orig, (), ()))
            else:
                recv = args[0] if args else None
                cls = q.split(".")[0] if "." in q else None
                fn = m.funcs[q]
                # receiver bound to a constructor call in this function
                ctor = None
                if recv and recv not in ("self", "cls"):
                    for n in ast.walk(fn):
                        if (isinstance(n, ast.Assign) and len(n.targets) == 1 and isinstance(n.targets[0], ast.Name)
                                and n.targets[0].id == recv and isinstance(n.value, ast.Call) and isinstance(n.value.func, ast.Name)):
                            ctor = n.value.func.id
                if recv in ("self", "cls") and cls and (cls + "." + name) in m.funcs:
                    out.append((mname, cls + "." + name, (), ()))
                elif ctor:
                    cm, cn = (mname, ctor)
                    if ctor in m.imports:
                        cm, cn = m.imports[ctor]
                    if cm in mods and (cn + "." + name) in mods[cm].funcs:
                        out.append((cm, cn + "." + name, (), ()))
                    else:
                        # inherited method: any class defining it
                        for mm, qq in method_index.get(name, []):
                            out.append((mm, qq, (), ()))
                elif name not in BUILTIN_METHODS and not name.startswith("__"):
                    for mm, qq in method_index.get(name, []):
                        out.append((mm, qq, (), ()))
        return out

    # ---- transitive closure by fixed-point iteration over the call graph
    edges = {key: callees(*key) for key in summ}
    acc = {key: {"reads": set(s["reads"]), "writes": set(s["writes"]), "pwrites": set(s["pwrites"]),
                 "mdef": {(key[1], p) for p in s["mutable_defaults"] if p in s["pwrites"]},
                 "reach": {key}} for key, s in summ.items()}
    changed = True
    while changed:
        changed = False
        for key, outs in edges.items():
            a = acc[key]
            s = summ[key]
            for mod, q, args, kws in outs:
                sub = acc[(mod, q)]
                before = (len(a["reads"]), len(a["writes"]), len(a["pwrites"]), len(a["mdef"]), len(a["reach"]))
                a["reads"] |= sub["reads"]
                a["writes"] |= sub["writes"]
                a["mdef"] |= sub["mdef"]
                a["reach"] |= sub["reach"]
                cp = summ[(mod, q)]["params"]
                for i, arg in enumerate(args):
                    if arg is not None and i < len(cp) and cp[i] in sub["pwrites"] and arg in s["params"]:
                        a["pwrites"].add(arg)
                for kname, arg in kws:
                    if arg is not None and kname in sub["pwrites"] and arg in s["params"]:
                        a["pwrites"].add(arg)
                # a mutable default of the callee is at risk when the caller does not pass that parameter
                for p in summ[(mod, q)]["mutable_defaults"]:
                    if p in sub["pwrites"]:
                        passed = (p in cp and cp.index(p) < len(args)) or any(k == p for k, _ in kws)
                        if not passed:
                            a["mdef"].add((q, p))
                if before != (len(a["reads"]), len(a["writes"]), len(a["pwrites"]), len(a["mdef"]), len(a["reach"])):
                    changed = True

    def close(key):
        a = acc[key]
        # g is written first by the entry point when every reachable function that reads g (re)writes
        # it unconditionally before its own first read
        wf = set()
        for g in a["writes"]:
            readers = [k for k in a["reach"] if g in summ[k]["reads"]]
            if readers and all(g in summ[k]["write_first"] for k in readers):
                wf.add(g)
        return {"reads": a["reads"], "writes": a["writes"], "pwrites": a["pwrites"], "mdef": a["mdef"], "wf": wf}

    entries = []
    for pub, (mod, q, allowed) in sorted(PUBLIC.items()):
        if mod not in mods or q not in mods[mod].funcs:
            entries.append((pub, None, allowed))
            continue
        r = close((mod, q))
        entries.append((pub, r, allowed))
    state_objects = sorted(m.name + "." + g for m in mods.values() for g in m.mutables)
    return mods, summ, entries, state_objects


def lean_str(s):
    return '"' + s.replace("\\", "\\\\").replace('"', '\\"') + '"'


def lst(xs):
    return "[" + ", ".join(lean_str(x) for x in xs) + "]"


def render(repo):
    mods, summ, entries, state_objects = analyse(repo)
    out = ["/- GENERATED by harness/gen_effects.py from /repo's working tree — do not edit. -/", "namespace Gen", ""]
    out.append("/-- module-level objects that can hold state -/")
    out.append("def stateObjects : List String := " + lst(state_objects) + "\n")
    out.append("structure Effect where")
    out.append("  name : String")
    out.append("  found : Bool")
    out.append("  reads : List String")
    out.append("  writes : List String")
    out.append("  writeFirst : List String")
    out.append("  paramWrites : List String")
    out.append("  allowedParamWrites : List String")
    out.append("  mutatedDefaults : List String")
    out.append("deriving Repr, DecidableEq\n")
    out.append("/-- transitive effect summary of every public entry point -/")
    out.append("def effects : List Effect := [")
    rows = []
    for pub, r, allowed in entries:
        if r is None:
            rows.append("  { name := %s, found := false, reads := [], writes := [], writeFirst := [], paramWrites := [], "
                        "allowedParamWrites := %s, mutatedDefaults := [] }" % (lean_str(pub), lst(allowed)))
        else:
            rows.append("  { name := %s, found := true, reads := %s, writes := %s, writeFirst := %s, paramWrites := %s, "
                        "allowedParamWrites := %s, mutatedDefaults := %s }" % (
                            lean_str(pub), lst(sorted(r["reads"])), lst(sorted(r["writes"])), lst(sorted(r["wf"] & r["writes"])),
                            lst(sorted(r["pwrites"])), lst(allowed), lst(sorted("%s(%s)" % x for x in r["mdef"]))))
    out.append(",\n".join(rows))
    out.append("]\n")
    out.append("end Gen")
    return "\n".join(out) + "\n"


def write(repo, path):
    txt = render(repo)
    os.makedirs(os.path.dirname(path), exist_ok=True)
    old = open(path).read() if os.path.exists(path) else None
    if old != txt:
        open(path, "w").write(txt)
    return txt


if __name__ == "__main__":
    repo = sys.argv[1] if len(sys.argv) > 1 else "/repo"
    if len(sys.argv) > 2:
        write(repo, sys.argv[2])
    else:
        print(render(repo))
