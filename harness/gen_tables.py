"""Translator (a): regenerates lean/Gen/Tables.lean from /repo's working tree on every run.

It parses the source with `ast` (nothing is imported from the repository), evaluates the
module-level constant expressions with a tiny interpreter, and copies the key -> function-name maps
of the dispatch tables.  The Lean side (Properties/Tables.lean) proves that the constants the
model is written against are the ones found here; a changed constant or dispatch entry therefore
breaks a proof obligation at build time."""
import ast
import datetime
import hashlib
import os
import re
import sys


class Unsupported(Exception):
    pass


def ev(node, env):
    if isinstance(node, ast.Constant):
        return node.value
    if isinstance(node, ast.Name):
        if node.id in env:
            return env[node.id]
        raise Unsupported(node.id)
    if isinstance(node, ast.UnaryOp) and isinstance(node.op, ast.USub):
        return -ev(node.operand, env)
    if isinstance(node, ast.BinOp):
        a, b = ev(node.left, env), ev(node.right, env)
        ops = {ast.Add: lambda: a + b, ast.Sub: lambda: a - b, ast.Mult: lambda: a * b,
               ast.LShift: lambda: a << b, ast.BitOr: lambda: a | b, ast.Pow: lambda: a ** b}
        for k, f in ops.items():
            if isinstance(node.op, k):
                return f()
        raise Unsupported(ast.dump(node.op))
    if isinstance(node, ast.Set):
        return set(ev(e, env) for e in node.elts)
    if isinstance(node, (ast.List, ast.Tuple)):
        return [ev(e, env) for e in node.elts]
    if isinstance(node, ast.Dict):
        return {ev(k, env): ev(v, env) for k, v in zip(node.keys, node.values)}
    if isinstance(node, ast.Call):
        f = node.func
        if isinstance(f, ast.Name) and f.id == "len":
            return len(ev(node.args[0], env))
        if isinstance(f, ast.Name) and f.id == "chr":
            return chr(ev(node.args[0], env))
        if isinstance(f, ast.Attribute) and f.attr == "encode":
            return ev(f.value, env).encode()
        if isinstance(f, ast.Attribute) and f.attr == "keys":
            return set(ev(f.value, env).keys())
        if isinstance(f, ast.Attribute) and f.attr == "toordinal":
            inner = f.value
            if (isinstance(inner, ast.Call) and isinstance(inner.func, ast.Attribute)
                    and inner.func.attr == "date"):
                y, m, d = [ev(a, env) for a in inner.args]
                return datetime.date(y, m, d).toordinal()
        if isinstance(f, ast.Attribute) and f.attr == "compile":
            return ("regex", ev(node.args[0], env))
    if isinstance(node, ast.Attribute) and node.attr == "algorithms_guaranteed":
        return set(hashlib.algorithms_guaranteed)
    raise Unsupported(ast.dump(node)[:80])


def module_consts(path):
    tree = ast.parse(open(path).read())
    env, names = {}, {}
    for st in tree.body:
        if isinstance(st, ast.Assign) and len(st.targets) == 1 and isinstance(st.targets[0], ast.Name):
            n = st.targets[0].id
            # dispatch tables: dict literal whose values are plain names
            if isinstance(st.value, ast.Dict) and st.value.keys and all(
                    isinstance(v, ast.Name) for v in st.value.values) and all(
                    isinstance(k, ast.Constant) for k in st.value.keys):
                names[n] = [(k.value, v.id) for k, v in zip(st.value.keys, st.value.values)]
                continue
            try:
                env[n] = ev(st.value, env)
            except Unsupported:
                pass
            except Exception:
                pass
    # the Rabin polynomial: the integer constant assigned to a name containing "empty", wherever it
    # lives (function local today; a refactor may hoist it to module level)
    for node in ast.walk(tree):
        if (isinstance(node, ast.Assign) and len(node.targets) == 1 and isinstance(node.targets[0], ast.Name)
                and isinstance(node.value, ast.Constant) and isinstance(node.value.value, int)
                and "empty" in node.targets[0].id.lower()):
            env["rabin.empty_64"] = node.value.value
    return env, names


def promotion_pairs(path):
    """the (writer, reader) type-name pairs `match_types` accepts as promotions: every
    `if/elif writer_type == C and reader_type (== C' | in [C'...])` whose body is `return True`"""
    tree = ast.parse(open(path).read())
    pairs = set()
    for fn in ast.walk(tree):
        if isinstance(fn, ast.FunctionDef) and fn.name == "match_types":
            for node in ast.walk(fn):
                if not (isinstance(node, ast.If) and isinstance(node.test, ast.BoolOp) and isinstance(node.test.op, ast.And)
                        and len(node.test.values) == 2):
                    continue
                if not (len(node.body) == 1 and isinstance(node.body[0], ast.Return)
                        and isinstance(node.body[0].value, ast.Constant) and node.body[0].value.value is True):
                    continue
                side = {}
                for c in node.test.values:
                    if (isinstance(c, ast.Compare) and isinstance(c.left, ast.Name) and len(c.ops) == 1
                            and c.left.id in ("writer_type", "reader_type")):
                        comp = c.comparators[0]
                        if isinstance(c.ops[0], ast.Eq) and isinstance(comp, ast.Constant):
                            side[c.left.id] = [comp.value]
                        elif isinstance(c.ops[0], ast.In) and isinstance(comp, (ast.List, ast.Tuple, ast.Set)):
                            side[c.left.id] = [e.value for e in comp.elts if isinstance(e, ast.Constant)]
                if len(side) == 2:
                    for w in side["writer_type"]:
                        for r in side["reader_type"]:
                            pairs.add((w, r))
    return sorted(pairs)


_PROMO_PROBE = r"""
import json
import fastavro._read_py as R
NAMES = ["null", "boolean", "int", "long", "float", "double", "bytes", "string"]
out = []
for w in NAMES:
    for r in NAMES:
        if w == r:
            continue
        try:
            ok = R.match_types(w, r, {"writer": {}, "reader": {}})
        except TypeError:
            ok = R.match_types(w, r)
        if ok:
            out.append([w, r])
print(json.dumps(out))
"""


def promotion_pairs_dynamic(repo):
    """the promotions `match_types` accepts, tabulated by RUNNING it (child interpreter on /repo's current source) on
    every ordered pair of distinct primitive type names — robust against refactorings of its if-chain"""
    import json
    import subprocess
    env = dict(os.environ, PYTHONPATH=repo)
    pr = subprocess.run([sys.executable, "-c", _PROMO_PROBE], env=env, capture_output=True, timeout=60, cwd="/")
    rows = json.loads(pr.stdout.decode())
    return sorted((a, b) for a, b in rows)


class _Probe:
    """stands for `data` while `maybe_promote` is run over its finite decision domain"""
    def __init__(self):
        self.ops = []

    def __float__(self):
        self.ops.append("float")
        return 0.0

    def encode(self, *a):
        self.ops.append("encode")
        return self

    def decode(self, *a):
        self.ops.append("decode")
        return self


def promote_ops(path):
    """`maybe_promote` decides on equality tests of its two type names against constants only, so
    running it on every pair of those constants (plus one name that is none of them) tabulates it"""
    src = open(path).read()
    tree = ast.parse(src)
    for fn in tree.body:
        if isinstance(fn, ast.FunctionDef) and fn.name == "maybe_promote":
            consts = sorted({n.value for n in ast.walk(fn) if isinstance(n, ast.Constant) and isinstance(n.value, str)})
            names = {n.id for n in ast.walk(fn) if isinstance(n, ast.Name)}
            allowed = {"data", "writer_type", "reader_type", "float", "int", "str", "bytes"}
            if not names <= allowed:
                raise Unsupported("maybe_promote refers to " + ", ".join(sorted(names - allowed)))
            mod = ast.Module(body=[fn], type_ignores=[])
            env = {}
            exec(compile(mod, path, "exec"), {"__builtins__": {"float": float, "int": int, "str": str, "bytes": bytes}}, env)
            f = env["maybe_promote"]
            dom = consts + ["<other>"]
            out = []
            for w in dom:
                for r in dom:
                    p = _Probe()
                    f(p, w, r)
                    out.append((w, r, "+".join(p.ops) or "id"))
            return out
    return []


class _ProbeFile:
    """stands for `file_like` while `_is_appendable` is run over its finite decision domain"""
    def __init__(self, seekable, pos, name, readable):
        self._s, self._p, self._r = seekable, pos, readable
        if name is not None:
            self.name = name

    def seekable(self):
        return self._s

    def tell(self):
        return self._p

    def readable(self):
        return self._r


def appendable_table(path):
    """`_is_appendable` decides on seekable(), tell() != 0, the name "<stdout>" and readable() only: running it in
    isolation on the 24 combinations tabulates it -> (seekable, pos != 0, name is <stdout>, readable, outcome)"""
    tree = ast.parse(open(path).read())
    for fn in tree.body:
        if isinstance(fn, ast.FunctionDef) and fn.name == "_is_appendable":
            names = {n.id for n in ast.walk(fn) if isinstance(n, ast.Name)}
            allowed = {"file_like", "getattr", "ValueError", "hasattr", "bool", "str", "True", "False"}
            if not names <= allowed:
                raise Unsupported("_is_appendable refers to " + ", ".join(sorted(names - allowed)))
            env = {}
            exec(compile(ast.Module(body=[fn], type_ignores=[]), path, "exec"),
                 {"__builtins__": {"getattr": getattr, "ValueError": ValueError, "hasattr": hasattr, "bool": bool, "str": str}}, env)
            f = env["_is_appendable"]
            out = []
            for seekable in (False, True):
                for pos in (0, 5):
                    for name in ("<stdout>", "data.avro", None):
                        for readable in (False, True):
                            try:
                                r = f(_ProbeFile(seekable, pos, name, readable))
                                o = "true" if r is True else "false" if r is False else "other"
                            except ValueError:
                                o = "ValueError"
                            except Exception as e:  # noqa
                                o = type(e).__name__
                            out.append((seekable, pos != 0, name == "<stdout>", readable, o))
            return out
    return []


_RANGE_PROBE = r"""
import json, sys
import fastavro.utils as U
calls = []
class Rec:
    def __init__(self, real):
        self._real = real
    def randint(self, a, b):
        calls.append((a, b))
        return a
    def __getattr__(self, name):
        return getattr(self._real, name)
U.random = Rec(U.random)
LOG = ["date", "time-millis", "time-micros", "timestamp-millis", "timestamp-micros", "local-timestamp-millis", "local-timestamp-micros"]
MATCH = {("int", "date"), ("int", "time-millis"), ("long", "time-micros"), ("long", "timestamp-millis"), ("long", "timestamp-micros"),
         ("long", "local-timestamp-millis"), ("long", "local-timestamp-micros")}
out = []
for T in ("int", "long"):
    for L in [""] + LOG:
        schema = {"type": T} if not L else {"type": T, "logicalType": L}
        del calls[:]
        try:
            U.gen_data(schema, {})
        except TypeError:
            try:
                U.gen_data(schema, {}, 0)
            except Exception:
                continue
        except Exception:
            continue
        # an annotation that does not belong to the type is ignored: the draw must be a plain draw of the type
        key = (T + "-" + L) if (T, L) in MATCH else ""
        for a, b in calls:
            out.append([T, key, a, b])
print(json.dumps(out))
"""


def generation_ranges_dynamic(repo):
    """the integer ranges `gen_data` draws from, tabulated by RUNNING it (in a child interpreter on /repo's current
    source, `random.randint` replaced by a recorder) on int / long with every logical annotation — robust against
    refactorings of gen_data, unlike reading the ranges off its syntax tree"""
    import json
    import subprocess
    env = dict(os.environ, PYTHONPATH=repo)
    pr = subprocess.run([sys.executable, "-c", _RANGE_PROBE], env=env, capture_output=True, timeout=60, cwd="/")
    rows = json.loads(pr.stdout.decode())
    if not rows:
        raise Unsupported("no ranges recorded")
    return sorted({(r[0], r[1], int(r[2]), int(r[3])) for r in rows}, key=lambda x: (x[0], x[1], x[2], x[3]))


def generation_ranges(repo):
    """the integer ranges `gen_data` draws from, per (type, logical type): every
    `return random.randint(A, B)` with its enclosing `record_type == T` / `logical_type == L` tests,
    A and B evaluated with the module constants (utils.py and const.py)"""
    fa = os.path.join(repo, "fastavro")
    env = {}
    for f in ("const.py", "utils.py"):
        try:
            e, _ = module_consts(os.path.join(fa, f))
            env.update(e)
        except Exception:
            pass
    import datetime as _dt
    tree = ast.parse(open(os.path.join(fa, "utils.py")).read())

    def evx(node):
        # datetime.date.max.toordinal()
        if isinstance(node, ast.Call) and isinstance(node.func, ast.Attribute) and node.func.attr == "toordinal" \
                and ast.unparse(node.func.value) in ("datetime.date.max", "date.max"):
            return _dt.date.max.toordinal()
        if isinstance(node, ast.BinOp):
            l, r = evx(node.left), evx(node.right)
            if isinstance(node.op, ast.Add):
                return l + r
            if isinstance(node.op, ast.Sub):
                return l - r
            if isinstance(node.op, ast.Mult):
                return l * r
            if isinstance(node.op, ast.Pow):
                return l ** r
            raise Unsupported("op")
        if isinstance(node, ast.UnaryOp) and isinstance(node.op, ast.USub):
            return -evx(node.operand)
        return ev(node, env)

    out = []
    for fn in tree.body:
        if not (isinstance(fn, ast.FunctionDef) and fn.name == "gen_data"):
            continue

        def conds(test):
            """{variable: [constants]} for tests of the form v == C (or-ed)"""
            res = {}
            parts = test.values if isinstance(test, ast.BoolOp) and isinstance(test.op, ast.Or) else [test]
            for c in parts:
                if (isinstance(c, ast.Compare) and isinstance(c.left, ast.Name) and len(c.ops) == 1 and isinstance(c.ops[0], ast.Eq)
                        and isinstance(c.comparators[0], ast.Constant)):
                    res.setdefault(c.left.id, []).append(c.comparators[0].value)
            return res

        def walk(stmts, ctx):
            for st in stmts:
                if isinstance(st, ast.If):
                    c = conds(st.test)
                    ctx2 = dict(ctx)
                    for k, v in c.items():
                        ctx2[k] = v
                    walk(st.body, ctx2)
                    walk(st.orelse, ctx)
                elif isinstance(st, ast.Return) and isinstance(st.value, ast.Call) and ast.unparse(st.value.func) == "random.randint":
                    try:
                        a, b = evx(st.value.args[0]), evx(st.value.args[1])
                    except Exception:
                        a = b = None
                    for rt in ctx.get("record_type", ["?"]):
                        for lt in ctx.get("logical_type", [""]):
                            out.append((rt, lt, a, b))
        walk(fn.body, {})
    return sorted(out, key=lambda x: (x[0], x[1]))


def lean_str(s):
    return '"' + s.replace("\\", "\\\\").replace('"', '\\"') + '"'


def render(repo):
    fa = os.path.join(repo, "fastavro")
    files = ["const.py", "_schema_common.py", "_read_common.py", "_schema_py.py", "_write_py.py", "_read_py.py",
             "_validation_py.py", "_logical_writers_py.py", "_logical_readers_py.py"]
    ints, strsets, byts, strs, disp, strmaps = {}, {}, {}, {}, {}, {}
    for f in files:
        p = os.path.join(fa, f)
        if not os.path.exists(p):
            continue
        env, names = module_consts(p)
        mod = f[:-3]
        for k, v in env.items():
            key = mod + "." + k
            if isinstance(v, bool):
                continue
            if isinstance(v, int):
                ints[key] = v
            elif isinstance(v, (set, frozenset)) and all(isinstance(x, str) for x in v):
                strsets[key] = sorted(v)
            elif isinstance(v, bytes):
                byts[key] = v
            elif isinstance(v, str):
                strs[key] = v
            elif isinstance(v, tuple) and v and v[0] == "regex":
                strs[key] = v[1]
            elif isinstance(v, dict) and all(isinstance(a, str) and isinstance(b, str) for a, b in v.items()):
                strmaps[key] = sorted(v.items())
        for k, v in names.items():
            disp[mod + "." + k] = v
    out = ["/- GENERATED by harness/gen_tables.py from /repo's working tree — do not edit. -/", "namespace Gen", ""]
    out.append("def ints : List (String × Int) := [")
    out.append(",\n".join("  (%s, %d)" % (lean_str(k), v) for k, v in sorted(ints.items())))
    out.append("]\n")
    out.append("def strSets : List (String × List String) := [")
    out.append(",\n".join("  (%s, [%s])" % (lean_str(k), ", ".join(lean_str(x) for x in v)) for k, v in sorted(strsets.items())))
    out.append("]\n")
    out.append("def byteConsts : List (String × List Nat) := [")
    out.append(",\n".join("  (%s, [%s])" % (lean_str(k), ", ".join(str(x) for x in v)) for k, v in sorted(byts.items())))
    out.append("]\n")
    out.append("def strConsts : List (String × String) := [")
    out.append(",\n".join("  (%s, %s)" % (lean_str(k), lean_str(v)) for k, v in sorted(strs.items())))
    out.append("]\n")
    out.append("def strMaps : List (String × List (String × String)) := [")
    out.append(",\n".join("  (%s, [%s])" % (lean_str(k), ", ".join("(%s, %s)" % (lean_str(a), lean_str(b)) for a, b in v))
                          for k, v in sorted(strmaps.items())))
    out.append("]\n")
    out.append("def dispatch : List (String × List (String × String)) := [")
    out.append(",\n".join("  (%s, [%s])" % (lean_str(k), ", ".join("(%s, %s)" % (lean_str(a), lean_str(b)) for a, b in v))
                          for k, v in sorted(disp.items())))
    out.append("]\n")
    rp = os.path.join(fa, "_read_py.py")
    try:
        pairs = promotion_pairs_dynamic(repo)
    except Exception:
        try:
            pairs = promotion_pairs(rp)
        except Exception:
            pairs = []
    try:
        pops = promote_ops(rp)
    except Exception:
        pops = []
    out.append("def promotions : List (String × String) := [")
    out.append(",\n".join("  (%s, %s)" % (lean_str(a), lean_str(b)) for a, b in pairs))
    out.append("]\n")
    out.append("def promoteOps : List (String × String × String) := [")
    out.append(",\n".join("  (%s, %s, %s)" % (lean_str(a), lean_str(b), lean_str(c)) for a, b, c in pops))
    out.append("]\n")
    try:
        at = appendable_table(os.path.join(fa, "_write_common.py"))
    except Exception:
        at = []
    out.append("/-- `_is_appendable` tabulated: (seekable(), tell() != 0, name == \"<stdout>\", readable(), outcome) -/")
    out.append("def appendableTable : List (Bool × Bool × Bool × Bool × String) := [")
    out.append(",\n".join("  (%s, %s, %s, %s, %s)" % tuple(["true" if x else "false" for x in row[:4]] + [lean_str(row[4])]) for row in at))
    out.append("]\n")
    try:
        gr = generation_ranges_dynamic(repo)
    except Exception:
        try:
            gr = generation_ranges(repo)
        except Exception:
            gr = []
    out.append("/-- (type, logical type, low, high) of every `random.randint` of `gen_data`; an unevaluable bound is rendered as an empty range -/")
    out.append("def genRanges : List (String × String × Int × Int) := [")
    out.append(",\n".join("  (%s, %s, %d, %d)" % (lean_str(a), lean_str(b), (c if c is not None else 1), (d if d is not None else 0))
                          for a, b, c, d in gr))
    out.append("]\n")
    out.append("end Gen")
    return "\n".join(out) + "\n"


def write(repo, path):
    txt = render(repo)
    os.makedirs(os.path.dirname(path), exist_ok=True)
    old = open(path).read() if os.path.exists(path) else None
    if old != txt:
        open(path, "w").write(txt)
    return txt


if __name__ == "__main__":
    sys.stdout.write(write(sys.argv[1] if len(sys.argv) > 1 else "/repo",
                           os.path.join(os.path.dirname(os.path.dirname(os.path.abspath(__file__))), "lean", "Gen", "Tables.lean")))
