"""The implementation side of the correspondence: every function drives fastavro's *public* API
in-process and returns the same JSON shapes the Lean driver answers with."""
import copy
import io
import sys

from wire import to_wire, exc_class

import fastavro
from fastavro import schemaless_writer, schemaless_reader, parse_schema
from fastavro.schema import to_parsing_canonical_form, fingerprint
from fastavro.validation import validate


class CallTimeout(Exception):
    pass


def _alarm(signum, frame):
    raise CallTimeout()


_WD = {"on": False, "beat": 0, "seen": -1, "period": 30, "call": None}


def heartbeat():
    _WD["beat"] += 1


def _implementation_call(frame):
    """the outermost frame of the implementation on the interrupted stack (the call the harness made), or None"""
    outer = None
    while frame is not None:
        fn = frame.f_code.co_filename.replace("\\", "/")
        if "/fastavro/" in fn:
            outer = frame
        frame = frame.f_back
    return outer


def _in_implementation(frame):
    return _implementation_call(frame) is not None


def _wd_alarm(signum, frame):
    """the check's watchdog: fires every `period` seconds; when the check made no progress (no case counted, no driver
    batch) since the last tick AND the interrupted code is inside the SAME implementation call as at the last tick (the
    frame object of the call is remembered, so it is that very call and not another one the harness happened to be in
    after a slow stretch of its own), the call is aborted with CallTimeout — a call that does not return is a failure of
    that call, reported with its input like any other, instead of a check that hangs.  A call is therefore given
    between one and two periods."""
    call = _implementation_call(frame)
    if call is not None and _WD["beat"] == _WD["seen"] and call is _WD["call"]:
        _WD["seen"], _WD["call"] = -1, None
        raise CallTimeout("the call made no progress for %d s" % _WD["period"])
    _WD["seen"], _WD["call"] = _WD["beat"], call


def watchdog_start(period=30, memory_gb=10):
    import signal
    import threading
    if threading.current_thread() is not threading.main_thread():
        return
    _WD["on"], _WD["period"] = True, period
    signal.signal(signal.SIGALRM, _wd_alarm)
    signal.setitimer(signal.ITIMER_REAL, period, period)
    try:
        # an implementation call that allocates without bound ends in MemoryError (a failure of that call), not in the
        # machine swapping
        import resource
        soft, hard = resource.getrlimit(resource.RLIMIT_AS)
        lim = memory_gb * 1024 ** 3
        if hard == resource.RLIM_INFINITY or lim < hard:
            resource.setrlimit(resource.RLIMIT_AS, (lim, hard))
    except Exception:  # noqa
        pass


def limited(fn, seconds=10):
    """runs one call of the implementation with a time limit (a changed decoder that loses alignment can loop
    over an astronomically large count); returns fn() or raises CallTimeout"""
    import signal
    import threading
    if threading.current_thread() is not threading.main_thread():
        return fn()
    old = signal.signal(signal.SIGALRM, _alarm)
    signal.setitimer(signal.ITIMER_REAL, seconds)
    try:
        return fn()
    finally:
        signal.setitimer(signal.ITIMER_REAL, 0)
        signal.signal(signal.SIGALRM, old)
        if _WD["on"]:
            signal.signal(signal.SIGALRM, _wd_alarm)
            signal.setitimer(signal.ITIMER_REAL, _WD["period"], _WD["period"])


def backend():
    import fastavro._read as r
    return getattr(r, "__file__", "?")


def wopts_kw(o):
    o = o or {}
    return dict(strict=bool(o.get("strict")), strict_allow_default=bool(o.get("sad")),
                disable_tuple_notation=bool(o.get("dtn")))


def ropts_kw(o):
    o = o or {}
    return dict(return_record_name=bool(o.get("rrn")), return_record_name_override=bool(o.get("rrno")),
                return_named_type=bool(o.get("rnt")), return_named_type_override=bool(o.get("rnto")))


def enc(schema, value, opts=None, parsed=False):
    """schemaless_writer -> {"bytes":hex} | {"err":cls,"emitted":hex} | {"perr":cls}"""
    try:
        s = parse_schema(copy.deepcopy(schema))
    except RecursionError:
        return {"perr": "fuel"}
    except Exception as e:  # noqa
        return {"perr": exc_class(e)}
    fo = io.BytesIO()
    try:
        limited(lambda: schemaless_writer(fo, s if parsed else copy.deepcopy(schema), value, **wopts_kw(opts)))
    except CallTimeout:
        return {"err": "timeout", "emitted": ""}
    except RecursionError:
        return {"err": "fuel", "emitted": fo.getvalue().hex()}
    except Exception as e:  # noqa
        return {"err": exc_class(e), "emitted": fo.getvalue().hex()}
    return {"bytes": fo.getvalue().hex()}


def dec(schema, data, ropts=None, parsed=False):
    try:
        s = parse_schema(copy.deepcopy(schema))
    except RecursionError:
        return {"perr": "fuel"}
    except Exception as e:  # noqa
        return {"perr": exc_class(e)}
    fo = io.BytesIO(data)
    try:
        v = limited(lambda: schemaless_reader(fo, s if parsed else copy.deepcopy(schema), **ropts_kw(ropts)))
    except CallTimeout:
        return {"err": "timeout"}
    except MemoryError:
        return {"err": "memory"}
    except RecursionError:
        return {"err": "fuel"}
    except Exception as e:  # noqa
        return {"err": exc_class(e)}
    return {"ok": to_wire(v), "rest": len(data) - fo.tell()}


def parse(schema, named=None):
    try:
        ns = {}
        for p in (named or []):
            parse_schema(copy.deepcopy(p), ns)
        s = parse_schema(copy.deepcopy(schema), ns)
        return {"ok": {"canon": to_parsing_canonical_form(s), "names": list(ns.keys())}}
    except RecursionError:
        return {"err": "fuel"}
    except Exception as e:  # noqa
        return {"err": exc_class(e)}


def val(schema, value, raise_errors=False, strict=False, dtn=False):
    try:
        s = parse_schema(copy.deepcopy(schema))
    except RecursionError:
        return {"perr": "fuel"}
    except Exception as e:  # noqa
        return {"perr": exc_class(e)}
    try:
        r = validate(value, s, raise_errors=raise_errors, strict=strict, disable_tuple_notation=dtn)
        return {"ok": bool(r)}
    except RecursionError:
        return {"err": "fuel"}
    except Exception as e:  # noqa
        return {"err": exc_class(e)}
