"""C05 — container layout interoperates both ways with an independent implementation; is_avro;
block_reader tiles the file (DESIGN §5 C05)."""
import glob
import io
import itertools
import json
import os
import random

import fastavro

from core import Run, REPO
from driver import run_batch
from wire import to_wire, canon, exc_class
from props.common import scale, depth_of
from props.container_common import CODECS, spec_parse, spec_write, decomp_table, ParseError, records_schema_cases
from props.c04 import build_cases, write_impl, resolve_interval

THEOREMS = ["c05_writer_layout", "c05_reader_accepts", "c05_tiling", "c05_is_avro"]
TARGETS = ["Properties.TablesContainer", "Properties.C05"]


def tiling_ok(data, header_len, blocks, nrecords):
    """blocks: list of (offset, size, num_records)"""
    pos = header_len
    for off, size, n in blocks:
        if off != pos or size <= 0:
            return "block at %d, expected %d" % (off, pos)
        pos += size
    if pos != len(data):
        return "blocks end at %d, file has %d bytes" % (pos, len(data))
    if nrecords is not None and sum(n for _, _, n in blocks) != nrecords:
        return "record counts sum to %d, file has %d records" % (sum(n for _, _, n in blocks), nrecords)
    return None


def run(tier, seed):
    run = Run("C05", tier, seed)
    run.rule = ("(i) files written by fastavro (C04 generator) parsed by an independent layout parser; (ii) files from an "
                "independent writer (random block partition incl. empty blocks, metadata map in 1-4 chunks with positive or "
                "negative counts, codec key present/absent, every codec) read by reader and block_reader, tiling checked; "
                "(iii) the .avro fixtures shipped with the test-suite; (iv) is_avro on all strings of length <= 5 over a "
                "6-byte alphabet + random ones; non-trivial = file with >= 2 blocks or a chunked header")
    run.lean(TARGETS, THEOREMS)
    rnd = random.Random(seed * 5077 + 5)
    # ---------------- (i) + tiling of fastavro's own files
    cases = build_cases(seed + 55, scale(tier, 120))
    for c in cases:
        try:
            sizes = []
            ps = fastavro.parse_schema(json.loads(json.dumps(c["schema"])))
            for r in c["records"]:
                b = io.BytesIO()
                fastavro.schemaless_writer(b, ps, r)
                sizes.append(len(b.getvalue()))
            c["ivl"] = resolve_interval(c, sizes)
            data, _ = write_impl(c, c["ivl"])
        except Exception:
            continue
        case = {"schema": c["schema"], "n_records": len(c["records"]), "codec": c["codec"], "interval": c["ivl"]}
        try:
            parsed = spec_parse(data)
            for b in parsed["blocks"]:
                CODECS[c["codec"]][1](b["comp"])
        except Exception as e:  # noqa
            run.count(case, True, ["own-file"])
            run.fail(case, "independent parser cannot recover the blocks of a fastavro-written file: %r" % (e,), kind="oracle")
            continue
        run.count(case, len(parsed["blocks"]) >= 2, ["own-file", "codec:" + c["codec"]])
        run.cov["traces_validated_against_impl"] += 1
        if sum(b["count"] for b in parsed["blocks"]) != len(c["records"]):
            run.fail(case, "block record counts do not sum to the number of records written", kind="oracle")
            continue
        # the records are recoverable from the file alone: the schema and codec the HEADER announces, the block payloads
        try:
            hmeta = dict(parsed["meta"])
            hschema = fastavro.parse_schema(json.loads(hmeta["avro.schema"].decode()))
            hcodec = hmeta.get("avro.codec", b"null").decode()
            recovered = []
            for b in parsed["blocks"]:
                bio = io.BytesIO(CODECS[hcodec][1](b["comp"]))
                for _ in range(b["count"]):
                    recovered.append(canon(to_wire(fastavro.schemaless_reader(bio, hschema))))
                if bio.read(1) != b"":
                    raise ValueError("block payload longer than its records")
            want = []
            for r in c["records"]:
                bo = io.BytesIO()
                fastavro.schemaless_writer(bo, ps, r)
                want.append(canon(to_wire(fastavro.schemaless_reader(io.BytesIO(bo.getvalue()), ps))))
            if recovered != want:
                raise ValueError("records decoded with the header's schema differ from the records written")
        except Exception as e:  # noqa
            run.fail(dict(case, meta=c.get("meta")), "the records cannot be recovered from the file alone (header schema + codec + blocks): %r" % (e,), kind="oracle")
            continue
        blks = [(b.offset, b.size, b.num_records) for b in fastavro.block_reader(io.BytesIO(data))]
        t = tiling_ok(data, parsed["header_len"], blks, len(c["records"]))
        if t:
            case["blocks"] = blks
            run.fail(case, "block_reader does not tile the file: " + t, kind="oracle")
    # ---------------- (i-a2) one schema OBJECT, edited in place between two files (the next version of the schema): the header
    # of the second file must announce the schema its blocks were written with
    for c in cases[:scale(tier, 80)]:
        s0 = c["schema"]
        if not (isinstance(s0, dict) and s0.get("type") == "record" and c["records"]):
            continue
        S = json.loads(json.dumps(s0))
        edit = rnd.choice(["append-field", "append-field", "prepend-field", "drop-doc"])
        case = {"schema": s0, "n_records": len(c["records"]), "codec": c["codec"], "edit": edit, "tags": ["same-object-edited"]}
        try:
            f1 = io.BytesIO()
            fastavro.writer(f1, S, c["records"], codec=c["codec"])
            if edit == "append-field":
                S["fields"].append({"name": "zz_version", "type": "long", "default": 7})
            elif edit == "prepend-field":
                S["fields"].insert(0, {"name": "zz_tag", "type": "string", "default": "t"})
            else:
                S["doc"] = "second version"
            S2 = json.loads(json.dumps(S))
            f2 = io.BytesIO()
            fastavro.writer(f2, S, c["records"], codec=c["codec"])
            want = io.BytesIO()
            fastavro.writer(want, S2, c["records"], codec=c["codec"], sync_marker=spec_parse(f2.getvalue())["sync"])
        except Exception:
            continue
        run.count(case, True, ["own-file:same-object-edited"])
        p2, pw = spec_parse(f2.getvalue()), spec_parse(want.getvalue())
        h2 = json.loads(dict(p2["meta"])["avro.schema"].decode())
        hw = json.loads(dict(pw["meta"])["avro.schema"].decode())
        if h2 != hw:
            case["header_schema"], case["expected_header_schema"] = h2, hw
            run.fail(case, "the header of a file written with a schema object that was edited in place after an earlier file "
                           "announces another schema than a fresh copy of the edited schema gives", kind="oracle")
        elif [b["comp"] for b in p2["blocks"]] != [b["comp"] for b in pw["blocks"]]:
            run.fail(case, "the blocks of a file written with an edited schema object differ from those written with a fresh copy", kind="oracle")
    # ---------------- (i-a3) the incremental Writer with data it refuses — in particular right after a block went out: every
    # block still holds exactly its announced number of records
    from props.c04 import spoil
    from fastavro.write import Writer as _Writer
    for c in cases[:scale(tier, 80)]:
        s0 = c["schema"]
        if not (isinstance(s0, dict) and s0.get("type") in ("record", "array") and c["records"]):
            continue
        ps = fastavro.parse_schema(json.loads(json.dumps(s0)))
        fo = io.BytesIO()
        w = _Writer(fo, ps, codec=c["codec"], sync_interval=rnd.choice([0, 1, 40, 16000]), sync_marker=bytes(range(16)))
        accepted, plan = [], []
        usable = True
        for rec in c["records"][:6]:
            try:
                fastavro.schemaless_writer(io.BytesIO(), ps, rec)
            except Exception:  # noqa  (a datum of the generator that is not a conforming one)
                usable = False
                break
            w.write(rec)
            accepted.append(rec)
            plan.append("good")
            if rnd.random() < 0.6:
                w.flush()
                plan.append("flush")
            bad = spoil(rec, s0) if rnd.random() < 0.8 else None
            if bad is not None:
                try:
                    fastavro.schemaless_writer(io.BytesIO(), ps, bad)
                    bad = None
                except Exception:  # noqa
                    pass
            if bad is not None:
                try:
                    w.write(bad)
                    usable = False          # (accepted after all: not a refusal scenario)
                except Exception:  # noqa
                    plan.append("refused")
        if not usable:
            continue
        w.flush()
        data = fo.getvalue()
        case = {"schema": s0, "codec": c["codec"], "plan": plan, "tags": ["incremental-with-refusals"]}
        run.count(case, True, ["own-file:incremental-with-refusals"])
        try:
            parsed = spec_parse(data)
            recovered = []
            for b in parsed["blocks"]:
                bio = io.BytesIO(CODECS[c["codec"]][1](b["comp"]))
                for _ in range(b["count"]):
                    recovered.append(canon(to_wire(fastavro.schemaless_reader(bio, ps))))
                if bio.read(1) != b"":
                    raise ValueError("block at %d: payload longer than its %d records" % (b["offset"], b["count"]))
            want = []
            for r_ in accepted:
                bo = io.BytesIO()
                fastavro.schemaless_writer(bo, ps, r_)
                want.append(canon(to_wire(fastavro.schemaless_reader(io.BytesIO(bo.getvalue()), ps))))
            if recovered != want:
                raise ValueError("the blocks hold %d records, %d were accepted (or they differ)" % (len(recovered), len(want)))
        except Exception as e:  # noqa
            run.fail(case, "a file written record by record, some data refused, does not have the prescribed layout: %r" % (e,), kind="oracle")
    # ---------------- (i-a4) one block reader, repositioned to other block boundaries (what the offsets are for): every block it
    # then yields reports where it was actually read
    for c in cases[:scale(tier, 60)]:
        if len(c["records"]) < 3:
            continue
        try:
            ps = fastavro.parse_schema(json.loads(json.dumps(c["schema"])))
            fo = io.BytesIO()
            fastavro.writer(fo, ps, c["records"], codec=c["codec"], sync_interval=1)
            data = fo.getvalue()
            parsed = spec_parse(data)
        except Exception:
            continue
        blocks = parsed["blocks"]
        if len(blocks) < 3:
            continue
        st = io.BytesIO(data)
        br = fastavro.block_reader(st)
        case = {"schema": c["schema"], "codec": c["codec"], "n_blocks": len(blocks), "tags": ["block-reader-repositioned"]}
        run.count(case, True, ["block-reader-repositioned"])
        try:
            first = next(br)
            seen = [(first.offset, first.size, first.num_records)]
            for j in [len(blocks) - 1, 1, 1, 0, 2]:
                st.seek(blocks[j]["offset"])
                b = next(br)
                seen.append((b.offset, b.size, b.num_records))
                if (b.offset, b.size, b.num_records) != (blocks[j]["offset"], blocks[j]["size"], blocks[j]["count"]):
                    case["got"], case["expected"] = seen, [(x["offset"], x["size"], x["count"]) for x in blocks]
                    run.fail(case, "a block reader repositioned to the start of block %d reports another offset / size for it" % j, kind="oracle")
                    break
        except Exception as e:  # noqa
            run.fail(dict(case, error=repr(e)[:200]), "a block reader repositioned to a block boundary raised %s" % exc_class(e), kind="oracle")
    # ---------------- (i-b) a file that was appended to must still have the prescribed layout
    for c in cases[:scale(tier, 60)]:
        if not c["records"]:
            continue
        try:
            fo = io.BytesIO()
            ps = fastavro.parse_schema(json.loads(json.dumps(c["schema"])))
            fastavro.writer(fo, ps, c["records"], codec=c["codec"], sync_interval=c.get("ivl", 100))
            kw = rnd.choice([{}, {"codec": rnd.choice(list(CODECS))}, {"sync_marker": b"\x07" * 16}])
            fastavro.writer(fo, rnd.choice([None, ps]), c["records"][:2], **kw)
            data = fo.getvalue()
        except Exception:
            continue
        case = {"schema": c["schema"], "codec": c["codec"], "append_args": {k: (v if isinstance(v, str) else "bytes") for k, v in kw.items()},
                "n_records": len(c["records"]), "tags": ["append"]}
        run.count(case, True, ["own-file-appended"])
        try:
            parsed = spec_parse(data)
            hc = dict(parsed["meta"]).get("avro.codec", b"null").decode()
            n = 0
            for b in parsed["blocks"]:
                CODECS[hc][1](b["comp"])
                n += b["count"]
            if hc != c["codec"]:
                raise ValueError("header codec %r, file was created with %r" % (hc, c["codec"]))
            if n != len(c["records"]) + len(c["records"][:2]):
                raise ValueError("record counts sum to %d" % n)
        except Exception as e:  # noqa
            run.fail(case, "appended file no longer has the prescribed layout for an independent parser: %r" % (e,), kind="oracle")
    # ---------------- (ii) independent writer -> fastavro
    reqs, metas = [], []
    # corpus witness of F16: a user metadata value that is not UTF-8
    wdata = spec_write([("avro.schema", b'"long"'), ("user.bin", bytes([0xFF, 0xFE, 0x00]))], b"\x05" * 16, [(1, b"\x02")], "null")
    try:
        list(fastavro.reader(io.BytesIO(wdata)))
        run.notes.append("known finding F16 no longer reproduces on its stored witness")
    except Exception as e:  # noqa
        run.fail({"file_hex": wdata.hex(), "tags": ["binary-metadata", "corpus"]},
                 "reader rejects a layout-valid file of an independent writer: %r" % (e,), kind="oracle")
    for (s, recs, g) in records_schema_cases(seed + 99, scale(tier, 150), hints=False):
        try:
            ps = fastavro.parse_schema(json.loads(json.dumps(s)))
            enc, nfs = [], []
            for r in recs:
                b = io.BytesIO()
                fastavro.schemaless_writer(b, ps, r)
                enc.append(b.getvalue())
                nfs.append(fastavro.schemaless_reader(io.BytesIO(b.getvalue()), ps))
        except Exception:
            continue
        codec = rnd.choice(list(CODECS))
        groups, i = [], 0
        while i < len(enc):
            k = rnd.randint(1, 5)
            groups.append((len(enc[i:i + k]), b"".join(enc[i:i + k])))
            i += k
            if rnd.random() < 0.25:
                groups.append((0, b""))
        if rnd.random() < 0.2:
            groups.insert(0, (0, b""))
        meta = [("avro.schema", json.dumps(s).encode())]
        if codec != "null" or rnd.random() < 0.5:
            meta.append(("avro.codec", codec.encode()))
        for j in range(rnd.randint(0, 3)):
            meta.insert(rnd.randint(0, len(meta)), ("user%d" % j, rnd.choice([b"", b"v", "é".encode()])))
        binary_meta = rnd.random() < 0.06 or len(metas) == 0 and not reqs and False
        if binary_meta:
            meta.append(("user.bin", bytes([0xFF, 0xFE, 0x00])))
        nchunks = rnd.randint(1, min(4, len(meta)))
        cuts = sorted(rnd.sample(range(1, len(meta)), nchunks - 1)) if nchunks > 1 else []
        chunks = [b - a for a, b in zip([0] + cuts, cuts + [len(meta)])]
        sync = bytes(rnd.getrandbits(8) for _ in range(16))
        data = spec_write(meta, sync, groups, codec, rnd, header_chunks=chunks)
        case = {"schema": s, "n_records": len(recs), "codec": codec, "codec_key_present": any(k == "avro.codec" for k, _ in meta),
                "tags": ["binary-metadata"] if binary_meta else [],
                "header_chunks": chunks, "blocks": [n for n, _ in groups], "file_hex": data.hex() if len(data) < 600 else None}
        run.count(case, len(groups) >= 2 or len(chunks) >= 2, ["foreign-file", "codec:" + codec, "chunks:%d" % len(chunks)])
        run.cov["traces_validated_against_impl"] += 1
        why = None
        try:
            got = list(fastavro.reader(io.BytesIO(data)))
            if [canon(to_wire(x)) for x in got] != [canon(to_wire(x)) for x in nfs]:
                why = "reader returns other records for a layout-valid file of an independent writer"
        except Exception as e:  # noqa
            why = "reader rejects a layout-valid file of an independent writer: %r" % (e,)
        if not why:
            try:
                blocks = list(fastavro.block_reader(io.BytesIO(data)))
                got2 = [x for b in blocks for x in b]
                if [canon(to_wire(x)) for x in got2] != [canon(to_wire(x)) for x in nfs]:
                    why = "block_reader returns other records"
                else:
                    hl = spec_parse(data)["header_len"]
                    why = tiling_ok(data, hl, [(b.offset, b.size, b.num_records) for b in blocks], len(recs))
                    if why:
                        why = "block_reader does not tile the file: " + why
            except Exception as e:  # noqa
                why = "block_reader rejects a layout-valid file: %r" % (e,)
        if why:
            run.fail(case, why, kind="oracle")
            continue
        if binary_meta:
            run.notes.append("known finding F16 no longer reproduces (binary metadata accepted)") if "F16" not in run.known_hits and len(run.notes) < 1 else None
        # correspondence: the model's reader on the same bytes
        tab = decomp_table(spec_parse(data), codec)
        reqs.append({"op": "container.read", "schema": to_wire(s), "bytes": data.hex(), "decomp": tab, "codecs": list(CODECS)})
        metas.append((case, nfs))
    for (case, nfs), mo in zip(metas, run_batch(reqs)):
        ok = mo.get("end") == "eof" and [canon(x) for x in mo.get("records", [])] == [canon(to_wire(x)) for x in nfs]
        if not ok:
            case["model"] = {"end": mo.get("end"), "n": len(mo.get("records", []))}
            run.fail(case, "correspondence: the model's reader disagrees on a layout-valid file", kind="correspondence")
    # ---------------- (iii) shipped fixtures
    for p in sorted(glob.glob(os.path.join(REPO, "tests", "avro-files", "*.avro"))):
        data = open(p, "rb").read()
        try:
            parsed = spec_parse(data)
            codec = dict(parsed["meta"]).get("avro.codec", b"null").decode()
        except Exception:
            continue
        if codec not in CODECS:
            run.tag("fixture-skipped-codec:" + codec)
            continue
        case = {"fixture": os.path.basename(p), "codec": codec, "blocks": len(parsed["blocks"])}
        run.count(case, len(parsed["blocks"]) >= 2, ["fixture"])
        try:
            blocks = list(fastavro.block_reader(io.BytesIO(data)))
            n = sum(1 for _ in fastavro.reader(io.BytesIO(data)))
            t = tiling_ok(data, parsed["header_len"], [(b.offset, b.size, b.num_records) for b in blocks], n)
            if not t and [(b.offset, b.size, b.num_records) for b in blocks] != [(b["offset"], b["size"], b["count"]) for b in parsed["blocks"]]:
                t = "block_reader and the independent parser disagree on the blocks"
        except Exception as e:  # noqa
            t = "fixture not readable: %r" % (e,)
        if t:
            run.fail(case, t, kind="oracle")
    # ---------------- (iv) is_avro
    alphabet = [0x4F, 0x62, 0x6A, 0x01, 0x00, 0x41]
    strings = [bytes(t) for n in range(0, 6) for t in itertools.product(alphabet, repeat=n)]
    strings += [bytes(rnd.getrandbits(8) for _ in range(rnd.randint(0, 12))) for _ in range(500)]
    strings += [b"Obj\x01" + bytes(rnd.getrandbits(8) for _ in range(rnd.randint(0, 12))) for _ in range(200)]
    bad = 0
    for b in strings:
        exp = b[:4] == b"Obj\x01"
        try:
            got = fastavro.is_avro(io.BytesIO(b))
        except Exception as e:  # noqa
            got = repr(e)
        run.cov["evaluations"] += 1
        if got is not exp and got != exp:
            bad += 1
            if bad <= 3:
                run.fail({"bytes": b.hex(), "is_avro": got, "expected": exp, "tags": ["is_avro"]},
                         "is_avro does not answer 'begins with the four magic bytes'", kind="oracle")
    run.tag("is_avro", len(strings))
    # is_avro on buffered io streams: a source whose first delivery is shorter than the magic; a stream whose buffer
    # holds only 1-3 bytes at the point where the data begins (preamble already read); a path on disk
    from props.streams import RawForward
    import tempfile
    for i, b in enumerate(rnd.sample(strings, min(len(strings), scale(tier, 150)))):
        exp = b[:4] == b"Obj\x01"
        trials = []
        for chunk in (1, 2, 3):
            trials.append(("buffered/short-delivery-%d" % chunk, lambda chunk=chunk: io.BufferedReader(RawForward(b, chunk=chunk))))
        for bufsize, pre in ((8, 5), (8, 6), (8, 7), (16, 13)):
            def mk(bufsize=bufsize, pre=pre):
                st = io.BufferedReader(RawForward(b"P" * pre + b), buffer_size=bufsize)
                st.read(pre)
                return st
            trials.append(("buffered/after-preamble-%d-of-%d" % (pre, bufsize), mk))
        if i % 10 == 0:
            def mkpath():
                d = tempfile.mkdtemp(prefix="verif_c05_")
                p = os.path.join(d, "x.avro")
                with open(p, "wb") as fo:
                    fo.write(b)
                return (d, p)
            trials.append(("path", mkpath))
        for kind, mk in trials:
            st = mk()
            try:
                got = fastavro.is_avro(st[1] if kind == "path" else st)
            except Exception as e:  # noqa
                got = repr(e)
            finally:
                if kind == "path":
                    os.remove(st[1])
                    os.rmdir(st[0])
            run.cov["evaluations"] += 1
            run.tag("is_avro:" + kind.split("-")[0])
            if got is not exp:
                run.fail({"bytes": b.hex(), "is_avro": got, "expected": exp, "stream": kind, "tags": ["is_avro", "stream"]},
                         "is_avro does not answer 'begins with the four magic bytes'", kind="oracle")
                break
    return run.finish()
