"""C04 — container files are self-describing and round-trip under every codec / block size / stream
kind (DESIGN §5 C04)."""
import io
import json
import os
import random
import tempfile

import fastavro
from fastavro.schema import to_parsing_canonical_form

import impl
from core import Run, MachineryError
from driver import run_batch
from wire import to_wire, from_wire, canon, exc_class
from props.common import scale, depth_of, schema_tags, same
from props.container_common import (CODECS, spec_parse, spec_write, decomp_table, expected_meta, render, WriteOnly,
                                     ReadOnly, records_schema_cases, ParseError)

THEOREMS = ["c04_roundtrip", "c04_partition_independent", "c04_header_roundtrip"]
TARGETS = ["Properties.TablesContainer", "Properties.C04"]


def build_cases(seed, n):
    rnd = random.Random(seed * 4099 + 4)
    cases = []
    for (s, recs, g) in records_schema_cases(seed, n):
        codec = rnd.choice(["null", "null", "deflate", "bzip2", "xz"])
        level = rnd.choice([None, None, 1, 9]) if codec == "deflate" else rnd.choice([None, None, None, -1, 0, 2, 3, 9])
        meta = rnd.choice([None, {}, {"k": "v"}, {"owner": "é", "x": ""}, {"a": "1", "b": "2", "c": "3"},
                           # metadata carried over from another file: its schema / codec entries must not win
                           {"avro.schema": json.dumps({"type": "record", "name": "Stale", "fields": [{"name": "zz", "type": "string"}]}), "k": "v"},
                           {"avro.codec": "snappy", "avro.schema": "\"string\""}])
        sync = rnd.choice([b"", bytes(range(16)), bytes([rnd.getrandbits(8) for _ in range(16)])])
        kind = rnd.choice(["bytesio", "bytesio", "file", "writeonly", "incremental", "one-shot-iterable", "one-shot-iterable-validated"])
        parsed = rnd.random() < 0.5
        interval = rnd.choice([1, 2, 7, 16, 100, 16000, "fill1", "fill2", "fill1-1", "beyond"])
        cases.append(dict(schema=s, records=recs, codec=codec, level=level, meta=meta, sync=sync, kind=kind,
                          parsed=parsed, interval=interval))
    return cases


def resolve_interval(c, sizes):
    iv = c["interval"]
    if isinstance(iv, int):
        return iv
    tot = sum(sizes)
    if iv == "beyond":
        return tot + 10
    if iv == "fill1":
        return max(1, sizes[0]) if sizes else 5
    if iv == "fill1-1":
        return max(1, (sizes[0] if sizes else 5) - 1)
    if iv == "fill2":
        return max(1, sum(sizes[:2])) if sizes else 5
    return 16000


class _Bad:
    """conforms to no schema"""


def spoil(rec, s):
    """a datum that is rejected only AFTER part of it has been encoded: `rec` with its last field / item replaced"""
    if isinstance(s, dict) and s.get("type") == "record" and isinstance(rec, dict) and len(s["fields"]) >= 2:
        return dict(rec, **{s["fields"][-1]["name"]: _Bad()})
    if isinstance(s, dict) and s.get("type") == "array" and isinstance(rec, list) and rec:
        return list(rec) + [_Bad()]
    return None


def write_impl(c, interval):
    s = c["schema"]
    ps = fastavro.parse_schema(json.loads(json.dumps(s))) if c["parsed"] else json.loads(json.dumps(s))
    kw = dict(codec=c["codec"], sync_interval=interval, sync_marker=c["sync"])
    if c["meta"] is not None:
        kw["metadata"] = dict(c["meta"])
    if c["level"] is not None:
        kw["codec_compression_level"] = c["level"]
    calls = None
    if c["kind"] == "bytesio":
        fo = io.BytesIO()
        fastavro.writer(fo, ps, c["records"], **kw)
        data = fo.getvalue()
    elif c["kind"] == "incremental":
        # the incremental API, the caller skipping data the writer refuses: the file holds the accepted records only
        from fastavro.write import Writer
        fo = io.BytesIO()
        kw2 = dict(kw)
        if "codec_compression_level" in kw2:
            kw2["compression_level"] = kw2.pop("codec_compression_level")
        w = Writer(fo, ps, **kw2)
        rr = random.Random(len(c["records"]) * 31 + interval)
        for rec in c["records"]:
            bad = spoil(rec, s) if rr.random() < 0.5 else None
            if bad is not None:
                # only data the schemaless writer refuses too (a "null" field takes any value, for one)
                try:
                    fastavro.schemaless_writer(io.BytesIO(), ps, bad)
                    bad = None
                except Exception:  # noqa
                    pass
            if bad is not None:
                try:
                    w.write(bad)
                except Exception:  # noqa
                    pass
                else:
                    raise MachineryError("Writer.write accepted a datum that schemaless_writer refuses")
            w.write(rec)
        w.flush()
        data = fo.getvalue()
    elif c["kind"].startswith("one-shot-iterable"):
        # the records come from a generator / iterator / map object that can be walked once; with and without validator=True
        fo = io.BytesIO()
        src = random.Random(len(c["records"])).choice([lambda xs: (x for x in xs), iter, lambda xs: map(lambda x: x, xs)])(list(c["records"]))
        fastavro.writer(fo, ps, src, validator=c["kind"].endswith("validated"), **kw)
        data = fo.getvalue()
    elif c["kind"] == "writeonly":
        fo = WriteOnly()
        fastavro.writer(fo, ps, c["records"], **kw)
        data = bytes(fo.buf)
        calls = fo.calls
    else:
        d = tempfile.mkdtemp(prefix="verif_c04_")
        p = os.path.join(d, "f.avro")
        try:
            with open(p, "wb") as fo:
                fastavro.writer(fo, ps, c["records"], **kw)
            data = open(p, "rb").read()
        finally:
            try:
                os.remove(p)
            except OSError:
                pass
            os.rmdir(d)
    return data, calls


def run(tier, seed):
    run = Run("C04", tier, seed)
    run.rule = ("schemas of every top-level kind x record lists (empty, one, many, zero-byte records) x codec "
                "{null,deflate,bzip2,xz} x sync_interval (1 .. beyond total, exact-fill values) x level x metadata x "
                "raw/parsed schema x stream kind (BytesIO, real file, write-only non-seekable output, incremental Writer with refused data in between, read-only sequential "
                "input); non-trivial = at least one record and depth >= 2 or >= 2 blocks")
    run.lean(TARGETS, THEOREMS)
    cases = build_cases(seed, scale(tier, 260))
    # per-record encodings and normal forms from the model / specification
    reqs, idx = [], []
    for ci, c in enumerate(cases):
        ws = to_wire(c["schema"])
        for r in c["records"]:
            reqs.append({"op": "enc", "schema": ws, "value": to_wire(r)})
            idx.append(ci)
    encs = run_batch(reqs)
    norms = run_batch([dict(r, op="normalize") for r in reqs])
    per = {}
    for k, ci in enumerate(idx):
        per.setdefault(ci, []).append((encs[k], norms[k]))
    mreqs, keep = [], []
    for ci, c in enumerate(cases):
        pr = per.get(ci, [])
        if any("bytes" not in e or "ok" not in nf for e, nf in pr):
            continue    # a record the model does not encode (outside the guard): skip the case
        sizes = [len(e["bytes"]) // 2 for e, nf in pr]
        c["ivl"] = resolve_interval(c, sizes)
        c["nfs"] = [nf["ok"] for e, nf in pr]
        c["recbytes"] = [bytes.fromhex(e["bytes"]) for e, nf in pr]
        keep.append(ci)
    for ci in keep:
        c = cases[ci]
        try:
            data, calls = write_impl(c, c["ivl"])
        except Exception as e:  # noqa
            run.count({"schema": c["schema"]}, False, ["impl-write-raised"])
            run.fail({"schema": c["schema"], "records": [to_wire(r) for r in c["records"]], "codec": c["codec"],
                      "interval": c["ivl"], "kind": c["kind"]}, "writer raised on conforming records: %r" % (e,), kind="oracle")
            continue
        c["data"], c["calls"] = data, calls
    keep = [ci for ci in keep if "data" in cases[ci]]
    # the model's prediction of the file
    for ci in keep:
        c = cases[ci]
        try:
            parsed = spec_parse(c["data"])
        except ParseError as e:
            parsed = None
            c["parse_error"] = str(e)
        c["parsed_file"] = parsed
        sync = parsed["sync"] if parsed else (c["sync"] or b"\x00" * 16)
        c["sync_used"] = sync
        schema_text = dict(parsed["meta"]).get("avro.schema", b"").decode() if parsed else ""
        meta = expected_meta(c["meta"], schema_text, c["codec"])
        mreqs.append({"op": "container.run", "schema": to_wire(c["schema"]), "sync": sync.hex(), "interval": c["ivl"],
                      "validator": False, "meta": [[k.encode().hex(), v.hex()] for k, v in meta],
                      "ops": [{"w": to_wire(r)} for r in c["records"]] + [{"f": 1}]})
    mouts = run_batch(mreqs)
    for ci, mo in zip(keep, mouts):
        c = cases[ci]
        s = c["schema"]
        case = {"schema": s, "records": [to_wire(r) for r in c["records"]][:6], "n_records": len(c["records"]),
                "codec": c["codec"], "level": c["level"], "interval": c["ivl"], "meta": c["meta"], "kind": c["kind"],
                "parsed_schema": c["parsed"], "sync_given": c["sync"].hex()}
        parsed = c["parsed_file"]
        nblocks = len(parsed["blocks"]) if parsed else 0
        run.count(case, len(c["records"]) > 0 and (depth_of(s) >= 2 or nblocks >= 2),
                  ["codec:" + c["codec"], "kind:" + c["kind"], "blocks:%s" % min(nblocks, 3),
                   "interval:%s" % c["interval"]])
        run.cov["traces_validated_against_impl"] += 1
        # --- layout readable by the independent parser (also the C05 clause)
        if parsed is None:
            run.fail(case, "independent parser cannot parse the written file: %s" % c["parse_error"], kind="oracle")
            continue
        meta = dict(parsed["meta"])
        why = None
        if c["sync"] and parsed["sync"] != c["sync"]:
            why = "sync marker in the file differs from the one supplied"
        elif meta.get("avro.codec", b"null").decode() != c["codec"]:
            why = "header names codec %r, supplied %r" % (meta.get("avro.codec"), c["codec"])
        elif any(meta.get(k) != v.encode() for k, v in (c["meta"] or {}).items() if k not in ("avro.schema", "avro.codec")):
            why = "user metadata not found unchanged in the header"
        else:
            try:
                hs = json.loads(meta["avro.schema"].decode())
                if to_parsing_canonical_form(hs) != to_parsing_canonical_form(json.loads(json.dumps(s))):
                    why = "schema in the header has another canonical form"
            except Exception as e:  # noqa
                why = "schema in the header is not usable: %r" % (e,)
        # --- read back with nothing but the file
        if not why:
            try:
                rd = fastavro.reader(io.BytesIO(c["data"]))
                got = [to_wire(x) for x in rd]
                if [canon(x) for x in got] != [canon(x) for x in c["nfs"]]:
                    why = "records read back differ from the records written (normal forms)"
                    case["read_back"] = got[:4]
                elif rd.codec != c["codec"]:
                    why = "reader reports codec %r" % rd.codec
                elif any(rd.metadata.get(k) != v for k, v in (c["meta"] or {}).items() if k not in ("avro.schema", "avro.codec")):
                    why = "reader does not report the supplied metadata"
                elif to_parsing_canonical_form(rd.writer_schema) != to_parsing_canonical_form(json.loads(json.dumps(s))):
                    why = "reader reports a schema with another canonical form"
            except Exception as e:  # noqa
                why = "reading the written file raised %r" % (e,)
        # --- the schema object a reader handed out belongs to the caller: edited in place (the usual way to derive the
        # next version of a schema), it must not show up in a later, independent read of the same bytes
        if not why and isinstance(rd.writer_schema, dict) and rd.writer_schema.get("type") == "record":
            try:
                ws = rd.writer_schema
                ws["fields"].append({"name": "zz_added_later", "type": "string", "default": "d"})
                ws["doc"] = "edited"
                rd3 = fastavro.reader(io.BytesIO(c["data"]))
                got3 = [to_wire(x) for x in rd3]
                if [canon(x) for x in got3] != [canon(x) for x in c["nfs"]]:
                    why = "records read back differ after the schema object returned by an earlier reader of the same bytes was edited"
                elif to_parsing_canonical_form(rd3.writer_schema) != to_parsing_canonical_form(json.loads(json.dumps(s))):
                    why = "a second reader of the same bytes reports the schema as edited by the caller of the first"
            except Exception as e:  # noqa
                why = "reading the same bytes again after editing the first reader's schema object raised %r" % (e,)
        # --- sequential read-only input
        if not why:
            ro = ReadOnly(c["data"])
            try:
                got2 = [to_wire(x) for x in fastavro.reader(ro)]
                if [canon(x) for x in got2] != [canon(x) for x in c["nfs"]]:
                    why = "records differ when read from a read-only sequential stream"
            except Exception as e:  # noqa
                why = "reading needs more than sequential read(): %r; calls=%s" % (e, sorted(set(ro.calls)))
        if not why and c["calls"] is not None and not set(c["calls"]) <= {"seekable", "write", "flush"}:
            why = "writing used stream methods other than write/flush on a non-seekable output: %s" % sorted(set(c["calls"]))
        # --- records do not depend on the grouping into blocks: regroup and read again
        if not why and c["recbytes"]:
            rnd = random.Random(ci)
            groups, i = [], 0
            while i < len(c["recbytes"]):
                k = rnd.randint(1, 4)
                groups.append((len(c["recbytes"][i:i + k]), b"".join(c["recbytes"][i:i + k])))
                i += k
                if rnd.random() < 0.2:
                    groups.append((0, b""))
            alt = spec_write(parsed["meta"], parsed["sync"], groups, c["codec"], rnd,
                             header_chunks=[1, len(parsed["meta"]) - 1] if len(parsed["meta"]) > 1 else None)
            try:
                got3 = [to_wire(x) for x in fastavro.reader(io.BytesIO(alt))]
                if [canon(x) for x in got3] != [canon(x) for x in c["nfs"]]:
                    why = "records depend on how they are grouped into blocks"
            except Exception as e:  # noqa
                why = "regrouped (layout-valid) file not readable: %r" % (e,)
        if why:
            run.fail(case, why, kind="oracle")
            continue
        # --- correspondence with the model's prediction of the bytes
        if mo.get("herr") or any(e is not None for e in mo.get("errs", [])):
            case["model"] = {k: mo.get(k) for k in ("herr", "errs")}
            run.fail(case, "correspondence: the model's writer raised", kind="correspondence")
            continue
        exp = render(mo, c["codec"], parsed["sync"], c["level"])
        if exp != c["data"]:
            # block boundaries are not a property-level observable: compare header + record stream
            hdr_ok = c["data"][:parsed["header_len"]] == bytes.fromhex(mo["header"])
            d = CODECS[c["codec"]][1]
            payload = b"".join(d(b["comp"]) for b in parsed["blocks"])
            mpayload = b"".join(bytes.fromhex(p) for _, p in mo["blocks"])
            if not hdr_ok or payload != mpayload or sum(b["count"] for b in parsed["blocks"]) != sum(n for n, _ in mo["blocks"]):
                case["impl_len"], case["model_len"] = len(c["data"]), len(exp)
                run.fail(case, "correspondence: file bytes differ from the model's prediction", kind="correspondence")
            else:
                run.tag("regrouped-by-impl")
    # ---- re-encoding a file: metadata taken from a reader / one dict reused for several writers
    rnd = random.Random(seed * 31 + 7)
    for ci in keep[:scale(tier, 60)]:
        c = cases[ci]
        if not c["records"]:
            continue
        try:
            rd = fastavro.reader(io.BytesIO(c["data"]))
            first = list(rd)
            codec2 = rnd.choice([x for x in CODECS if x != c["codec"]])
            out2 = io.BytesIO()
            fastavro.writer(out2, rd.writer_schema, first, codec=codec2, metadata=rd.metadata)
            rd2 = fastavro.reader(io.BytesIO(out2.getvalue()))
            again = [to_wire(x) for x in rd2]
            why = None
            # what writing the read-back records (they carry no hints any more, so an ambiguous union may
            # legitimately take another branch than the original, hinted datum did) gives without a container
            expect = []
            for x in first:
                bo = io.BytesIO()
                fastavro.schemaless_writer(bo, rd.writer_schema, x)
                expect.append(to_wire(fastavro.schemaless_reader(io.BytesIO(bo.getvalue()), rd.writer_schema)))
            if [canon(x) for x in again] != [canon(x) for x in expect]:
                why = "records differ after re-encoding the file with another codec"
            elif rd2.codec != codec2:
                why = "re-encoded file reports codec %r, supplied %r" % (rd2.codec, codec2)
            else:
                p2 = spec_parse(out2.getvalue())
                for b in p2["blocks"]:
                    CODECS[codec2][1](b["comp"])
        except Exception as e:  # noqa
            why = "re-encoding with metadata=reader.metadata and codec %r failed: %r" % (codec2, e)
        run.count({"reencode": c["schema"], "from": c["codec"], "to": codec2}, True, ["reencode"])
        if why:
            run.fail({"schema": c["schema"], "records": [to_wire(r) for r in c["records"]][:4], "from_codec": c["codec"],
                      "to_codec": codec2, "tags": ["reencode"]}, why, kind="oracle")
    return run.finish()
