"""C11 — parse_schema accepts valid schemas, names them per the specification, rejects ill-formed
ones (DESIGN §5 C11)."""
import copy
import json
import math

import fastavro
from fastavro.schema import parse_schema, to_parsing_canonical_form

import gen
from core import Run
from driver import run_batch
from wire import to_wire, exc_class
from props.common import scale, depth_of, schema_tags, same

THEOREMS = ["c11_names", "c11_table_holds_definitions", "c11_reference_resolves", "c11_reject_undefined", "c11_reject_redefined", "c11_definition_registers",
            "c11_names_only_grow", "c11_reject_unnamed", "c11_reject_symbols", "c11_reject_enum_default",
            "c11_reject_default_prim", "c11_reject_default_union", "c11_reject_default_array", "c11_reject_default_map",
            "c11_reject_default_named", "c11_reject_decimal", "c11_error_propagates_union", "c11_error_propagates_array",
            "c11_error_propagates_map", "c11_error_propagates_field", "c11_error_propagates_top"]
TARGETS = ["Properties.TablesSchema", "Properties.C11"]


def render(p):
    """the names the *returned* schema carries, as canonical text — rendered from the parsed structure by
    this harness (calling to_parsing_canonical_form on it would parse it a second time, which is C12's
    business, not C11's)"""
    if isinstance(p, list):
        return "[" + ",".join(render(b) for b in p) + "]"
    if isinstance(p, str):
        return '"%s"' % p
    t = p["type"]
    if t == "array":
        return '{"type":"array","items":%s}' % render(p["items"])
    if t == "map":
        return '{"type":"map","values":%s}' % render(p["values"])
    if t == "enum":
        return '{"name":"%s","type":"enum","symbols":[%s]}' % (p["name"], ",".join('"%s"' % x for x in p["symbols"]))
    if t == "fixed":
        return '{"name":"%s","type":"fixed","size":%d}' % (p["name"], p["size"])
    if t in ("record", "error"):
        return '{"name":"%s","type":"record","fields":[%s]}' % (
            p["name"], ",".join('{"name":"%s","type":%s}' % (f["name"], render(f["type"])) for f in p["fields"]))
    return '"%s"' % t


def impl_parse(s):
    try:
        ns = {}
        p = parse_schema(copy.deepcopy(s), ns)
        return {"ok": {"canon": render(p), "names": list(ns.keys())}}
    except RecursionError:
        return {"err": "fuel"}
    except Exception as e:  # noqa
        return {"err": exc_class(e)}


def paths(s, ns="", path=()):
    """(path, node, namespace in effect) for every schema node of a raw schema"""
    yield path, s, ns
    if isinstance(s, list):
        for i, b in enumerate(s):
            yield from paths(b, ns, path + (i,))
    elif isinstance(s, dict):
        t = s.get("type")
        if t == "array":
            yield from paths(s["items"], ns, path + ("items",))
        elif t == "map":
            yield from paths(s["values"], ns, path + ("values",))
        elif t == "record":
            n = s.get("name", "")
            inner = n.rpartition(".")[0] if "." in n else (s.get("namespace", ns) or "")
            for i, f in enumerate(s.get("fields", [])):
                yield from paths(f["type"], inner, path + ("fields", i, "type"))


def get_at(s, path):
    for p in path:
        s = s[p]
    return s


def set_at(s, path, v):
    s = copy.deepcopy(s)
    if not path:
        return v
    cur = s
    for p in path[:-1]:
        cur = cur[p]
    cur[path[-1]] = v
    return s


def replace_type(s, path, new):
    """replace the schema node at `path`, dropping the default of the field it belongs to (directly or as
    a union branch) so that the mutation stays a *single* ill-forming (or harmless) change"""
    out = set_at(s, path, new)
    for cut in (1, 2):
        if len(path) >= cut + 2 and path[-cut] in ("type",) or (cut == 2 and len(path) >= 4 and path[-2] == "type"):
            fpath = path[:-cut] if path[-cut] == "type" else path[:-2]
            try:
                f = get_at(out, fpath)
                if isinstance(f, dict) and "default" in f and "name" in f and "type" in f:
                    f2 = dict(f)
                    del f2["default"]
                    out = set_at(out, fpath, f2)
            except Exception:
                pass
    return out


def wrong_default_for(t):
    """a JSON default whose JSON type cannot match schema type t (t: raw schema node)"""
    if isinstance(t, list):
        return None
    base = t if isinstance(t, str) else t.get("type")
    table = {"null": 0, "boolean": "true", "int": "1", "long": 1.5, "float": "x", "double": None, "string": 1, "bytes": 1,
             "array": {}, "map": [], "record": [], "enum": 1, "fixed": 1}
    return table.get(base, "__none__")


def mutations(g, s):
    """(kind, mutated schema) — single ill-forming mutations at random positions"""
    r = g.r
    out = []
    nodes = list(paths(s))
    named = [(p, n, ns) for p, n, ns in nodes if isinstance(n, dict) and n.get("type") in ("record", "enum", "fixed")]
    enums = [(p, n, ns) for p, n, ns in nodes if isinstance(n, dict) and n.get("type") == "enum"]
    recs = [(p, n, ns) for p, n, ns in nodes if isinstance(n, dict) and n.get("type") == "record" and n.get("fields")]
    fixeds = [(p, n, ns) for p, n, ns in nodes if isinstance(n, dict) and n.get("type") == "fixed"]
    prims = [(p, n, ns) for p, n, ns in nodes if isinstance(n, str) and n in gen.PRIMS]
    # undefined reference
    if prims:
        p, n, ns = r.choice(prims)
        out.append(("undefined-reference", replace_type(s, p, r.choice(["NoSuchType", "x.y.Missing"]))))
    # a name defined twice
    if named:
        p, n, ns = r.choice(named)
        dup = copy.deepcopy(n)
        tgt = [q for q in prims if q[0] != p and not (len(q[0]) >= len(p) and q[0][:len(p)] == p)]
        later = [q for q in tgt if q[0] > p] if tgt else []
        if later:
            q = r.choice(later)
            # keep the full name the same: spell it out
            full = n["name"] if "." in n["name"] else ((n.get("namespace", ns) or "") + "." + n["name"]).lstrip(".")
            dup["name"] = full
            dup.pop("namespace", None)
            if "." not in full:
                dup["namespace"] = ""       # a null-namespace name stays in the null namespace wherever it is put
            out.append(("redefined-name", replace_type(s, q[0], dup)))
    # named type without a name
    if named:
        p, n, ns = r.choice(named)
        m = copy.deepcopy(n)
        del m["name"]
        out.append(("missing-name", set_at(s, p, m)))
    # enum symbols
    if enums:
        p, n, ns = r.choice(enums)
        m = copy.deepcopy(n)
        m["symbols"] = m["symbols"] + [r.choice(["9x", "a-b", "", "é", "a b", "AB\n", "\nAB", "A\tB", " AB", "AB ", "A.B", "AB\r", "AB\u2028", "A\x00B", "AB\n\n"])]
        out.append(("malformed-symbol", set_at(s, p, m)))
        m = copy.deepcopy(n)
        m["symbols"] = m["symbols"] + [m["symbols"][0]]
        out.append(("duplicate-symbol", set_at(s, p, m)))
        m = copy.deepcopy(n)
        m["default"] = "NOT_IN_LIST"
        out.append(("enum-default-outside", set_at(s, p, m)))
    # field default of the wrong JSON type
    if recs:
        p, n, ns = r.choice(recs)
        m = copy.deepcopy(n)
        fi = r.randrange(len(m["fields"]))
        wd = wrong_default_for(m["fields"][fi]["type"])
        if wd != "__none__" and not isinstance(m["fields"][fi]["type"], list):
            m["fields"][fi]["default"] = wd
            out.append(("wrong-default:" + str(m["fields"][fi]["type"] if isinstance(m["fields"][fi]["type"], str)
                                               else m["fields"][fi]["type"].get("type")), set_at(s, p, m)))
        # unions of primitives: a default no branch matches
        fi = r.randrange(len(m["fields"]))
        ft = n["fields"][fi]["type"]
        if isinstance(ft, list) and ft and all(isinstance(b, str) and b in gen.PRIMS for b in ft):
            cands = [None, True, 1, 1.5, "s", [], {}]
            ok = {"null": [None], "boolean": [True], "int": [1], "long": [1], "float": [1, 1.5], "double": [1, 1.5],
                  "string": ["s"], "bytes": ["s"]}
            allowed = [x for b in ft for x in ok[b]]
            bad = [c for c in cands if not any(type(c) is type(a) and c == a for a in allowed)]
            bad = [c for c in bad if not (isinstance(c, bool) and False)]
            if bad:
                m2 = copy.deepcopy(n)
                m2["fields"][fi]["default"] = r.choice(bad)
                out.append(("wrong-default:union", set_at(s, p, m2)))
    # bool default for int / long (JSON true is not a number)
    ints = [(p, n, ns) for p, n, ns in recs if any(f["type"] in ("int", "long") for f in n["fields"])]
    if ints:
        p, n, ns = r.choice(ints)
        m = copy.deepcopy(n)
        for f in m["fields"]:
            if f["type"] in ("int", "long"):
                f["default"] = True
                break
        out.append(("wrong-default:bool-for-int", set_at(s, p, m)))
    # decimal annotations
    if prims:
        p, n, ns = r.choice(prims)
        for kind, ann in (("decimal-negative-precision", {"precision": -3, "scale": 0}),
                          ("decimal-non-integer-precision", {"precision": 2.5, "scale": 0}),
                          ("decimal-negative-scale", {"precision": 5, "scale": -1}),
                          ("decimal-non-integer-scale", {"precision": 5, "scale": "2"}),
                          ("decimal-scale-above-precision", {"precision": 3, "scale": 4})):
            out.append((kind, replace_type(s, p, dict({"type": "bytes", "logicalType": "decimal"}, **ann))))
    if fixeds:
        p, n, ns = r.choice(fixeds)
        size = n["size"]
        maxp = int(math.floor(math.log10(2) * (8 * size - 1))) if size > 0 else 0
        m = copy.deepcopy(n)
        m.update({"logicalType": "decimal", "precision": maxp + 1, "scale": 0})
        out.append(("decimal-precision-beyond-size", set_at(s, p, m)))
        if maxp >= 1:
            m = copy.deepcopy(n)
            m.update({"logicalType": "decimal", "precision": maxp, "scale": 0})
            out.append(("valid:decimal-max-precision", set_at(s, p, m)))
    # a fixed decimal whose scale lies above its precision but below what the size could hold
    if prims:
        for size in (4, 8, 12):
            maxp = int(math.floor(math.log10(2) * (8 * size - 1)))
            p, n, ns = r.choice(prims)
            prec = r.randint(1, max(1, maxp - 2))
            sc = r.randint(prec + 1, maxp)
            out.append(("decimal-scale-above-precision", replace_type(s, p, {"type": "fixed", "name": "DecSc%d" % size, "size": size, "logicalType": "decimal",
                                                                                 "precision": prec, "scale": sc})))
            out.append(("valid:decimal-scale-equals-precision", replace_type(s, p, {"type": "fixed", "name": "DecSq%d" % size, "size": size,
                                                                                        "logicalType": "decimal", "precision": prec, "scale": prec})))
    if not fixeds:
        for size in (1, 2, 3, 5, 8, 10, 15, 20):
            maxp = int(math.floor(math.log10(2) * (8 * size - 1)))
            fx = {"type": "fixed", "name": "DecFx%d" % size, "size": size, "logicalType": "decimal", "precision": maxp + 1, "scale": 0}
            if prims:
                p, n, ns = r.choice(prims)
                out.append(("decimal-precision-beyond-size", replace_type(s, p, fx)))
                out.append(("valid:decimal-max-precision", replace_type(s, p, dict(fx, precision=maxp))))
    return out


def namesake_family(seed, n):
    """a null-namespace type and an undotted reference of the same simple name from inside a namespace: the reference
    means <namespace>.<name> — the namesake in the null namespace is a different type (valid only if <namespace>.<name>
    is defined too, and then the reference denotes that one)"""
    import random
    out = []
    for i in range(n):
        r = random.Random(seed * 1117 + i)
        nm = r.choice(["Kind", "Item", "T0"])
        ns = r.choice(["a", "a.b", "org"])

        def definition(full, variant):
            if variant == "enum":
                return {"type": "enum", "name": full, "symbols": ["X", "Y"] if "." in full else ["P"]}
            if variant == "fixed":
                return {"type": "fixed", "name": full, "size": 3 if "." in full else 2}
            return {"type": "record", "name": full, "fields": [{"name": "q" if "." in full else "p", "type": "int"}]}
        v1, v2 = r.choice(["enum", "fixed", "record"]), r.choice(["enum", "fixed", "record"])
        both = r.random() < 0.5
        ref = nm
        pos = r.choice(["field", "array", "map", "union"])
        reft = {"field": ref, "array": {"type": "array", "items": ref}, "map": {"type": "map", "values": ref}, "union": ["null", ref]}[pos]
        inner_fields = []
        if both:
            inner_fields.append({"name": "own", "type": definition(ns + "." + nm, v2)})
        inner_fields.append({"name": "use", "type": reft})
        inner = {"type": "record", "name": "Inner", "namespace": ns, "fields": inner_fields}
        top = {"type": "record", "name": "Top", "fields": [{"name": "first", "type": definition(nm, v1)}, {"name": "in", "type": inner}]}
        if r.random() < 0.3:
            top = [definition(nm, v1), inner]
        out.append(("valid:namesake" if both else "undefined-ref:namesake", top))
    return out


def provoke_failed_lenient_parse(run):
    """container files whose header schema cannot be parsed — not even leniently, as `reader(fo, reader_schema=…)` parses
    it — are opened; each open must raise, and (checked by everything that runs afterwards) leave no leniency behind"""
    import io
    import fastavro
    good = {"type": "record", "name": "P", "fields": [{"name": "e", "type": {"type": "enum", "name": "EE", "symbols": ["AB", "CD"]}},
                                                      {"name": "n", "type": "int", "default": 10}]}
    fo = io.BytesIO()
    fastavro.writer(fo, good, [{"e": "AB", "n": 1}], sync_marker=b"\x03" * 16)
    raw = fo.getvalue()
    for old, new in ((b'"AB", "CD"', b'"AB", "AB"'), (b'"name": "EE"', b'"name": "P"  '.replace(b"  ", b"") + b" "),
                     (b'"type": "int"', b'"type": "iny"')):
        bad = raw.replace(old, new, 1)
        if bad == raw or len(bad) != len(raw):
            continue
        for rs in (good, None):
            run.cov["evaluations"] += 1
            run.tag("failed-lenient-parse")
            try:
                list(fastavro.reader(io.BytesIO(bad), reader_schema=rs))
                run.fail({"header_patch": [old.decode(), new.decode()], "reader_schema": rs is not None, "tags": ["failed-lenient-parse"]},
                         "a container file whose header schema is ill-formed (%s) was opened without an error" % new.decode(), kind="oracle")
            except Exception:
                pass


def shared_object_family(seed, n):
    """a name defined twice where the two definitions are the SAME Python dict object (schemas assembled from shared
    constants): still a name defined twice"""
    import random
    out = []
    for i in range(n):
        r = random.Random(seed * 1579 + i)
        D = r.choice([{"type": "enum", "name": "Shared", "symbols": ["A", "B"]}, {"type": "fixed", "name": "x.Shared", "size": 4},
                      {"type": "record", "name": "Shared", "namespace": "x", "fields": [{"name": "f", "type": "int"}]}])
        pos = r.choice(["fields", "array", "union-in-field", "map"])
        second = {"fields": D, "array": {"type": "array", "items": D}, "union-in-field": ["null", D], "map": {"type": "map", "values": D}}[pos]
        s = {"type": "record", "name": "Top", "fields": [{"name": "a", "type": D}, {"name": "k", "type": "int"}, {"name": "b", "type": second}]}
        out.append(("redefined-name:same-object", s))
    return out


def dictionary_history_family(run):
    """the verdict on a schema does not depend on what the named-schema dictionary already holds: a schema that defines a
    name twice is rejected also when that name is in the dictionary before the call (parsed earlier against the same
    dictionary — the documented child/parent use — or as an earlier branch of the same top-level union)"""
    defs = {
        "enum": lambda n: {"type": "enum", "name": n, "symbols": ["A", "B"]},
        "fixed": lambda n: {"type": "fixed", "name": n, "size": 4},
        "record": lambda n: {"type": "record", "name": n, "fields": [{"name": "x", "type": "int"}]},
        "error": lambda n: {"type": "error", "name": n, "fields": [{"name": "x", "type": "int"}]},
    }
    for kind, mk in defs.items():
        for name in ("Twice", "ns.Twice", "a.b.Twice"):
            first = mk(name)
            twice = {"type": "record", "name": "Holder", "fields": [{"name": "p", "type": mk(name)}, {"name": "n", "type": "long"},
                                                                    {"name": "q", "type": {"type": "array", "items": mk(name)}}]}
            scenarios = {
                "fresh-dictionary": lambda: fastavro.parse_schema(copy.deepcopy(twice), {}),
                "name-already-in-dictionary": lambda: (lambda d: (fastavro.parse_schema(copy.deepcopy(first), d),
                                                                  fastavro.parse_schema(copy.deepcopy(twice), d)))({}),
                "earlier-union-branch": lambda: fastavro.parse_schema([copy.deepcopy(first), copy.deepcopy(twice)]),
                "name-already-in-dictionary-expand": lambda: (lambda d: (fastavro.parse_schema(copy.deepcopy(first), d),
                                                                         fastavro.parse_schema(copy.deepcopy(twice), d, expand=True)))({}),
            }
            for sname, fn in scenarios.items():
                case = {"kind": "redefined-name", "schema": twice, "defined_before": first, "scenario": sname, "tags": ["redefined-name", "dictionary-history", kind]}
                run.count(case, True, ["redefined-name:dictionary-history"])
                try:
                    fn()
                    run.fail(case, "ill-formed schema (a name defined twice) accepted when the name was %s" % sname, kind="oracle")
                except fastavro.schema.SchemaParseException:
                    pass
                except Exception as e:  # noqa
                    run.fail(dict(case, error=repr(e)[:200]), "a schema defining a name twice is rejected with %s, not a schema-parse error" % exc_class(e), kind="oracle")
    # a field whose type is an inline record of kind "error": its default must be a JSON object like a record's
    for bad in (5, "x", [], True, None, 1.5):
        for depth in (0, 1):
            err_t = {"type": "error", "name": "ns.Failure", "fields": [{"name": "code", "type": "int", "default": 0}]}
            s_ = {"type": "record", "name": "Resp", "fields": [{"name": "ok", "type": "boolean"}, {"name": "failure", "type": err_t, "default": bad}]}
            if depth:
                s_ = {"type": "record", "name": "Outer", "fields": [{"name": "inner", "type": s_}]}
            case = {"kind": "wrong-default:error-kind", "schema": s_, "tags": ["wrong-default", "error-kind"]}
            run.count(case, True, ["wrong-default:error-kind"])
            ip = impl_parse(s_)
            if "ok" in ip:
                run.fail(case, "ill-formed schema (default %r for a field whose type is an 'error' record) accepted" % (bad,), kind="oracle")
    for good in ({}, {"code": 3}):
        s_ = {"type": "record", "name": "Resp", "fields": [{"name": "failure", "type": {"type": "error", "name": "ns.Failure", "fields": [{"name": "code", "type": "int", "default": 0}]}, "default": good}]}
        ip = impl_parse(s_)
        run.count({"kind": "valid", "schema": s_}, True, ["valid:error-kind-default"])
        if "ok" not in ip:
            run.fail({"kind": "valid", "schema": s_, "tags": ["valid", "error-kind"]}, "specification-valid schema rejected: %s" % ip, kind="oracle")


def run(tier, seed):
    run = Run("C11", tier, seed)
    run.rule = ("valid schemas of the generator (nested namespaces incl. explicit empty ones, dotted names, references "
                "before/after nested definitions, recursion, every attribute) and schemas obtained by ONE ill-forming mutation "
                "of each listed kind at a random position; non-trivial = mutated schema or schema with a named type")
    run.lean(TARGETS, THEOREMS)
    cases = []
    from props.common import load_corpus
    for name, c in load_corpus("C11"):
        cases.append(({"must-reject": "wrong-default:corpus", "must-accept": "valid", "redefined-name": "redefined-name"}[c["kind"]], c["schema"]))
    for i in range(scale(tier, 700)):
        g = gen.Gen(seed * 11000017 + i, logical=False, bytes_defaults=True)
        try:
            s, ctx = g.top_schema()
        except Exception:
            continue
        cases.append(("valid", s))
        try:
            for kind, m in mutations(g, s):
                cases.append((kind, m))
        except Exception:
            pass
    cases += namesake_family(seed, scale(tier, 40))
    cases += shared_object_family(seed, scale(tier, 30))
    provoke_failed_lenient_parse(run)      # a fault in an earlier call must not relax the checks of the calls below
    dictionary_history_family(run)
    spec = run_batch([{"op": "spec.canon", "schema": to_wire(s)} for k, s in cases])
    model = run_batch([{"op": "parse", "schema": to_wire(s)} for k, s in cases])
    model = [{k_: v_ for k_, v_ in m_.items() if k_ != "toraw"} for m_ in model]     # (the JSON value of the canonical text: C13's business)
    for k, (kind, s) in enumerate(cases):
        ip = impl_parse(s)
        case = {"kind": kind, "schema": s, "tags": [kind]}
        run.count(case, kind != "valid" or bool(set(schema_tags(s)) & {"record", "enum", "fixed"}), [kind.split(":")[0]])
        run.cov["traces_validated_against_impl"] += 1
        why = None
        if kind.startswith("valid"):
            if "ok" not in ip:
                why = "specification-valid schema rejected: %s" % ip
            elif spec[k].get("ok") != ip["ok"]["canon"]:
                case["impl"], case["spec"] = ip["ok"]["canon"], spec[k]
                why = "named types do not carry the specification's full names (canonical form differs)"
            elif '"error"' not in json.dumps(s):
                # the caller's named-schema dictionary holds exactly the full names of the types the schema defines
                exp_names = set()
                for _p, node, ns_ in paths(s):
                    if isinstance(node, dict) and node.get("type") in ("record", "enum", "fixed") and isinstance(node.get("name"), str):
                        n_ = node["name"]
                        nsx = n_.rpartition(".")[0] if "." in n_ else (node.get("namespace", ns_) or "")
                        exp_names.add(n_ if "." in n_ else ((nsx + "." + n_) if nsx else n_))
                if set(ip["ok"]["names"]) != exp_names:
                    case["named_schemas_keys"], case["full_names_defined"] = sorted(ip["ok"]["names"]), sorted(exp_names)
                    why = "the named-schema dictionary does not hold exactly the full names of the types the schema defines"
        else:
            if "ok" in ip:
                why = "ill-formed schema (%s) accepted" % kind
            elif ip["err"] not in ("parse", "unknownType"):
                why = "ill-formed schema (%s) rejected with %s, not a schema-parse / unknown-type error" % (kind, ip["err"])
        if why:
            run.fail(case, why, kind="oracle")
            continue
        if not same(ip, model[k], err_class_matters=True) or ("ok" in ip and ip["ok"] != model[k].get("ok")):
            case["impl"], case["model"] = ip, model[k]
            run.fail(case, "correspondence: parse differs between implementation and model", kind="correspondence")
    return run.finish()
