"""C17 — results depend only on arguments: no state leaks across calls, inputs intact (DESIGN §5 C17).

The property is evaluated directly: every call of a generated history is also made *first* in a
pristine interpreter state (a child forked from a server process that imported fastavro and made no
call) and the canonicalised results are compared.  The generated effect table (lean/Gen/Effects.lean,
harness/gen_effects.py) is validated against the running implementation: after every call the
module-level objects of every fastavro module and every function's default arguments are digested
and compared with what the table says the call may write; arguments are compared with deep copies."""
import copy
import hashlib
import io
import json
import os
import pickle
import random
import struct
import sys
import types

import fastavro
from fastavro import parse_schema, schemaless_reader, schemaless_writer
from fastavro.schema import to_parsing_canonical_form, fingerprint
from fastavro.validation import validate
import fastavro.utils  # noqa: every module is loaded before the pristine server is forked
import fastavro.json_read  # noqa
import fastavro.json_write  # noqa
import fastavro.repository.flat_dict  # noqa

import gen
import gen_effects
from core import Run, REPO
from wire import to_wire, canon, exc_class
from props.common import scale, depth_of, schema_tags

THEOREMS = ["c17_table_safe", "c17_args_intact", "c17_history_independent"]
TARGETS = ["Properties.C17"]


# ------------------------------------------------------------------ one call
def do_call(spec, cache):
    """executes one public call; `cache` holds parsed-schema objects shared between calls of a history.
    Returns a JSON-able canonical result (exceptions by class)."""
    op = spec["op"]
    s = spec.get("schema")
    sobj = s
    if spec.get("use_parsed") is not None:
        key = spec["use_parsed"]
        if key not in cache:
            cache[key] = parse_schema(copy.deepcopy(s))
        sobj = cache[key]
    elif s is not None:
        sobj = copy.deepcopy(s)
    try:
        if op == "parse":
            named = {}
            p = parse_schema(sobj, named)
            return {"ok": [to_parsing_canonical_form(p), sorted(named)]}
        if op == "canon":
            return {"ok": to_parsing_canonical_form(sobj)}
        if op == "fingerprint":
            return {"ok": fingerprint(to_parsing_canonical_form(sobj), spec["algo"])}
        if op == "write":
            fo = io.BytesIO()
            schemaless_writer(fo, sobj, spec["value"])
            return {"ok": fo.getvalue().hex()}
        if op == "read":
            return {"ok": canon(to_wire(schemaless_reader(io.BytesIO(bytes.fromhex(spec["bytes"])), sobj)))}
        if op == "validate":
            return {"ok": bool(validate(spec["value"], sobj, raise_errors=False))}
        if op == "container":
            fo = io.BytesIO()
            fastavro.writer(fo, sobj, spec["values"], sync_marker=b"0123456789abcdef", codec=spec.get("codec", "null"))
            raw = fo.getvalue()
            back = [canon(to_wire(x)) for x in fastavro.reader(io.BytesIO(raw))]
            return {"ok": [hashlib.sha1(raw).hexdigest(), back]}
        if op == "append":
            # an existing container file (written with another schema) is appended to; the schema
            # handed over is documented to be ignored
            fo = io.BytesIO()
            fastavro.writer(fo, copy.deepcopy(spec["first_schema"]), spec["first_values"], sync_marker=b"0123456789abcdef")
            fastavro.writer(fo, sobj, spec["first_values"])
            back = [canon(to_wire(x)) for x in fastavro.reader(io.BytesIO(fo.getvalue()))]
            return {"ok": [hashlib.sha1(fo.getvalue()).hexdigest(), back]}
        if op == "json":
            so = io.StringIO()
            fastavro.json_writer(so, sobj, spec["values"])
            back = [canon(to_wire(x)) for x in fastavro.json_reader(io.StringIO(so.getvalue()), sobj)]
            return {"ok": [so.getvalue(), back]}
        if op == "generate":
            from fastavro.utils import generate_one
            random.seed(spec["seed"])
            return {"ok": canon(to_wire(generate_one(sobj)))}
        if op == "resolve":
            return {"ok": canon(to_wire(schemaless_reader(io.BytesIO(bytes.fromhex(spec["bytes"])), sobj, copy.deepcopy(spec["reader"]))))}
        if op == "shared_dict":
            # the documented way of parsing pieces against one shared dictionary; optionally a later parse into the same
            # dictionary FAILS midway; then the parent parsed before is used
            ns = {}
            for piece in spec["pieces"]:
                parse_schema(copy.deepcopy(piece), ns)
            parent = parse_schema(copy.deepcopy(spec["parent"]), ns)
            for bad in spec.get("failing", []):
                try:
                    parse_schema(copy.deepcopy(bad), ns)
                except Exception:
                    pass
            fo = io.BytesIO()
            schemaless_writer(fo, parent, spec["value"])
            back = schemaless_reader(io.BytesIO(fo.getvalue()), parent)
            return {"ok": [fo.getvalue().hex(), canon(to_wire(back)), bool(validate(spec["value"], parent, raise_errors=False))]}
        if op == "two_writers":
            # two Writer objects alive at once on two streams, constructed in the given order, then written to
            from fastavro.write import Writer
            fos = [io.BytesIO(), io.BytesIO()]
            ws = [None, None]
            for idx in spec["construct_order"]:
                ws[idx] = Writer(fos[idx], copy.deepcopy(spec["schemas"][idx]), sync_marker=b"0123456789abcdef", **spec.get("kwargs", [{}, {}])[idx])
            for idx in spec["write_order"]:
                for rec in spec["records"][idx]:
                    ws[idx].write(rec)
                ws[idx].flush()
            return {"ok": [hashlib.sha1(f.getvalue()).hexdigest() for f, w_ in zip(fos, ws) if w_ is not None]}
        if op == "reuse_after_fault":
            # a write that fails INSIDE a hinted record of a union (after the branch was chosen), then the same datum object
            # is handed to a later call: the datum is as it was, and the later call does what it does in a fresh interpreter
            v = spec["value"]
            before = canon(to_wire(v))
            fault = spec.get("fault")
            if fault == "strict-extra-key":
                try:
                    schemaless_writer(io.BytesIO(), copy.deepcopy(s), v, strict=True)
                except Exception:
                    pass
            elif fault == "overflow":
                try:
                    schemaless_writer(io.BytesIO(), copy.deepcopy(spec["narrow_schema"]), v)
                except Exception:
                    pass
            elif fault == "stream-full":
                class Full(io.RawIOBase):
                    def __init__(self, room):
                        self.room = room

                    def writable(self):
                        return True

                    def write(self, b):
                        self.room -= len(b)
                        if self.room < 0:
                            raise OSError("no space left on device")
                        return len(b)
                try:
                    schemaless_writer(Full(spec.get("room", 3)), copy.deepcopy(s), v)
                except Exception:
                    pass
            intact = canon(to_wire(v)) == before
            fo = io.BytesIO()
            schemaless_writer(fo, copy.deepcopy(s), v)
            return {"ok": [intact, fo.getvalue().hex()]}
        if op == "reader_schema_reuse":
            # a schema parsed once and reused: first as the READER schema of a binary read, then by other calls
            P = parse_schema(copy.deepcopy(s))
            before = digest(P)
            if not spec.get("skip_read"):
                fo = io.BytesIO()
                schemaless_writer(fo, copy.deepcopy(spec["writer"]), spec["written"])
                schemaless_reader(io.BytesIO(fo.getvalue()), copy.deepcopy(spec["writer"]), P)
                cf = io.BytesIO()
                fastavro.writer(cf, copy.deepcopy(spec["writer"]), [spec["written"]])
                list(fastavro.reader(io.BytesIO(cf.getvalue()), P))
            out = [digest(P) == before]
            for name, fn in (("writer", lambda: hashlib.sha1((lambda f: (fastavro.writer(f, P, [spec["full"]], sync_marker=b"0123456789abcdef"), f.getvalue())[1])(io.BytesIO())).hexdigest()),
                             ("json_writer", lambda: (lambda f: (fastavro.json_writer(f, P, [spec["full"]]), f.getvalue())[1])(io.StringIO())),
                             ("validate-partial", lambda: bool(validate(spec["partial"], P, raise_errors=False))),
                             ("expand", lambda: json.dumps(fastavro.schema.expand_schema(P), sort_keys=True, default=repr)),
                             ("write-partial", lambda: (lambda f: (schemaless_writer(f, P, spec["partial"]), f.getvalue().hex())[1])(io.BytesIO())),
                             ("canon", lambda: to_parsing_canonical_form(P))):
                try:
                    out.append([name, fn()])
                except Exception as e:  # noqa
                    out.append([name, "ERR:" + exc_class(e)])
            return {"ok": out}
        if op == "read_container":
            rs = copy.deepcopy(spec["reader"]) if spec.get("reader") is not None else None
            return {"ok": [canon(to_wire(x)) for x in fastavro.reader(io.BytesIO(bytes.fromhex(spec["bytes"])), rs)]}
        if op == "load":
            # schema files in a directory (the history's own directory when there is one, else a new one): load_schema /
            # load_schema_ordered; the files are as they were afterwards
            import shutil
            import tempfile
            from fastavro.schema import load_schema, load_schema_ordered
            own = cache.get("repo_dir") is None
            d = tempfile.mkdtemp(prefix="c17repo") if own else cache["repo_dir"]
            try:
                if own or not cache.get("repo_written"):
                    for name, sch in spec["files"].items():
                        with open(os.path.join(d, name + ".avsc"), "w") as f:
                            json.dump(sch, f)
                    if not own:
                        cache["repo_written"] = True
                try:
                    if spec.get("ordered"):
                        res = load_schema_ordered([os.path.join(d, n + ".avsc") for n in spec["ordered"]])
                    else:
                        res = load_schema(os.path.join(d, spec["name"] + ".avsc"))
                    out = {"ok": to_parsing_canonical_form(res)}
                except Exception as e:  # noqa
                    out = {"err": exc_class(e), "msg": str(e)[:80].replace(d, "<dir>")}
                after = {}
                for name in spec["files"]:
                    with open(os.path.join(d, name + ".avsc")) as f:
                        after[name] = json.load(f)
                out["files_intact"] = after == spec["files"]
                return out
            finally:
                if own:
                    shutil.rmtree(d, ignore_errors=True)
        if op == "container_meta":
            # the caller's metadata dictionary: the history's own object when it has one (handed to call after call)
            meta = cache.setdefault("meta", copy.deepcopy(spec["metadata"]))
            fo = io.BytesIO()
            if spec.get("via") == "Writer":
                from fastavro.write import Writer
                w_ = Writer(fo, sobj, sync_marker=b"0123456789abcdef", metadata=meta, codec=spec.get("codec", "null"))
                for rec in spec["values"]:
                    w_.write(rec)
                w_.flush()
            else:
                fastavro.writer(fo, sobj, spec["values"], sync_marker=b"0123456789abcdef", metadata=meta, codec=spec.get("codec", "null"))
            raw = fo.getvalue()
            rd_ = fastavro.reader(io.BytesIO(raw))
            back = [canon(to_wire(x)) for x in rd_]
            return {"ok": [hashlib.sha1(raw).hexdigest(), back, {k: v for k, v in rd_.metadata.items() if k in spec["metadata"]}]}
        raise ValueError("unknown op " + op)
    except RecursionError:
        return {"err": "fuel"}
    except Exception as e:  # noqa
        return {"err": exc_class(e)}


# ------------------------------------------------------------------ pristine server (fork per call)
class Pristine:
    """a process that imported everything and made no fastavro call; every request is served by a
    fresh fork of it, i.e. in the state of a fresh interpreter"""

    def __init__(self):
        r1, w1 = os.pipe()
        r2, w2 = os.pipe()
        pid = os.fork()
        if pid == 0:
            os.close(w1)
            os.close(r2)
            self._serve(os.fdopen(r1, "rb"), os.fdopen(w2, "wb"))
            os._exit(0)
        os.close(r1)
        os.close(w2)
        self.pid = pid
        self.w = os.fdopen(w1, "wb")
        self.r = os.fdopen(r2, "rb")

    @staticmethod
    def _serve(rd, wr):
        while True:
            hdr = rd.read(4)
            if len(hdr) < 4:
                return
            n = struct.unpack("<I", hdr)[0]
            spec = pickle.loads(rd.read(n))
            cr, cw = os.pipe()
            child = os.fork()
            if child == 0:
                os.close(cr)
                try:
                    out = pickle.dumps(do_call(spec, {}))
                except BaseException as e:  # noqa
                    out = pickle.dumps({"err": "crash:" + repr(e)[:80]})
                with os.fdopen(cw, "wb") as f:
                    f.write(out)
                os._exit(0)
            os.close(cw)
            with os.fdopen(cr, "rb") as f:
                data = f.read()
            os.waitpid(child, 0)
            wr.write(struct.pack("<I", len(data)) + data)
            wr.flush()

    def call(self, spec):
        b = pickle.dumps(spec)
        self.w.write(struct.pack("<I", len(b)) + b)
        self.w.flush()
        n = struct.unpack("<I", self.r.read(4))[0]
        return pickle.loads(self.r.read(n))

    def close(self):
        try:
            self.w.close()
            os.waitpid(self.pid, 0)
        except Exception:
            pass


# ------------------------------------------------------------------ snapshots of module-level state
def digest(obj, depth=0, seen=None):
    seen = seen if seen is not None else set()
    if id(obj) in seen or depth > 6:
        return "<cycle>"
    if isinstance(obj, (str, bytes, int, float, bool, type(None))):
        return repr(obj)
    if isinstance(obj, (types.FunctionType, types.BuiltinFunctionType, type, types.ModuleType, types.MethodType)):
        return "<%s %s>" % (type(obj).__name__, getattr(obj, "__qualname__", getattr(obj, "__name__", "?")))
    seen = seen | {id(obj)}
    if isinstance(obj, dict):
        return "{" + ",".join(sorted(digest(k, depth + 1, seen) + ":" + digest(v, depth + 1, seen) for k, v in obj.items())) + "}"
    if isinstance(obj, (list, tuple)):
        return "[" + ",".join(digest(x, depth + 1, seen) for x in obj) + "]"
    if isinstance(obj, (set, frozenset)):
        return "{" + ",".join(sorted(digest(x, depth + 1, seen) for x in obj)) + "}"
    import decimal
    if isinstance(obj, decimal.Context):
        return "Context(%r)" % ((obj.prec, obj.rounding, obj.Emin, obj.Emax, obj.capitals, obj.clamp,
                                 sorted(str(k) for k, v in obj.flags.items() if v), sorted(str(k) for k, v in obj.traps.items() if v)),)
    return "<%s>" % type(obj).__name__


def module_state():
    out = {}
    for name, mod in list(sys.modules.items()):
        if not (name == "fastavro" or name.startswith("fastavro.")) or mod is None:
            continue
        short = name.split(".")[-1]
        for k, v in list(vars(mod).items()):
            if k.startswith("__") and k != "__all__":
                continue
            if isinstance(v, (types.ModuleType, type)):
                continue
            if isinstance(v, types.FunctionType):
                if v.__defaults__:
                    out["%s.%s.__defaults__" % (short, k)] = digest(list(v.__defaults__))
                if v.__kwdefaults__:
                    out["%s.%s.__kwdefaults__" % (short, k)] = digest(v.__kwdefaults__)
                continue
            out["%s.%s" % (short, k)] = digest(v)
    return out


OP_ENTRY = {"parse": ["parse_schema", "to_parsing_canonical_form"], "canon": ["to_parsing_canonical_form"],
            "fingerprint": ["fingerprint", "to_parsing_canonical_form"], "write": ["schemaless_writer"],
            "read": ["schemaless_reader"], "validate": ["validate"], "container": ["writer", "reader"],
            "json": ["json_writer", "json_reader"], "append": ["writer", "reader"], "generate": ["generate_one"], "resolve": ["schemaless_reader"],
            "shared_dict": ["parse_schema", "schemaless_writer", "schemaless_reader", "validate"], "two_writers": ["writer"],
            "read_container": ["reader"]}


def table():
    mods, summ, entries, state_objects = gen_effects.analyse(REPO)
    return {pub: (r or {"writes": set(), "pwrites": set()}) for pub, r, allowed in entries}, set(state_objects)


def _zz(n):
    n = (n << 1) ^ (n >> 63)
    out = bytearray()
    while n & ~0x7F:
        out.append((n & 0x7F) | 0x80)
        n >>= 7
    out.append(n)
    return bytes(out)


def directed_histories(run, tier, seed, pristine):
    """histories aimed at state that only particular call orders expose:
    (a) decimals of many precisions read one after another — including stored integers with more digits than the
        schema's precision (the reader must round them to the schema's precision whatever was read before);
    (b) a container file whose header schema only parses leniently (a default of the wrong JSON type), read with a
        reader schema (lenient) and without one (strict) in both orders."""
    rr = random.Random(seed * 424243 + 17)
    for h in range(scale(tier, 12)):
        calls = []
        for _ in range(rr.randint(4, 9)):
            p = rr.choice([1, 2, 4, 5, 9, 18, 20, 28, 29, 38])
            sc = rr.randint(0, p)
            ndig = rr.choice([p, p, max(1, p - 1), p + 1, p + 3, p + 9])
            unscaled = rr.randint(10 ** (ndig - 1), 10 ** ndig - 1) * rr.choice([1, -1])
            raw = unscaled.to_bytes((unscaled.bit_length() + 8) // 8, "big", signed=True)
            schema = {"type": "bytes", "logicalType": "decimal", "precision": p, "scale": sc}
            if rr.random() < 0.4:
                schema = {"type": "record", "name": "Payment", "namespace": "demo", "fields": [{"name": "amount", "type": schema}]}
            calls.append({"op": "read", "schema": schema, "bytes": (_zz(len(raw)) + raw).hex()})
        for c, spec in enumerate(calls):
            got = do_call(copy.deepcopy(spec), {})
            fresh = pristine.call(copy.deepcopy(spec))
            run.cov["evaluations"] += 1
            run.tag("directed:decimal-precisions")
            if got != fresh:
                run.fail({"history": [dict(x) for x in calls[:c + 1]], "after_history": got, "fresh": fresh, "tags": ["decimal-precisions"]},
                         "the result of a call after a history differs from the same call made first in a fresh interpreter", kind="oracle")
                break
    # (c) pieces parsed against one shared dictionary, a later parse into it that fails midway, then the parent is used
    # (d) two Writer objects alive at once (one with logical types, one without), constructed and written in every order
    import datetime as _dt
    import decimal as _dec
    import uuid as _uuid
    child = {"type": "enum", "name": "shop.Size", "symbols": ["S", "M", "L"]}
    child2 = {"type": "record", "name": "shop.Item", "fields": [{"name": "size", "type": "shop.Size"}, {"name": "n", "type": "int"}]}
    parent = {"type": "record", "name": "shop.Order", "fields": [{"name": "item", "type": "shop.Item"}, {"name": "gift", "type": ["null", "shop.Size"]}]}
    failing = [
        {"type": "record", "name": "shop.Other", "fields": [{"name": "s", "type": {"type": "enum", "name": "shop.Size", "symbols": ["2XL"]}}]},
        {"type": "record", "name": "shop.Other2", "fields": [{"name": "i", "type": {"type": "record", "name": "shop.Item", "fields": [
            {"name": "q", "type": "int", "default": "not-an-int"}]}}]},
        {"type": "record", "name": "shop.Order", "fields": [{"name": "x", "type": "NoSuchType"}]},
        {"type": "enum", "name": "shop.Size", "symbols": ["A", "A"]}]
    value = {"item": {"size": "M", "n": 2}, "gift": "L"}
    base_spec = {"op": "shared_dict", "schema": None, "pieces": [child, child2], "parent": parent, "value": value, "failing": []}
    ref = do_call(copy.deepcopy(base_spec), {})
    for h in range(scale(tier, 8)):
        fl = rr.sample(failing, rr.randint(1, 3))
        spec = dict(base_spec, failing=fl)
        got = do_call(copy.deepcopy(spec), {})
        fresh = pristine.call(copy.deepcopy(spec))
        run.cov["evaluations"] += 1
        run.tag("directed:failed-parse-into-shared-dict")
        if got != fresh or got != ref:
            run.fail({"pieces": [child, child2], "parent": parent, "failing_parses": fl, "after_failed_parse": got, "without": ref, "fresh": fresh,
                      "tags": ["shared-dict"]},
                     "a parse that fails midway changes what an earlier parsed schema (same shared dictionary) does", kind="oracle")
            break
    sa = {"type": "record", "name": "Pay", "fields": [{"name": "id", "type": {"type": "string", "logicalType": "uuid"}},
                                                     {"name": "amt", "type": {"type": "bytes", "logicalType": "decimal", "precision": 9, "scale": 2}},
                                                     {"name": "day", "type": {"type": "int", "logicalType": "date"}}]}
    sb = {"type": "record", "name": "Plain", "fields": [{"name": "n", "type": "int"}, {"name": "s", "type": "string"}]}
    ra = [{"id": _uuid.UUID(int=7), "amt": _dec.Decimal("12.50"), "day": _dt.date(2020, 2, 29)}]
    rb = [{"n": 1, "s": "x"}, {"n": 2, "s": "y"}]
    for co in ([0, 1], [1, 0]):
        for wo in ([0, 1], [1, 0]):
            for kw in ([{}, {}], [{"validator": True}, {}], [{}, {"metadata": {"k": "v"}}]):
                spec = {"op": "two_writers", "schema": None, "schemas": [sa, sb], "records": [ra, rb], "construct_order": co, "write_order": wo, "kwargs": kw}
                got = do_call(copy.deepcopy(spec), {})
                fresh = pristine.call(copy.deepcopy(spec))
                # ground truth: each file written by a writer that is alone in a pristine interpreter
                solo = []
                for idx in (0, 1):
                    one = pristine.call({"op": "two_writers", "schema": None, "schemas": [spec["schemas"][idx], spec["schemas"][idx]],
                                         "records": [spec["records"][idx], []], "construct_order": [0], "write_order": [0],
                                         "kwargs": [kw[idx], {}]})
                    solo.append(one["ok"][0] if "ok" in one else one)
                alone = {"ok": solo}
                run.cov["evaluations"] += 1
                run.tag("directed:two-writers")
                if got != fresh or got != alone:
                    run.fail({"construct_order": co, "write_order": wo, "kwargs": kw, "after_history": got, "fresh": fresh, "other_order": alone,
                              "tags": ["two-writers"]},
                             "two writers alive at once: the files written depend on the order in which the writers were constructed / used", kind="oracle")
                    break
    # (e) a failed write inside a hinted record, then the same datum object again
    ua = [{"type": "record", "name": "demo.A", "fields": [{"name": "x", "type": "double"}, {"name": "y", "type": "int"}]},
          {"type": "record", "name": "demo.B", "fields": [{"name": "x", "type": "double"}, {"name": "y", "type": "int"}]}]
    narrow = [{"type": "record", "name": "demo.A", "fields": [{"name": "x", "type": "float"}, {"name": "y", "type": "int"}]},
              {"type": "record", "name": "demo.B", "fields": [{"name": "x", "type": "float"}, {"name": "y", "type": "int"}]}]
    for shape in ("top", "field", "array"):
        if shape == "top":
            sch, nsch, wrap = ua, narrow, (lambda d: d)
        elif shape == "field":
            sch = {"type": "record", "name": "demo.W", "fields": [{"name": "id", "type": "long"}, {"name": "u", "type": ua}]}
            nsch = {"type": "record", "name": "demo.W", "fields": [{"name": "id", "type": "long"}, {"name": "u", "type": narrow}]}
            wrap = lambda d: {"id": 1, "u": d}
        else:
            sch, nsch, wrap = {"type": "array", "items": ua}, {"type": "array", "items": narrow}, (lambda d: [d])
        for fault, datum in (("strict-extra-key", {"-type": "demo.B", "x": 1.5, "y": 2, "zz": 0}), ("overflow", {"-type": "demo.B", "x": 1e300, "y": 2}),
                             ("stream-full", {"-type": "demo.B", "x": 1.5, "y": 2})):
            spec = {"op": "reuse_after_fault", "schema": sch, "narrow_schema": nsch, "value": wrap(datum), "fault": fault, "room": 5}
            got = do_call(copy.deepcopy(spec), {})
            fresh = pristine.call(copy.deepcopy(dict(spec, fault=None)))
            run.cov["evaluations"] += 1
            run.tag("directed:reuse-after-fault")
            if got != fresh:
                run.fail({"schema": sch, "value": repr(wrap(datum)), "fault": fault, "after_failed_call": got, "fresh": fresh, "tags": ["reuse-after-fault", shape]},
                         "after a write that failed midway the datum handed to it is changed, or a later call with the same datum differs from "
                         "the same call made first in a fresh interpreter", kind="oracle")
    # (f) a parsed schema reused: reader schema of a binary read first, then writer / validate / expand / canonical form
    rsch = {"type": "record", "name": "demo.Doc", "fields": [
        {"name": "id", "type": "int"}, {"name": "raw", "type": "bytes", "default": "ab"},
        {"name": "sig", "type": {"type": "fixed", "name": "demo.Sig", "size": 2}, "default": "xy"},
        {"name": "sig2", "type": "demo.Sig", "default": "zw"}, {"name": "opt", "type": ["bytes", "null"], "default": "q"},
        {"name": "inner", "type": {"type": "record", "name": "demo.In", "fields": [{"name": "b", "type": "bytes", "default": "i"}]}, "default": {}}]}
    wsch = {"type": "record", "name": "demo.Doc", "fields": [{"name": "id", "type": "int"}]}
    spec = {"op": "reader_schema_reuse", "schema": rsch, "writer": wsch, "written": {"id": 5},
            "full": {"id": 1, "raw": b"r", "sig": b"12", "sig2": b"34", "opt": None, "inner": {"b": b"z"}}, "partial": {"id": 2}}
    got = do_call(copy.deepcopy(spec), {})
    fresh = pristine.call(copy.deepcopy(dict(spec, skip_read=True)))
    run.cov["evaluations"] += 1
    run.tag("directed:reader-schema-reuse")
    if got != fresh:
        run.fail({"schema": rsch, "after_use_as_reader_schema": got, "fresh": fresh, "tags": ["reader-schema-reuse"]},
                 "a parsed schema used as the reader schema of a read is changed by it, or later calls with it differ from the same calls made "
                 "first in a fresh interpreter", kind="oracle")
    for h in range(scale(tier, 6)):
        w = {"type": "record", "name": "Old", "fields": [{"name": "a", "type": "int", "default": 10}, {"name": "b", "type": "string", "default": "xy"}]}
        fo = io.BytesIO()
        fastavro.writer(fo, w, [{"a": i, "b": "r%d" % i} for i in range(rr.randint(1, 3))], sync_marker=b"0123456789abcdef")
        raw = fo.getvalue()
        bad = raw.replace(b'"default": 10', b'"default": ""', 1) if rr.random() < 0.5 else raw.replace(b'"default": "xy"', b'"default": 1234', 1)
        if bad == raw or len(bad) != len(raw):
            continue
        reader = {"type": "record", "name": "Old", "fields": [{"name": "a", "type": "int"}, {"name": "b", "type": "string"}]}
        specs = [{"op": "read_container", "schema": None, "bytes": bad.hex(), "reader": reader},
                 {"op": "read_container", "schema": None, "bytes": bad.hex(), "reader": None}]
        order = specs + specs[::-1] if h % 2 == 0 else specs[::-1] + specs
        for c, spec in enumerate(order):
            got = do_call(copy.deepcopy(spec), {})
            fresh = pristine.call(copy.deepcopy(spec))
            run.cov["evaluations"] += 1
            run.tag("directed:lenient-header")
            if got != fresh:
                run.fail({"history": [{"op": x["op"], "reader": x["reader"] is not None} for x in order[:c + 1]], "file_hex": bad.hex(),
                          "after_history": got, "fresh": fresh, "tags": ["lenient-header"]},
                         "the result of a call after a history differs from the same call made first in a fresh interpreter", kind="oracle")
                break


def load_and_metadata_histories(run, tier, seed, pristine):
    """(a) a directory of schema files that refer to one another by name (a random acyclic reference graph: shared leaves,
    diamonds, references in arrays / maps / unions), loaded in a random order, the same files again and again, with
    load_schema and load_schema_ordered;  (b) ONE metadata dictionary handed to writer call after writer call, with a
    different schema each time.  Every call is compared with the same call made first in a pristine fork."""
    import shutil
    import tempfile
    rr = random.Random(seed * 1700171 + 9)

    def graph(n):
        files = {}
        for i in range(n):
            fields = [{"name": "id", "type": "long"}]
            deps = [j for j in range(i) if rr.random() < 0.6]
            rr.shuffle(deps)
            for k, j in enumerate(deps):
                ref = "shop.T%d" % j
                shape = rr.choice(["direct", "array", "map", "union"])
                ty = ref if shape == "direct" else {"type": "array", "items": ref} if shape == "array" else \
                    {"type": "map", "values": ref} if shape == "map" else ["null", ref]
                fields.append({"name": "f%d" % k, "type": ty})
            files["shop.T%d" % i] = {"type": "record", "name": "T%d" % i, "namespace": "shop", "fields": fields}
        return files
    fixed = {
        "shop.Money": {"type": "record", "name": "Money", "namespace": "shop", "fields": [{"name": "cents", "type": "long"}]},
        "shop.Item": {"type": "record", "name": "Item", "namespace": "shop", "fields": [{"name": "sku", "type": "string"}, {"name": "price", "type": "shop.Money"}]},
        "shop.Order": {"type": "record", "name": "Order", "namespace": "shop", "fields": [
            {"name": "shipping", "type": "shop.Money"}, {"name": "items", "type": {"type": "array", "items": "shop.Item"}}]},
        "shop.Invoice": {"type": "record", "name": "Invoice", "namespace": "shop", "fields": [{"name": "order", "type": "shop.Order"}]},
    }
    for h in range(scale(tier, 10)):
        files = fixed if h == 0 else graph(rr.randint(3, 6))
        names = sorted(files)
        if h == 0:
            seq = ["shop.Item", "shop.Order", "shop.Invoice", "shop.Money", "shop.Item", "shop.Order"]
        else:
            seq = [rr.choice(names) for _ in range(rr.randint(4, 8))]
        d = tempfile.mkdtemp(prefix="c17repo")
        cache = {"repo_dir": d}
        hist = []
        try:
            for c, nm in enumerate(seq):
                spec = {"op": "load", "files": files, "name": nm}
                if rr.random() < 0.15:
                    spec["ordered"] = names          # definitions come before uses in this order
                hist.append({"load": spec.get("ordered") or nm})
                got = do_call(copy.deepcopy(spec), cache)
                fresh = pristine.call(copy.deepcopy(spec))
                run.cov["evaluations"] += 1
                run.tag("directed:load-history")
                if "ok" in fresh:
                    run.tag("directed:load-history:loaded")
                if got != fresh:
                    run.fail({"files": files, "history": hist, "after_history": got, "fresh": fresh, "tags": ["load-history"]},
                             "load_schema after a history of loads from the same directory differs from the same call made first in a fresh interpreter",
                             kind="oracle")
                    break
        finally:
            shutil.rmtree(d, ignore_errors=True)
    # (b)
    v1 = {"type": "record", "name": "Reading", "namespace": "plant", "fields": [{"name": "sensor", "type": "string"}, {"name": "value", "type": "double"}]}
    v2 = {"type": "record", "name": "Reading", "namespace": "plant", "fields": [{"name": "sensor", "type": "string"}, {"name": "value", "type": "double"},
                                                                           {"name": "unit", "type": "string"}]}
    alarm = {"type": "record", "name": "Alarm", "namespace": "plant", "fields": [{"name": "level", "type": {"type": "enum", "name": "Level", "symbols": ["LOW", "HIGH"]}},
                                                                            {"name": "codes", "type": {"type": "array", "items": "int"}}]}
    data = {id(v1): [{"sensor": "t1", "value": 291.5}, {"sensor": "t2", "value": 1.5}],
            id(v2): [{"sensor": "t1", "value": 291.5, "unit": "K"}, {"sensor": "", "value": 0.0, "unit": "bar"}],
            id(alarm): [{"level": "HIGH", "codes": [1, 2, 3]}, {"level": "LOW", "codes": []}]}
    for h in range(scale(tier, 4)):
        cache = {}
        metadata = {"owner": "plant-%d" % h, "site": "north"} if h % 2 == 0 else {}
        order = [v1, v2, alarm, v2, v1]
        if h:
            rr.shuffle(order)
        hist = []
        for c, sch in enumerate(order):
            spec = {"op": "container_meta", "schema": sch, "values": data[id(sch)], "metadata": metadata, "codec": rr.choice(["null", "deflate"]),
                    "via": rr.choice(["writer", "Writer"])}
            if rr.random() < 0.4:
                spec["use_parsed"] = "m%d" % order.index(sch)
            hist.append({"schema": sch["name"] + "/%d-fields" % len(sch["fields"]), "via": spec["via"], "codec": spec["codec"]})
            got = do_call(copy.deepcopy(spec), cache)
            fresh = pristine.call(copy.deepcopy(spec))
            run.cov["evaluations"] += 1
            run.tag("directed:shared-metadata-dict")
            if got != fresh:
                run.fail({"metadata": metadata, "history": hist, "after_history": got, "fresh": fresh, "tags": ["shared-metadata-dict"]},
                         "a writer call given the metadata dictionary earlier writer calls were given differs from the same call made first in a "
                         "fresh interpreter", kind="oracle")
                break


def run(tier, seed):
    run = Run("C17", tier, seed)
    run.rule = ("histories of 6-14 public calls (parse, canonical form, fingerprint, schemaless write/read, validate, container "
                "write+read, JSON write+read, generate_one, read with a reader schema) over schemas drawn from a small name "
                "pool (the same type names with different definitions recur), parsed-schema objects shared between calls, "
                "non-conforming data (calls that raise midway); each call's result is compared with the same call made first "
                "in a pristine fork; module state and arguments are snapshotted around every call")
    pristine = Pristine()      # before any fastavro call of this process
    run.lean(TARGETS, THEOREMS)
    tab, state_objects = table()
    nh = scale(tier, 60)
    rng = random.Random(seed * 17000023 + 5)
    try:
        for h in range(nh):
            cache = {}
            pool = []
            for j in range(3):
                g = gen.Gen(seed * 17000023 + h * 7 + j, logical=(j == 1), bytes_defaults=False, hints=True)
                try:
                    s, ctx = g.top_schema()
                    vals = [g.datum(s, ctx) for _ in range(2)]
                    bad = gen.mutate(g, s, vals[0], ctx)
                    pool.append((s, vals, bad, g))
                except Exception:
                    continue
            if not pool:
                continue
            # a second *version* of one of the schemas: the same type names with other definitions
            try:
                from props.c08 import to_tree, evolve, emit, refs_need_null_ns
                from fastavro.utils import generate_one
                s1 = pool[0][0]
                if isinstance(s1, dict) and s1.get("type") == "record":
                    tree, table_ = to_tree(s1)
                    t2, tab2, labels = evolve(rng, tree, table_, 2)
                    v2 = emit(t2, tab2)
                    if labels and not refs_need_null_ns(v2):
                        parse_schema(copy.deepcopy(v2))
                        random.seed(h)
                        vals2 = [generate_one(copy.deepcopy(v2)) for _ in range(2)]
                        pool.append((v2, vals2, pool[0][2], pool[0][3]))
                        versions = (pool[0], pool[-1])
                    else:
                        versions = None
                else:
                    versions = None
            except Exception:
                versions = None
            ncalls = rng.randint(6, 14)
            for c in range(ncalls):
                s, vals, bad, g = rng.choice(pool)
                op = rng.choice(["parse", "canon", "fingerprint", "write", "write", "read", "validate", "container", "json",
                                 "generate", "resolve", "write-bad", "validate-bad", "append"])
                spec = {"op": op.split("-")[0], "schema": s}
                if rng.random() < 0.5:
                    spec["use_parsed"] = pool.index((s, vals, bad, g))
                if op == "fingerprint":
                    spec["algo"] = rng.choice(["CRC-64-AVRO", "md5", "sha256"])
                elif op in ("write", "validate"):
                    spec["value"] = rng.choice(vals)
                elif op in ("write-bad", "validate-bad"):
                    spec["value"] = bad
                elif op in ("read", "resolve"):
                    fo = io.BytesIO()
                    try:
                        schemaless_writer(fo, copy.deepcopy(s), vals[0])
                    except Exception:
                        continue
                    spec["bytes"] = fo.getvalue().hex()
                    if op == "resolve":
                        spec["reader"] = s
                elif op in ("container", "json"):
                    spec["values"] = [v for v in vals]
                    spec["codec"] = rng.choice(["null", "deflate"])
                elif op == "generate":
                    spec["seed"] = rng.randint(0, 10 ** 6)
                elif op == "append":
                    s1, vals1, _, _ = rng.choice(pool)
                    if versions and rng.random() < 0.7:
                        (s1, vals1, _, _), (s, vals, bad, g) = versions
                        spec["schema"] = s
                        spec["use_parsed"] = len(pool) - 1
                    if not (isinstance(s1, dict) and s1.get("type") == "record"):
                        continue
                    spec["first_schema"], spec["first_values"] = s1, list(vals1)
                before_state = module_state()
                arg_copy = copy.deepcopy({k: v for k, v in spec.items()})
                cached_before = digest(cache.get(spec.get("use_parsed"))) if spec.get("use_parsed") in cache else None
                got = do_call(spec, cache)
                after_state = module_state()
                fresh = pristine.call(arg_copy)
                case = {"history": h, "call": c, "spec": {k: (to_wire(v) if k in ("value", "values") else v) for k, v in arg_copy.items()},
                        "tags": [op]}
                run.count(case, c > 0, [op, "result:" + ("ok" if "ok" in got else got["err"])])
                run.cov["traces_validated_against_impl"] += 1
                if isinstance(fresh.get("err"), str) and fresh["err"].startswith("crash:RecursionError"):
                    run.tag("result-too-deep-to-transport")     # the fork could not pickle a very deep result
                    continue
                if got != fresh:
                    case["after_history"], case["fresh"] = got, fresh
                    run.fail(case, "the result of a call after a history differs from the same call made first in a fresh interpreter",
                             kind="oracle")
                    continue
                # inputs intact
                if digest(spec.get("schema")) != digest(arg_copy.get("schema")) or \
                        digest({k: v for k, v in spec.items() if k != "schema"}) != digest({k: v for k, v in arg_copy.items() if k != "schema"}):
                    run.fail(case, "a call modified the schema or data object handed to it", kind="oracle")
                    continue
                if cached_before is not None and digest(cache[spec["use_parsed"]]) != cached_before:
                    run.fail(case, "a call modified the parsed-schema object handed to it", kind="oracle")
                    continue
                # the table: every changed module-level object must be among the writes of the entry points used
                changed = sorted(k for k in set(before_state) | set(after_state) if before_state.get(k) != after_state.get(k))
                allowed = set()
                for ep in OP_ENTRY[spec["op"]]:
                    allowed |= set(tab.get(ep, {}).get("writes", set()))
                unexpected = [k for k in changed if k.replace("_py.", "_py.") not in allowed]
                if unexpected:
                    case["changed"], case["table_writes"] = changed, sorted(allowed)
                    run.fail(case, "correspondence: module-level state changed that the effect table does not list as written",
                             kind="correspondence")
        directed_histories(run, tier, seed, pristine)
        load_and_metadata_histories(run, tier, seed, pristine)
        # ---- the same schema *object* handed to consecutive calls and modified in place in between: the
        # result must be that of the object's current content (i.e. of a copy of it in a fresh interpreter)
        from fastavro.utils import generate_one
        for h in range(scale(tier, 40)):
            rr = random.Random(seed * 99991 + h)
            obj = {"type": "record", "name": "Same", "fields": [{"name": "a", "type": rr.choice(["int", "string", "boolean"])},
                                                                  {"name": "b", "type": rr.choice(["long", "double"])}]}
            for step in range(3):
                for op in ("generate", "canon", "write"):
                    spec = {"op": op, "schema": obj}
                    if op == "generate":
                        spec["seed"] = h
                    if op == "write":
                        random.seed(h)
                        try:
                            spec["value"] = generate_one(copy.deepcopy(obj))
                        except Exception:
                            continue
                    # the object itself (not a copy) goes to the call
                    try:
                        if op == "generate":
                            random.seed(spec["seed"])
                            got = {"ok": canon(to_wire(generate_one(obj)))}
                        elif op == "canon":
                            got = {"ok": to_parsing_canonical_form(obj)}
                        else:
                            fo = io.BytesIO()
                            schemaless_writer(fo, obj, spec["value"])
                            got = {"ok": fo.getvalue().hex()}
                    except Exception as e:  # noqa
                        got = {"err": exc_class(e)}
                    fresh = pristine.call(copy.deepcopy(spec))
                    run.cov["evaluations"] += 1
                    run.tag("same-object:" + op)
                    if got != fresh:
                        run.fail({"schema_now": copy.deepcopy(obj), "op": op, "step": step, "after_history": got, "fresh": fresh,
                                  "tags": ["same-object", op]},
                                 "a schema object modified in place between two calls: the second call does not see its current content",
                                 kind="oracle")
                # in-place modification
                f = rr.choice(obj["fields"])
                f["type"] = rr.choice([t for t in ("int", "string", "boolean", "long", "double", "bytes") if t != f["type"]])
                if rr.random() < 0.5:
                    obj["fields"].append({"name": "n%d" % step, "type": "int"})
    finally:
        pristine.close()
    return run.finish()
