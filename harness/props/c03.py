"""C03 — decoder accepts every spec-valid encoding (any block partition, both count forms), rejects
out-of-range indices and truncated input (DESIGN §5 C03)."""
import io
import json
import random

import fastavro

import gen
import impl
from core import Run, MachineryError
from driver import run_batch
from wire import to_wire, from_wire, canon, exc_class
from props.common import scale, depth_of, schema_tags, same
from props.c01 import gen_cases

THEOREMS = ["c03_accept", "c03_skip", "c03_read_extend", "c03_prefix", "c03_skip_extend", "c03_skip_prefix", "c03_bad_index"]
TARGETS = ["Properties.TablesCodec", "Properties.C03"]


# ------------------------------------------------------------------ spec-side encoder with free block partitions
def zz(n):
    return (n << 1) if n >= 0 else ((-n) << 1) - 1


def varint(m):
    out = bytearray()
    while m >= 128:
        out.append((m & 0x7F) | 0x80)
        m >>= 7
    out.append(m)
    return bytes(out)


def enc_long(n):
    return varint(zz(n))


def zz_dec_at(b, i):
    """decode one zig-zag varint of b starting at i -> (value, next index); IndexError at end of input"""
    n = 0
    shift = 0
    while True:
        c = b[i]
        i += 1
        n |= (c & 0x7F) << shift
        shift += 7
        if not c & 0x80:
            break
    return (n >> 1) ^ -(n & 1), i


class Reblock:
    """encodes a *normal-form* value under a raw schema, choosing a random partition of every
    array/map into blocks, each in the positive-count or the negative-count-plus-size form"""

    def __init__(self, rnd, g, ctx):
        self.r, self.g, self.ctx = rnd, g, ctx
        self.nblocks = 0

    def blocks(self, items_bytes):
        r = self.r
        out = bytearray()
        i = 0
        n = len(items_bytes)
        while i < n:
            k = r.randint(1, max(1, min(n - i, r.choice([1, 2, 3, n]))))
            body = b"".join(items_bytes[i:i + k])
            if r.random() < 0.5:
                out += enc_long(k) + body
            else:
                out += enc_long(-k) + enc_long(len(body)) + body
            self.nblocks += 1
            i += k
        out += b"\x00"
        return bytes(out)

    def enc(self, s, v, ns=""):
        import struct
        g = self.g
        if isinstance(s, list):
            # find the first branch the normal-form value fits structurally
            for i, b in enumerate(s):
                try:
                    body = self.enc(b, v, ns)
                except (TypeError, ValueError, KeyError, AssertionError, AttributeError, struct.error, OverflowError):
                    continue
                return enc_long(i) + body
            raise ValueError("no branch")
        if isinstance(s, str):
            if s in gen.PRIMS:
                return self.prim(s, v)
            dd, dns = g.lookup(s, self.ctx, ns)
            return self.enc(dd, v, dns)
        t = s["type"]
        if t in gen.PRIMS:
            return self.prim(t, v)
        if t == "fixed":
            assert isinstance(v, bytes) and len(v) == s["size"]
            return v
        if t == "enum":
            return enc_long(s["symbols"].index(v))
        if t == "array":
            assert isinstance(v, list)
            return self.blocks([self.enc(s["items"], x, ns) for x in v])
        if t == "map":
            assert isinstance(v, dict)
            return self.blocks([self.prim("string", k) + self.enc(s["values"], x, ns) for k, x in v.items()])
        if t == "record":
            assert isinstance(v, dict)
            nsx = gen.split_full(g.full_of(s, ns))[0]
            assert set(v) == set(f["name"] for f in s["fields"])
            return b"".join(self.enc(f["type"], v[f["name"]], nsx) for f in s["fields"])
        raise ValueError(t)

    def prim(self, t, v):
        import struct
        if t == "null":
            assert v is None
            return b""
        if t == "boolean":
            assert isinstance(v, bool)
            return b"\x01" if v else b"\x00"
        if t in ("int", "long"):
            assert isinstance(v, int) and not isinstance(v, bool)
            lim = 31 if t == "int" else 63
            assert -2 ** lim <= v < 2 ** lim
            return enc_long(v)
        if t == "float":
            assert isinstance(v, float)
            b = struct.pack("<f", v)
            assert v != v or struct.unpack("<f", b)[0] == v
            return b
        if t == "double":
            assert isinstance(v, float)
            return struct.pack("<d", v)
        if t == "bytes":
            assert isinstance(v, bytes)
            return enc_long(len(v)) + v
        if t == "string":
            assert isinstance(v, str)
            b = v.encode()
            return enc_long(len(b)) + b
        raise ValueError(t)


def has_nan(v):
    if isinstance(v, float):
        return v != v
    if isinstance(v, dict):
        return any(has_nan(x) for x in v.values())
    if isinstance(v, (list, tuple)):
        return any(has_nan(x) for x in v)
    return False


def read_impl(ps, data, reader=None):
    fo = io.BytesIO(data)
    try:
        v = fastavro.schemaless_reader(fo, ps, reader) if reader is not None else fastavro.schemaless_reader(fo, ps)
    except RecursionError:
        return {"err": "fuel"}
    except Exception as e:  # noqa
        return {"err": exc_class(e)}
    return {"ok": to_wire(v), "rest": len(data) - fo.tell()}


def run(tier, seed):
    run = Run("C03", tier, seed)
    run.rule = ("normal-form values of generated (schema, datum) pairs re-encoded by a spec-side encoder with a random "
                "partition of every array/map into blocks (positive and negative-count-plus-size forms, nested); every "
                "out-of-range index at top-level and nested union/enum positions; every proper prefix of encodings up "
                "to 400 bytes (structural cuts + 48 random ones beyond); non-trivial = schema depth >= 2 or >= 2 blocks")
    run.lean(TARGETS, THEOREMS)
    rnd = random.Random(seed * 977 + 5)
    from props.common import load_corpus
    for name, c in load_corpus("C03"):
        if c.get("kind") == "must-raise":
            io_ = read_impl(fastavro.parse_schema(c["schema"]), bytes.fromhex(c["bytes"]))
            run.count({"corpus": name}, True, ["corpus"])
            if "ok" in io_:
                run.fail({"corpus": name, "schema": c["schema"], "bytes": c["bytes"], "impl": io_, "tags": ["corpus"]},
                         "corpus witness %s decodes to a value again" % name, kind="oracle")
    base = []
    n = scale(tier, 500)
    for i in range(n):
        g = gen.Gen(seed * 5000011 + i, bytes_defaults=False, logical=False, hints=False, float_int=False,
                    bytearray=False, tuple_seq=False)
        try:
            s, ctx = g.top_schema()
            ps = fastavro.parse_schema(json.loads(json.dumps(s)))
        except Exception:
            continue
        for _ in range(2):
            try:
                v = g.datum(s, ctx)
                fo = io.BytesIO()
                fastavro.schemaless_writer(fo, ps, v)
                nf = fastavro.schemaless_reader(io.BytesIO(fo.getvalue()), ps)
            except Exception:
                continue
            rb = Reblock(rnd, g, ctx)
            try:
                b = rb.enc(s, nf)
            except Exception:
                continue
            base.append((s, ps, nf, b, rb.nblocks, fo.getvalue()))
    # enums with 65..130 symbols (index varints of two bytes from symbol 64 on) inside arrays, maps and records of
    # constant-size fields — read and, above all, skipped
    for i in range(scale(tier, 24)):
        rr = random.Random(seed * 911 + i)
        nsym = rr.choice([64, 65, 66, 100, 128, 129, 130])
        en = {"type": "enum", "name": "Big", "symbols": ["S%d" % j for j in range(nsym)]}
        inner = rr.choice([en, {"type": "record", "name": "Cell", "fields": [{"name": "e", "type": en}, {"name": "f", "type": "float"},
                                                                           {"name": "b", "type": "boolean"}]}])
        s = rr.choice([{"type": "array", "items": inner}, {"type": "map", "values": inner}])

        def item():
            sym = "S%d" % rr.choice([0, 1, 63, min(64, nsym - 1), nsym - 1, rr.randrange(nsym)])
            return sym if inner is en else {"e": sym, "f": 0.5, "b": True}
        v = [item() for _ in range(rr.randint(1, 5))] if s["type"] == "array" else {"k%d" % j: item() for j in range(rr.randint(1, 4))}
        g0 = gen.Gen(seed + i)
        ctx0 = gen.Ctx()
        try:
            ps = fastavro.parse_schema(json.loads(json.dumps(s)))
            fo = io.BytesIO()
            fastavro.schemaless_writer(fo, ps, v)
            nf = fastavro.schemaless_reader(io.BytesIO(fo.getvalue()), ps)
            rb = Reblock(rnd, g0, ctx0)
            b = rb.enc(s, nf)
        except Exception:
            continue
        base.append((s, ps, nf, b, rb.nblocks, fo.getvalue()))
        run.tag("big-enum")
    # ---------------- (1) acceptance of every partition, value returned
    reqs = [{"op": "dec", "schema": to_wire(s), "bytes": b.hex() + "aa55"} for (s, ps, nf, b, nb, std) in base]
    mouts = run_batch(reqs)
    sreqs = [{"op": "skip", "schema": to_wire(s), "bytes": b.hex() + "aa55"} for (s, ps, nf, b, nb, std) in base]
    souts = run_batch(sreqs)
    for k, (s, ps, nf, b, nb, std) in enumerate(base):
        case = {"schema": s, "bytes": b.hex(), "expect": to_wire(nf), "blocks": nb}
        run.count(case, depth_of(s) >= 2 or nb >= 2, sorted(schema_tags(s)) + ["blocks>=2" if nb >= 2 else "blocks<2"])
        run.cov["traces_validated_against_impl"] += 1
        exp = canon(to_wire(nf))
        mo = mouts[k]
        if not ("ok" in mo and canon(mo["ok"]) == exp and mo["rest"] == 2):
            # the spec-side re-encoder and the proven model disagree: harness defect, not a violation
            raise MachineryError("re-encoder/model disagreement on %s: %s" % (json.dumps(case)[:600], mo))
        io_ = read_impl(ps, b + b"\xaa\x55")
        if not ("ok" in io_ and canon(io_["ok"]) == exp and io_["rest"] == 2):
            case["impl"] = io_
            run.fail(case, "spec-valid encoding (block partition) not decoded to the expected value", kind="oracle")
        # the same encoding twice on an unbuffered forward-only io stream, one call per value
        if k % 3 == 0:
            from props.streams import RawForward
            raw = RawForward(b + b)
            for rep in range(2):
                try:
                    r2 = {"ok": to_wire(fastavro.schemaless_reader(raw, ps))}
                except Exception as e:  # noqa
                    r2 = {"err": exc_class(e), "msg": repr(e)[:80]}
                if not ("ok" in r2 and canon(r2["ok"]) == exp and raw.consumed() == (rep + 1) * len(b)):
                    case["impl_raw_stream"] = r2
                    case["tags"] = ["raw-stream"]
                    run.fail(case, "spec-valid encoding at the current position of an unbuffered stream (value %d of 2) not decoded" % (rep + 1), kind="oracle")
                    break
            run.tag("raw-stream")
        # skipped during resolution: writer {a: S, z: long}, reader {z: long}
        if souts[k].get("rest") != 2:
            raise MachineryError("model skip disagrees with the re-encoder: %s %s" % (json.dumps(case)[:400], souts[k]))
        wrec = {"type": "record", "name": "SkipWrap__", "fields": [{"name": "a", "type": s}, {"name": "z", "type": "long"}]}
        rrec = {"type": "record", "name": "SkipWrap__", "fields": [{"name": "z", "type": "long"}]}
        try:
            pw = fastavro.parse_schema(json.loads(json.dumps(wrec)))
            so = read_impl(pw, b + gen_long(-77777) + b"\xaa", rrec)
        except Exception as e:  # noqa
            so = {"err": "setup:" + repr(e)}
        if not ("ok" in so and so["rest"] == 1 and from_wire(so["ok"]) == {"z": -77777}):
            case["impl_skip"] = so
            run.fail(case, "spec-valid encoding not skipped correctly during schema resolution", kind="oracle")
        run.tag("skip")
    # ---------------- (2) out-of-range indices
    idx_cases = []
    for (s, ps, nf, b, nb, std) in base[:scale(tier, 250)]:
        for path_schema, prefix, nbr in index_positions(s, nf):
            for bad in sorted(set([-1, -2, -nbr, -nbr - 1, nbr, nbr + 1, 2 ** 31, -2 ** 31, 2 ** 62, -2 ** 63, -3])):
                if 0 <= bad < nbr:
                    continue
                idx_cases.append((path_schema, prefix + enc_long(bad) + b"\x00" * 12, bad, nbr))
    mo = run_batch([{"op": "dec", "schema": to_wire(s), "bytes": b.hex()} for (s, b, bad, nbr) in idx_cases])
    pcache = {}
    for k, (s, b, bad, nbr) in enumerate(idx_cases):
        key = json.dumps(s, sort_keys=True)
        if key not in pcache:
            pcache[key] = fastavro.parse_schema(json.loads(json.dumps(s)))
        io_ = read_impl(pcache[key], b)
        case = {"schema": s, "bytes": b.hex(), "bad_index": bad, "branches_or_symbols": nbr,
                "tags": ["bad-index", "negative" if bad < 0 else "too-large"]}
        run.count(case, True, ["bad-index:" + ("neg" if bad < 0 else "big")])
        run.cov["traces_validated_against_impl"] += 1
        if "ok" in io_:
            case["impl"] = io_
            run.fail(case, "out-of-range %s index %d decoded to a value" % ("negative" if bad < 0 else "large", bad),
                     kind="oracle")
        elif not same(io_, mo[k]):
            case["impl"], case["model"] = io_, mo[k]
            run.fail(case, "correspondence: bad-index outcome differs", kind="correspondence")
    # ---------------- (2b) the same with a reader schema that knows more symbols / branches
    for (s, b, bad, nbr) in idx_cases:
        readers = []
        if isinstance(s, dict) and s.get("type") == "enum":
            r1 = dict(s, symbols=list(s["symbols"]) + ["ZZ_extra1", "ZZ_extra2"])
            r2 = dict(r1, default=r1["symbols"][0])
            readers = [r1, r2]
        elif isinstance(s, list):
            readers = [list(s) + [{"type": "fixed", "name": "ZZExtraBranch", "size": 1}]]
        for rs in readers:
            key = json.dumps(s, sort_keys=True)
            try:
                io_ = read_impl(pcache[key], b, rs)
            except Exception as e:  # noqa
                continue
            case = {"schema": s, "reader_schema": rs, "bytes": b.hex(), "bad_index": bad, "branches_or_symbols": nbr,
                    "tags": ["bad-index", "reader-schema", "negative" if bad < 0 else "too-large"]}
            run.count(case, True, ["bad-index:reader-schema"])
            run.cov["traces_validated_against_impl"] += 1
            if "ok" in io_:
                case["impl"] = io_
                run.fail(case, "out-of-range index %d decoded to a value when a reader schema is given" % bad,
                         kind="oracle")
    # ---------------- (2c) optional fields on both sides: two-branch unions with null read through a reader schema that
    # keeps them optional (field added, promotion, branches reversed, first field dropped)
    for wu, good in ((["null", "int"], 5), (["int", "null"], 5), (["null", "string"], "x"), (["null", {"type": "array", "items": "long"}], [1])):
        w = {"type": "record", "name": "Opt", "fields": [{"name": "pre", "type": "string"}, {"name": "u", "type": wu}, {"name": "post", "type": "long"}]}
        promoted = ["long" if b == "int" else ("bytes" if b == "string" else b) for b in wu]
        readers = {
            "field-added": dict(w, fields=w["fields"] + [{"name": "extra", "type": "int", "default": 0}]),
            "promoted": dict(w, fields=[w["fields"][0], {"name": "u", "type": promoted}, w["fields"][2]]),
            "reversed": dict(w, fields=[w["fields"][0], {"name": "u", "type": list(reversed(wu))}, w["fields"][2]]),
            "first-dropped": dict(w, fields=w["fields"][1:]),
            "top-level-union": None}
        for rname, rs in readers.items():
            for bad in (2, 3, 64, 1000, 2 ** 40, -1, -2):
                if rs is None:
                    ws_, rs_ = wu, list(reversed(wu))
                    b = enc_long(bad) + b"\x02\x02\x02"
                else:
                    ws_, rs_ = w, rs
                    b = enc_long(1) + b"p" + enc_long(bad) + b"\x02\x02\x02\x02"
                io_ = read_impl(fastavro.parse_schema(json.loads(json.dumps(ws_))), b, json.loads(json.dumps(rs_)))
                case = {"schema": ws_, "reader_schema": rs_, "bytes": b.hex(), "bad_index": bad, "branches_or_symbols": 2,
                        "tags": ["bad-index", "reader-schema", "optional-both-sides", "reader:" + rname]}
                run.count(case, True, ["bad-index:optional-both-sides"])
                run.cov["traces_validated_against_impl"] += 1
                if "ok" in io_:
                    case["impl"] = io_
                    run.fail(case, "out-of-range union index %d decoded to a value when a reader schema is given" % bad, kind="oracle")
    # ---------------- (2d) a bad union index INSIDE a value the reader schema drops, the value being an array / a map written as
    # blocks with a negative count and a byte size (the size is consistent, so stepping over the block by its size "works"):
    # the out-of-range index is still an error
    for cont in ("array", "map"):
        for place in ("first", "second", "second-block"):
            for bad in (2, 7, 64, 2 ** 33, -1, -3):
                u = ["null", "string"]
                t = {"type": "array", "items": u} if cont == "array" else {"type": "map", "values": u}
                w = {"type": "record", "name": "Skp", "fields": [{"name": "a", "type": "int"}, {"name": "dropped", "type": t}, {"name": "b", "type": "string"}]}
                rs = {"type": "record", "name": "Skp", "fields": [{"name": "a", "type": "int"}, {"name": "b", "type": "string"}]}
                key_ = (enc_long(1) + b"k") if cont == "map" else b""
                good_item = key_ + enc_long(1) + enc_long(1) + b"x"
                bad_item = key_ + enc_long(bad)
                if place == "first":
                    items, blocks = [bad_item, good_item], None
                elif place == "second":
                    items, blocks = [good_item, bad_item], None
                else:
                    items, blocks = None, [[good_item], [good_item, bad_item]]

                def block(its):
                    body = b"".join(its)
                    return enc_long(-len(its)) + enc_long(len(body)) + body
                payload = block(items) if blocks is None else b"".join(block(x) for x in blocks)
                b = enc_long(1) + payload + enc_long(0) + enc_long(2) + b"hi"
                for reader in (rs, None):
                    io_ = read_impl(fastavro.parse_schema(json.loads(json.dumps(w))), b, json.loads(json.dumps(reader)) if reader else None)
                    case = {"schema": w, "reader_schema": reader, "bytes": b.hex(), "bad_index": bad, "branches_or_symbols": 2,
                            "tags": ["bad-index", "inside-sized-block", cont, place, "skipped" if reader else "read"]}
                    run.count(case, True, ["bad-index:inside-sized-block"])
                    run.cov["traces_validated_against_impl"] += 1
                    if "ok" in io_:
                        case["impl"] = io_
                        run.fail(case, "out-of-range union index %d inside a block with a byte size decoded to a value%s" % (bad, " when the value is skipped" if reader else ""),
                                 kind="oracle")
    # ---------------- (3) proper prefixes
    pre = []
    for (s, ps, nf, b, nb, std) in base[:scale(tier, 300)]:
        for enc in (b, std):
            if len(enc) <= 400:
                cuts = range(len(enc))
            else:
                cuts = sorted(set(list(range(64)) + [rnd.randrange(len(enc)) for _ in range(48)] + [len(enc) - 1, len(enc) - 2]))
            for c in cuts:
                pre.append((s, ps, enc[:c], len(enc)))
    mo = run_batch([{"op": "dec", "schema": to_wire(s), "bytes": p.hex()} for (s, ps, p, L) in pre])
    for k, (s, ps, p, L) in enumerate(pre):
        io_ = read_impl(ps, p)
        run.cov["evaluations"] += 1
        run.cov["traces_validated_against_impl"] += 1
        run.tag("prefix")
        if "ok" in io_:
            case = {"schema": s, "prefix": p.hex(), "full_length": L, "impl": io_}
            run.fail(case, "proper prefix of a valid encoding decoded to a value", kind="oracle")
        elif "ok" in mo[k]:
            raise MachineryError("model accepts a proper prefix: %s" % json.dumps({"schema": s, "prefix": p.hex()})[:500])
    # ---------------- (3b) proper prefixes of a value that is *skipped* during schema resolution (the skip functions
    # must length-check like the read functions): writer {z: long, a: S}, reader {z: long}, input cut inside a
    skp = []
    for (s, ps, nf, b, nb, std) in base[:scale(tier, 200)]:
        wrec = {"type": "record", "name": "SkipWrap__", "fields": [{"name": "z", "type": "long"}, {"name": "a", "type": s}]}
        rrec = {"type": "record", "name": "SkipWrap__", "fields": [{"name": "z", "type": "long"}]}
        try:
            pw = fastavro.parse_schema(json.loads(json.dumps(wrec)))
        except Exception:
            continue
        for enc in (b, std):
            cuts = range(len(enc)) if len(enc) <= 200 else sorted(set([rnd.randrange(len(enc)) for _ in range(40)] + [len(enc) - 1, len(enc) - 2, 0, 1]))
            for c in cuts:
                skp.append((s, pw, rrec, enc[:c], len(enc)))
    mo = run_batch([{"op": "skip", "schema": to_wire(s), "bytes": p.hex()} for (s, pw, rrec, p, L) in skp])
    for k, (s, pw, rrec, p, L) in enumerate(skp):
        run.cov["evaluations"] += 1
        run.tag("prefix-skipped")
        if "rest" in mo[k]:
            raise MachineryError("model skips a proper prefix: %s" % json.dumps({"schema": s, "prefix": p.hex()})[:500])
        for sequential in (False, True):
            data = gen_long(5) + p
            fo = io.BytesIO(data)
            if sequential:
                fo = ReadOnly(fo)
            try:
                v = fastavro.schemaless_reader(fo, pw, rrec)
                io_ = {"ok": to_wire(v)}
            except RecursionError:
                io_ = {"err": "fuel"}
            except Exception as e:  # noqa
                io_ = {"err": exc_class(e)}
            if "ok" in io_:
                case = {"schema": s, "prefix": p.hex(), "full_length": L, "impl": io_, "sequential_input": sequential,
                        "tags": ["prefix-skipped"]}
                run.fail(case, "proper prefix of a valid encoding was skipped without an error during schema resolution", kind="oracle")
                break
    # ---- a valid encoding that does not start at offset 0 of a seekable stream (a frame header before it, values back to
    # back, a file that was seeked): decoded exactly as when it stands alone
    import tempfile
    pos_schema = {"type": "record", "name": "Msg", "fields": [{"name": "id", "type": "long"}, {"name": "tags", "type": {"type": "map", "values": "string"}},
                                                             {"name": "body", "type": "bytes"}, {"name": "note", "type": ["null", "string"]}]}
    pps = fastavro.parse_schema(json.loads(json.dumps(pos_schema)))
    for v in ({"id": 1, "tags": {"k": "v"}, "body": b"xyz", "note": "the end"}, {"id": -5, "tags": {}, "body": b"", "note": None},
              {"id": 2 ** 40, "tags": {"a": "b", "cc": "dd"}, "body": b"\x00" * 40, "note": "n" * 30}):
        fo = io.BytesIO()
        fastavro.schemaless_writer(fo, pps, v)
        b = fo.getvalue()
        alone = read_impl(pps, b)
        for p_ in (1, 2, 7, len(b), len(b) + 5, 300):
            for kind in ("BytesIO", "real-file"):
                if kind == "BytesIO":
                    st = io.BytesIO(b"\xAA" * p_ + b)
                else:
                    st = tempfile.TemporaryFile("w+b")
                    st.write(b"\xAA" * p_ + b)
                st.seek(p_)
                try:
                    got = {"ok": to_wire(fastavro.schemaless_reader(st, pps)), "rest": len(b) + p_ - st.tell()}
                except Exception as e:  # noqa
                    got = {"err": exc_class(e)}
                finally:
                    if kind != "BytesIO":
                        st.close()
                case = {"schema": pos_schema, "bytes": b.hex(), "start_offset": p_, "stream": kind, "tags": ["positioned-stream"]}
                run.count(case, True, ["positioned-stream:" + kind])
                if got != alone:
                    case["impl"], case["alone"] = got, alone
                    run.fail(case, "a valid encoding read from a stream positioned at offset %d decodes differently from the same bytes alone" % p_, kind="oracle")
    # ---- many decodes that fail INSIDE a skipped value reached through a by-name reference (truncation, bad index), then valid
    # input: earlier failures leave nothing behind
    node = {"type": "record", "name": "Node", "fields": [{"name": "v", "type": "int"}, {"name": "next", "type": ["null", "Node"]}]}
    w_ = {"type": "record", "name": "Env", "fields": [{"name": "keep", "type": "int"}, {"name": "drop", "type": node}, {"name": "again", "type": ["null", "Node"]},
                                                        {"name": "tail", "type": "string"}]}
    r_ = {"type": "record", "name": "Env", "fields": [{"name": "keep", "type": "int"}, {"name": "again", "type": ["null", node]}, {"name": "tail", "type": "string"}]}
    wp = fastavro.parse_schema(json.loads(json.dumps(w_)))
    chain = None
    for i_ in range(12):
        chain = {"v": i_, "next": chain}
    fo = io.BytesIO()
    fastavro.schemaless_writer(fo, wp, {"keep": 1, "drop": chain, "again": {"v": 9, "next": None}, "tail": "t"})
    good = fo.getvalue()
    before = read_impl(wp, good, json.loads(json.dumps(r_)))
    for rounds in range(15):
        for cut in (len(good) - 5, 20, 9):
            read_impl(wp, good[:cut], json.loads(json.dumps(r_)))
        bad_idx = good[:3] + enc_long(7) + good[4:]
        read_impl(wp, bad_idx, json.loads(json.dumps(r_)))
    after = read_impl(wp, good, json.loads(json.dumps(r_)))
    after_plain = read_impl(wp, good)
    case = {"schema": w_, "reader_schema": r_, "bytes": good.hex(), "tags": ["after-failed-skips"]}
    run.count(case, True, ["after-failed-skips"])
    if after != before or "ok" not in after_plain:
        case["before"], case["after"], case["after_without_reader_schema"] = before, after, after_plain
        run.fail(case, "a valid encoding is decoded differently after a series of decodes that failed inside a skipped value", kind="oracle")
    return run.finish()


class ReadOnly:
    """an input that offers read() only"""

    def __init__(self, fo):
        self._fo = fo

    def read(self, n=-1):
        return self._fo.read(n)


def gen_long(n):
    return enc_long(n)


def index_positions(s, nf):
    """(schema, bytes before the index, number of branches/symbols) for the top-level position and for
    the same union/enum nested as a record field after a string, an array item and a map value"""
    out = []

    def top(u):
        if isinstance(u, list):
            return len(u)
        if isinstance(u, dict) and u.get("type") == "enum":
            return len(u["symbols"])
        return None
    n = top(s)
    if n is not None:
        out.append((s, b"", n))
        return out
    # first union/enum one level down
    if isinstance(s, dict) and s.get("type") == "array" and top(s["items"]) is not None:
        out.append((s, enc_long(1), top(s["items"])))
        out.append((s, enc_long(-1) + enc_long(9), top(s["items"])))
    if isinstance(s, dict) and s.get("type") == "map" and top(s["values"]) is not None:
        out.append((s, enc_long(1) + enc_long(1) + b"k", top(s["values"])))
    if isinstance(s, dict) and s.get("type") == "record" and s.get("fields") and top(s["fields"][0]["type"]) is not None:
        out.append((s, b"", top(s["fields"][0]["type"])))
    return out
