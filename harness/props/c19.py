"""C19 — load_schema from per-type files is equivalent to parsing the same types inlined at their
first use (DESIGN §5 C19).  Random acyclic dependency graphs of records / enums / fixed types (diamonds,
repeated use, several namespaces, qualified and namespace-relative references, references from fields,
array items, map values and union branches) are written one type per file; the loaded schema is compared
— canonical form and encoding of data — with the schema obtained by an independent first-use inliner;
load_schema_ordered with the files listed dependencies first; every single missing file."""
import copy
import io
import json
import os
import random
import shutil
import tempfile

import fastavro
from fastavro import parse_schema, schemaless_reader, schemaless_writer
from fastavro.schema import load_schema, load_schema_ordered, to_parsing_canonical_form
from fastavro.utils import generate_one

from core import Run
from driver import run_batch
from wire import to_wire, canon, exc_class
from props.common import scale

THEOREMS = ["c19_reference_resolution", "c19_record_namespace", "c19_inject_first_use", "c19_inject_absent_unchanged", "c19_inject_at_most_once"]
TARGETS = ["Properties.C19"]

PRIMS = ["null", "boolean", "int", "long", "float", "double", "bytes", "string"]
NSS = ["", "ns", "a.b", "other"]


def gen_graph(r):
    """types[i] = (fullname, definition with references to types of higher index by *spelled* name).
    types[0] is the root."""
    n = r.randint(2, 7)
    names = []
    for i in range(n):
        ns = r.choice(NSS if r.random() < 0.6 else [NSS[1]])
        base = "T%d" % i
        # namesakes: the same simple name in the null namespace and in a named one (two different types, two files)
        if i > 0 and r.random() < 0.25:
            prev = r.choice(names[:i])
            pns, _, pbase = prev.rpartition(".")
            cand_ns = r.choice([x for x in NSS if x != pns])
            cand = (cand_ns + "." + pbase) if cand_ns else pbase
            if cand not in names:
                ns, base = cand_ns, pbase
        names.append((ns + "." + base) if ns else base)
    kinds = ["record"] + [r.choice(["record", "record", "enum", "fixed"]) for _ in range(n - 1)]
    defs = []
    for i in range(n):
        full = names[i]
        ns, _, base = full.rpartition(".")
        style = r.choice(["dotted", "split"]) if ns else "bare"
        d = {"type": kinds[i]}
        if style == "dotted":
            d["name"] = full
        elif style == "split":
            d["name"], d["namespace"] = base, ns
        else:
            d["name"] = base
        if kinds[i] == "enum":
            d["symbols"] = ["A", "B", "C"][: r.randint(1, 3)]
        elif kinds[i] == "fixed":
            d["size"] = r.randint(1, 4)
        else:
            later = list(range(i + 1, n))
            fields = []
            nf = r.randint(1, 4)
            for k in range(nf):
                def ref():
                    if later and r.random() < 0.75:
                        j = r.choice(later)
                        tfull = names[j]
                        tns, _, tbase = tfull.rpartition(".")
                        # namespace-relative spelling is possible when the target lives in this record's namespace
                        if tns == ns and tns != "" and r.random() < 0.5:
                            return tbase
                        if tns == "" and ns != "":
                            return None       # a null-namespace type cannot be referred to from inside a namespace
                        return tfull
                    return r.choice(PRIMS[1:])
                t = ref()
                if t is None:
                    t = "int"
                shape = r.random()
                if shape < 0.2:
                    t = {"type": "array", "items": t}
                elif shape < 0.35:
                    t = {"type": "map", "values": t}
                elif shape < 0.41 and isinstance(t, str) and t not in PRIMS:
                    # one union mentioning the same stored type more than once (directly and through a container);
                    # kept rare and shallow: generate_one draws ten items for every array and map
                    t = r.choice([["null", t, {"type": "array", "items": t}],
                                  [{"type": "array", "items": t}, {"type": "map", "values": t}],
                                  ["null", {"type": "map", "values": t}, t]])
                elif shape < 0.6:
                    other = ref() or "string"
                    if isinstance(other, str) and other != t:
                        t = ["null", t, other] if t != "null" and other != "null" else ["null", t]
                    else:
                        t = ["null", t]
                elif shape < 0.72 and isinstance(t, str) and t not in PRIMS:
                    # a union that is DIRECTLY the items of an array / the values of a map (nested containers too)
                    u_ = r.choice([["null", t], [t, "string"], ["long", t, "null"]])
                    t = r.choice([{"type": "array", "items": u_}, {"type": "map", "values": u_},
                                  {"type": "array", "items": {"type": "map", "values": u_}}, ["null", {"type": "array", "items": u_}]])
                fields.append({"name": "f%d" % k, "type": t})
            d["fields"] = fields
        defs.append(d)
    return names, defs


def gen_namesake_graph(r):
    """directed family: the same simple name in the null namespace and in a named one, the null-namespace one met FIRST
    (so it is already in the name table when the namespace-relative reference to its namesake is parsed), the relative
    reference being the only / the last / a middle unresolved reference of its record, optionally followed by a
    reference that shares a dependency with the namesake"""
    ns = r.choice(["ops", "a.b", "ops.wh"])
    x = r.choice(["Status", "Key"])

    def wrap(t):
        c = r.random()
        if c < 0.15:
            return {"type": "array", "items": t}
        if c < 0.3:
            return ["null", t]
        if c < 0.4:
            return {"type": "map", "values": t}
        return t

    def small(kind, tag):
        if kind == "enum":
            return {"type": "enum", "symbols": [tag + "A", tag + "B"]}
        if kind == "fixed":
            return {"type": "fixed", "size": 2 if tag == "N" else 3}
        return {"type": "record", "fields": [{"name": tag.lower() + "v", "type": r.choice(["int", "string"])}]}

    names, defs = [], []

    def add(full, d):
        tns, _, base = full.rpartition(".")
        d = dict(d)
        if tns and r.random() < 0.5:
            d["name"], d["namespace"] = base, tns
        else:
            d["name"] = full
        names.append(full)
        defs.append(d)

    share = r.random() < 0.5
    top_fields = []
    if r.random() < 0.85:
        top_fields.append({"name": "s", "type": wrap(x)})
    top_fields.append({"name": "o", "type": wrap(ns + ".Order")})
    if r.random() < 0.3:
        r.shuffle(top_fields)
    if r.random() < 0.5:
        top_fields.append({"name": "z", "type": "long"})
    add("Top", {"type": "record", "fields": top_fields})
    add(x, small(r.choice(["enum", "fixed", "record"]), "N"))
    # the namesake inside the namespace
    k2 = r.choice(["enum", "fixed", "record", "record"])
    nd = small(k2, "Q")
    if k2 == "record" and share:
        nd["fields"].append({"name": "owner", "type": r.choice(["Money", ns + ".Money"])})
    add(ns + "." + x, nd)
    of = [{"name": "state", "type": wrap(x if r.random() < 0.8 else ns + "." + x)}]
    if share:
        of.append({"name": "cost", "type": wrap(r.choice(["Money", ns + ".Money"]))})
    if r.random() < 0.4:
        of.append({"name": "more", "type": wrap(ns + ".Extra")})
        add(ns + ".Extra", small(r.choice(["enum", "fixed", "record"]), "E"))
    if r.random() < 0.4:
        r.shuffle(of)
    if r.random() < 0.5:
        of.insert(r.randint(0, len(of)), {"name": "n", "type": "int"})
    add(ns + ".Order", {"type": "record", "fields": of})
    if share:
        add(ns + ".Money", small(r.choice(["fixed", "record"]), "M"))
    return names, defs


def gen_nested_name_graph(r):
    """directed family: a type whose full name is also the namespace of other stored types (shop.Item and shop.Item.Detail,
    lib.Book and lib.Book.Page.Line): file names that share a prefix up to a dot"""
    top_ns = r.choice(["", "app"])
    outer = r.choice(["shop.Item", "lib.Book", "Item"])
    inner1 = outer + "." + r.choice(["Detail", "Page"])
    inner2 = inner1 + ".Line" if r.random() < 0.5 else outer + ".Extra"
    names, defs = [], []

    def add(full, d):
        d = dict(d)
        tns, _, base = full.rpartition(".")
        if tns and r.random() < 0.5:
            d["name"], d["namespace"] = base, tns
        else:
            d["name"] = full
        names.append(full)
        defs.append(d)

    def small(kind, tag):
        if kind == "enum":
            return {"type": "enum", "symbols": [tag + "A", tag + "B"]}
        if kind == "fixed":
            return {"type": "fixed", "size": 3}
        return {"type": "record", "fields": [{"name": tag.lower(), "type": "int"}]}
    tf = [{"name": "first", "type": outer}]
    if r.random() < 0.6:
        tf.append({"name": "second", "type": r.choice([inner1, {"type": "array", "items": inner1}, ["null", inner2]])})
    if r.random() < 0.4:
        r.shuffle(tf)
    add((top_ns + "." if top_ns else "") + "Top", {"type": "record", "fields": tf})
    of = [{"name": "d", "type": r.choice([inner1, ["null", inner1], {"type": "map", "values": inner1}])}, {"name": "n", "type": "long"}]
    add(outer, {"type": "record", "fields": of})
    k1 = r.choice(["record", "enum", "fixed"])
    d1 = small(k1, "I")
    if k1 == "record" and r.random() < 0.6:
        d1["fields"].append({"name": "deeper", "type": inner2})
    add(inner1, d1)
    add(inner2, small(r.choice(["record", "enum", "fixed"]), "J"))
    return names, defs


def reachable(names, defs):
    """the types actually used from the root, with (enclosing namespace)-resolved references"""
    idx = {n: i for i, n in enumerate(names)}
    used = []

    def resolve(name, ns):
        if name in PRIMS:
            return None
        full = name if "." in name or not ns else ns + "." + name
        return full

    def walk_type(t, ns):
        if isinstance(t, list):
            for b in t:
                walk_type(b, ns)
        elif isinstance(t, dict):
            if t["type"] == "array":
                walk_type(t["items"], ns)
            elif t["type"] == "map":
                walk_type(t["values"], ns)
        else:
            full = resolve(t, ns)
            if full is not None and full in idx and full not in used:
                used.append(full)
                walk_def(idx[full])

    def walk_def(i):
        d = defs[i]
        ns = names[i].rpartition(".")[0]
        if d["type"] == "record":
            for f in d["fields"]:
                walk_type(f["type"], ns)
    used.append(names[0])
    walk_def(0)
    return used


def inline_first_use(names, defs):
    """independent reference: every definition substituted at its first reference, depth-first"""
    idx = {n: i for i, n in enumerate(names)}
    done = set()

    def emit_def(i):
        d = copy.deepcopy(defs[i])
        done.add(names[i])
        ns = names[i].rpartition(".")[0]
        if d["type"] == "record":
            for f in d["fields"]:
                f["type"] = emit_type(f["type"], ns)
        return d

    def emit_type(t, ns):
        if isinstance(t, list):
            return [emit_type(b, ns) for b in t]
        if isinstance(t, dict):
            t = dict(t)
            if t["type"] == "array":
                t["items"] = emit_type(t["items"], ns)
            elif t["type"] == "map":
                t["values"] = emit_type(t["values"], ns)
            return t
        if t in PRIMS:
            return t
        full = t if "." in t or not ns else ns + "." + t
        if full in idx and full not in done:
            return emit_def(idx[full])
        return t
    return emit_def(0)


def topo(names, defs, used):
    idx = {n: i for i, n in enumerate(names)}
    order, seen = [], set()

    def deps(i):
        out = []
        ns = names[i].rpartition(".")[0]

        def go(t):
            if isinstance(t, list):
                for b in t:
                    go(b)
            elif isinstance(t, dict):
                go(t.get("items", t.get("values", "int")))
            elif t not in PRIMS:
                full = t if "." in t or not ns else ns + "." + t
                if full in idx:
                    out.append(idx[full])
        if defs[i]["type"] == "record":
            for f in defs[i]["fields"]:
                go(f["type"])
        return out

    def visit(i):
        if i in seen:
            return
        seen.add(i)
        for j in deps(i):
            visit(j)
        order.append(i)
    visit(0)
    return order


def write_files(d, names, defs, skip=None):
    for n, df in zip(names, defs):
        if n == skip:
            continue
        with open(os.path.join(d, n + ".avsc"), "w") as f:
            json.dump(df, f)


def run(tier, seed):
    run = Run("C19", tier, seed)
    run.rule = ("random acyclic dependency graphs of 2-7 named types (records, enums, fixed; diamonds and repeated use; one to four "
                "namespaces incl. the null one; qualified and namespace-relative references; from fields, array items, map values, "
                "union branches), one type per file; load_schema vs parse_schema of the independently inlined schema (canonical form, "
                "bytes and values of generated data), load_schema_ordered dependencies first, every single file missing")
    run.lean(TARGETS, THEOREMS)
    base = tempfile.mkdtemp(prefix="c19_")
    inj_reqs, inj_meta = [], []
    try:
        for i in range(scale(tier, 350)):
            r = random.Random(seed * 19000013 + i)
            if i % 6 == 4:
                names, defs = gen_nested_name_graph(r)
            elif i % 6 == 5:
                names, defs = gen_namesake_graph(r)
            else:
                names, defs = gen_graph(r)
            used = reachable(names, defs)
            d = os.path.join(base, "g%d" % i)
            os.mkdir(d)
            write_files(d, names, defs)
            inlined = inline_first_use(names, defs)
            case = {"files": {n: df for n, df in zip(names, defs)}, "root": names[0], "tags": ["types:%d" % len(used)]}
            if i % 6 == 5:
                run.tag("namesake-null-first")
            if i % 6 == 4:
                run.tag("name-is-a-namespace-too")
            run.count(case, len(used) >= 3, ["types:%d" % len(used), "namespaces:%d" % len({n.rpartition('.')[0] for n in used})])
            run.cov["traces_validated_against_impl"] += 1
            try:
                ref = parse_schema(copy.deepcopy(inlined))
                ref_canon = to_parsing_canonical_form(ref)
            except Exception as e:  # noqa
                run.tag("reference-invalid:" + exc_class(e))
                shutil.rmtree(d, ignore_errors=True)
                continue
            try:
                loaded = load_schema(os.path.join(d, names[0] + ".avsc"))
                lc = to_parsing_canonical_form(loaded)
            except Exception as e:  # noqa
                case["error"] = repr(e)[:300]
                run.fail(case, "load_schema raises %s on a complete repository" % exc_class(e), kind="oracle")
                shutil.rmtree(d, ignore_errors=True)
                continue
            if lc != ref_canon:
                case["loaded"], case["inlined"] = lc, ref_canon
                run.fail(case, "load_schema: canonical form differs from parsing the types inlined at first use", kind="oracle")
                shutil.rmtree(d, ignore_errors=True)
                continue
            if i % 3 == 0:
                for how, cwd, path_ in (("relative", base, os.path.join("g%d" % i, names[0] + ".avsc")), ("bare-file-name", d, names[0] + ".avsc")):
                    old_cwd = os.getcwd()
                    try:
                        os.chdir(cwd)
                        lc2 = to_parsing_canonical_form(load_schema(path_))
                    except Exception as e:  # noqa
                        lc2 = "ERR:" + repr(e)[:200]
                    finally:
                        os.chdir(old_cwd)
                    run.cov["evaluations"] += 1
                    run.tag("complete:" + how)
                    if lc2 != ref_canon:
                        run.fail(dict(case, path_spelling=how, loaded=lc2, inlined=ref_canon),
                                 "load_schema with the root file's path spelled relative to the working directory differs from the inlined schema", kind="oracle")
            # same encoding of every datum
            bad = False
            for k in range(3):
                random.seed(seed * 1000 + i * 10 + k)
                try:
                    v = generate_one(ref)
                    if k > 0 and len(repr(v)) > 200000:
                        # generate_one draws ten items per array / map: one huge datum per graph is enough
                        run.tag("data:huge-skipped")
                        break
                    b1, b2 = io.BytesIO(), io.BytesIO()
                    schemaless_writer(b1, ref, v)
                    schemaless_writer(b2, loaded, v)
                    v2 = schemaless_reader(io.BytesIO(b1.getvalue()), loaded)
                    v1 = schemaless_reader(io.BytesIO(b1.getvalue()), ref)
                except Exception as e:  # noqa
                    case["error"] = repr(e)[:300]
                    run.fail(case, "the loaded schema cannot encode/decode data of the inlined schema (%s)" % exc_class(e), kind="oracle")
                    bad = True
                    break
                if b1.getvalue() != b2.getvalue() or canon(to_wire(v1)) != canon(to_wire(v2)):
                    run.fail(case, "the loaded schema encodes/decodes a datum differently from the inlined schema", kind="oracle")
                    bad = True
                    break
            if bad:
                shutil.rmtree(d, ignore_errors=True)
                continue
            # ordered loading: dependencies first
            order = topo(names, defs, used)
            try:
                lo = load_schema_ordered([os.path.join(d, names[j] + ".avsc") for j in order])
                loc = to_parsing_canonical_form(lo)
                run.cov["evaluations"] += 1
                run.tag("ordered")
                if loc != ref_canon:
                    case["ordered"], case["inlined"], case["order"] = loc, ref_canon, [names[j] for j in order]
                    run.fail(dict(case, tags=case["tags"] + ["ordered"]), "load_schema_ordered: canonical form differs from the inlined schema", kind="oracle")
            except Exception as e:  # noqa
                case["error"], case["order"] = repr(e)[:300], [names[j] for j in order]
                run.fail(dict(case, tags=case["tags"] + ["ordered"]), "load_schema_ordered raises %s with dependencies listed first" % exc_class(e), kind="oracle")
            # any one file missing
            for miss in used[1:]:
                d2 = d + "_m"
                os.mkdir(d2)
                write_files(d2, names, defs, skip=miss)
                run.cov["evaluations"] += 1
                run.tag("missing-file")
                # the path of the root file spelled three ways: absolute, relative to the parent directory, a bare file name
                # with the repository as the working directory
                spellings = [("absolute", None, os.path.join(d2, names[0] + ".avsc"))]
                if i % 2 == 0:
                    spellings += [("relative", os.path.dirname(d2), os.path.join(os.path.basename(d2), names[0] + ".avsc")),
                                  ("bare-file-name", d2, names[0] + ".avsc")]
                for how, cwd, path_ in spellings:
                    old_cwd = os.getcwd()
                    try:
                        if cwd:
                            os.chdir(cwd)
                        load_schema(path_)
                        run.fail(dict(case, missing=miss, path_spelling=how, tags=case["tags"] + ["missing"]),
                                 "load_schema succeeds although a needed file is missing", kind="oracle")
                    except Exception as e:  # noqa
                        msg = str(e)
                        if miss not in msg and miss.rpartition(".")[2] not in msg:
                            run.fail(dict(case, missing=miss, path_spelling=how, error=repr(e)[:300], tags=case["tags"] + ["missing"]),
                                     "the error for a missing file does not name the missing type", kind="oracle")
                    finally:
                        os.chdir(old_cwd)
                    run.tag("missing-file:" + how)
                shutil.rmtree(d2, ignore_errors=True)
            # model: _inject_schema on (outer = root definition, inner = each directly needed definition)
            for n, df in zip(names[1:], defs[1:]):
                if n in used and len(inj_reqs) < scale(tier, 400):
                    inner = dict(copy.deepcopy(df), name=n)
                    inner.pop("namespace", None)
                    outer = copy.deepcopy(defs[0])
                    try:
                        got, flag = fastavro._schema_py._inject_schema(copy.deepcopy(outer), copy.deepcopy(inner))
                    except Exception:
                        continue
                    inj_reqs.append({"op": "inject", "outer": to_wire(outer), "inner": to_wire(inner)})
                    inj_meta.append((case, got, flag))
            shutil.rmtree(d, ignore_errors=True)
    finally:
        shutil.rmtree(base, ignore_errors=True)
    res = run_batch(inj_reqs) if inj_reqs else []
    for (case, got, flag), m in zip(inj_meta, res):
        if "ok" not in m or canon(m["ok"]) != canon(to_wire(got)) or bool(m.get("injected")) != bool(flag):
            run.fail(dict(case, impl=[to_wire(got), flag], model=m), "correspondence: _inject_schema differs between implementation and model",
                     kind="correspondence")
    return run.finish()
