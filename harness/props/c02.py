"""C02 — encoder output is byte-for-byte the specification's encoding (DESIGN §5 C02)."""
import gen
import impl
from core import Run
from driver import run_batch
from wire import to_wire
from props.common import scale, depth_of, schema_tags, same, load_corpus
from props.c01 import gen_cases

THEOREMS = ["c02_encodeLong_eq_spec", "c02_bytes", "c02_little_endian"]
TARGETS = ["Properties.TablesCodec", "Properties.C02"]

BOUNDARY_LONGS = sorted(set([s * (2 ** (7 * k - 1)) + d for k in range(1, 10) for s in (1, -1) for d in (-2, -1, 0, 1, 2)] +
                            [2 ** 31 - 1, -2 ** 31, 2 ** 63 - 1, -2 ** 63, 0, 1, -1, 2 ** 32, -2 ** 32]))


def boundary_cases():
    """per-primitive exhaustive boundary tables"""
    out = []
    for n in BOUNDARY_LONGS:
        if -2 ** 63 <= n < 2 ** 63:
            out.append(("long", [n], {}, False))
        if -2 ** 31 <= n < 2 ** 31:
            out.append(("int", [n], {}, False))
            out.append(({"type": "array", "items": "int"}, [[n, n]], {}, False))
    for L in [0, 1, 63, 64, 65, 127, 128, 8191, 8192, 8193, 16383, 16384]:
        out.append(("bytes", [b"\x07" * L], {}, False))
        out.append(("string", ["a" * L], {}, False))
        out.append(({"type": "array", "items": "null"}, [[None] * L], {}, False))
        out.append(({"type": "map", "values": "boolean"}, [{"k%d" % i: True for i in range(L)}], {}, False))
    nb = 70
    big_union = ["null"] + [{"type": "fixed", "name": "Fx%d" % i, "size": 1} for i in range(nb)]
    for i in (0, 1, 62, 63, 64, 65, nb - 1):
        out.append((big_union, [("Fx%d" % i, bytes([i]))], {}, False))
    big_enum = {"type": "enum", "name": "BigE", "symbols": ["S%d" % i for i in range(130)]}
    for i in (0, 63, 64, 127, 128, 129):
        out.append((big_enum, ["S%d" % i], {}, False))
    # equal values of different Python types side by side in one container of unions (1 == True == 1.0 are one dict key)
    for branches in (["boolean", "int"], ["int", "boolean"], ["long", "double"], ["double", "long"], ["boolean", "double"],
                     ["null", "float", "int"], ["boolean", "long", "double"], ["string", "int", "boolean"]):
        pool = []
        if "boolean" in branches:
            pool += [True, False]
        if "int" in branches or "long" in branches:
            pool += [1, 0, 2]
        if "float" in branches or "double" in branches:
            pool += [1.0, 0.0, 2.0]
        if "null" in branches:
            pool += [None]
        if "string" in branches:
            pool += ["1"]
        orders = [pool, pool[::-1], pool[1::2] + pool[::2]]
        for xs in orders:
            out.append(({"type": "array", "items": branches}, [list(xs)], {}, False))
            out.append(({"type": "map", "values": branches}, [{"k%d" % i: x for i, x in enumerate(xs)}], {}, False))
            out.append(({"type": "record", "name": "EqMix", "fields": [{"name": "a", "type": {"type": "array", "items": branches}},
                                                                        {"name": "u", "type": branches}]},
                        [{"a": list(xs), "u": xs[0]}], {}, False))
    # typed arrays (array.array) of either floating type code under float and double items, alone and nested
    import array as _array
    for items in ("float", "double"):
        for code in ("f", "d"):
            arr = _array.array(code, [1.5, -2.25, 0.0, 1024.0])
            out.append(({"type": "array", "items": items}, [arr], {}, False))
            out.append(({"type": "record", "name": "Col", "fields": [{"name": "xs", "type": {"type": "array", "items": items}}, {"name": "n", "type": "int"}]},
                        [{"xs": arr, "n": 7}], {}, False))
            out.append(({"type": "map", "values": {"type": "array", "items": items}}, [{"k": arr}], {}, False))
    # (name, value) notation where two named branches share the last component of their names
    geo = {"type": "record", "name": "geo.Point", "fields": [{"name": "x", "type": "int"}, {"name": "y", "type": "int"}, {"name": "srid", "type": "int", "default": 4326}]}
    plain = {"type": "record", "name": "Point", "fields": [{"name": "x", "type": "int"}, {"name": "y", "type": "int"}]}
    ecol = {"type": "enum", "name": "ui.Color", "symbols": ["RED", "GREEN"]}
    ecol0 = {"type": "enum", "name": "Color", "symbols": ["GREEN", "RED", "BLUE"]}
    for u, vals in (([geo, plain, "null"], [("Point", {"x": 1, "y": 2}), ("geo.Point", {"x": 1, "y": 2}), None]),
                    ([plain, geo, "null"], [("Point", {"x": 1, "y": 2}), ("geo.Point", {"x": 1, "y": 2, "srid": 1})]),
                    ([ecol, ecol0], [("Color", "RED"), ("ui.Color", "RED"), ("Color", "BLUE")])):
        out.append((u, vals, {}, False))
        out.append(({"type": "array", "items": u}, [list(vals)], {}, False))
    for x in gen.F64_POOL:
        out.append(("double", [x], {}, False))
    for x in gen.F32_EXACT:
        out.append(("float", [x], {}, False))
    return out


def _zz(n):
    n = (n << 1) ^ (n >> 63)
    out = bytearray()
    while n & ~0x7F:
        out.append((n & 0x7F) | 0x80)
        n >>= 7
    out.append(n)
    return bytes(out)


def overlapping_calls(run, good, tier, seed):
    """the bytes of a datum do not depend on another schemaless_writer call being in progress:
    (A) re-entrancy — a custom logical-type writer (the documented LOGICAL_WRITERS extension point) that serialises an
    inner datum with schemaless_writer and embeds it as bytes; (B) threads, every one writing its own datum to its own
    stream.  The expected bytes are the specification encodings obtained for the same data one call at a time."""
    import copy
    import io
    import random
    import sys
    import threading
    import fastavro
    from fastavro import schemaless_writer
    from fastavro.write import LOGICAL_WRITERS
    r = random.Random(seed * 2003 + 2)
    good = [g for g in good if 0 < len(g[2]) <= 4000]
    if not good:
        return
    sample = [r.choice(good) for _ in range(scale(tier, 60))]
    holder = {}

    def envelope(data, schema, *a):
        inner_schema, inner_value = holder["inner"]
        fo = io.BytesIO()
        schemaless_writer(fo, copy.deepcopy(inner_schema), inner_value)
        return fo.getvalue()
    key = "bytes-verif-envelope"
    LOGICAL_WRITERS[key] = envelope
    try:
        outer = {"type": "record", "name": "VerifEnvelope", "fields": [
            {"name": "seq", "type": "long"}, {"name": "topic", "type": "string"},
            {"name": "body", "type": {"type": "bytes", "logicalType": "verif-envelope"}}, {"name": "tail", "type": "int"}]}
        for (s, v, sb) in sample:
            holder["inner"] = (s, v)
            seq, topic, tail = r.randint(-2 ** 40, 2 ** 40), "t/" + "x" * r.randint(0, 20), r.randint(-99, 99)
            exp = _zz(seq) + _zz(len(topic)) + topic.encode() + _zz(len(sb)) + sb + _zz(tail)
            case = {"schema": outer, "inner_schema": s, "inner_value": to_wire(v), "tags": ["nested-call"]}
            run.count(case, True, ["overlap:nested-call"])
            fo = io.BytesIO()
            try:
                schemaless_writer(fo, copy.deepcopy(outer), {"seq": seq, "topic": topic, "body": object(), "tail": tail})
                got = fo.getvalue()
            except Exception as e:  # noqa
                run.fail(case, "a writer call nested in another one (custom logical-type writer) raised %r" % (e,), kind="oracle")
                continue
            if got != exp:
                case["impl_bytes"], case["spec_bytes"] = got.hex(), exp.hex()
                run.fail(case, "bytes written differ from the specification's encoding when a second schemaless_writer call "
                               "runs inside the first (custom logical-type writer embedding a serialised datum)", kind="oracle")
    finally:
        LOGICAL_WRITERS.pop(key, None)
    # (B) threads
    old = sys.getswitchinterval()
    sys.setswitchinterval(1e-6)
    try:
        for g in range(scale(tier, 6)):
            team = [r.choice(good) for _ in range(4)]
            parsed = [fastavro.parse_schema(copy.deepcopy(s)) for s, _, _ in team]
            bad = []
            barrier = threading.Barrier(len(team))

            def work(k):
                s, v, sb = team[k]
                barrier.wait()
                for _ in range(40):
                    fo = io.BytesIO()
                    try:
                        schemaless_writer(fo, parsed[k], v)
                        got = fo.getvalue()
                    except Exception as e:  # noqa
                        bad.append((k, repr(e)))
                        return
                    if got != sb:
                        bad.append((k, got.hex()))
                        return
            ts = [threading.Thread(target=work, args=(k,)) for k in range(len(team))]
            for t in ts:
                t.start()
            for t in ts:
                t.join()
            case = {"schemas": [s for s, _, _ in team], "values": [to_wire(v) for _, v, _ in team], "tags": ["threads"]}
            run.count(case, True, ["overlap:threads"])
            if bad:
                k, what = bad[0]
                case["thread"], case["impl"], case["spec_bytes"] = k, what[:400], team[k][2].hex()[:400]
                run.fail(case, "bytes written differ from the specification's encoding when several threads write their own "
                               "data to their own streams at the same time", kind="oracle")
    finally:
        sys.setswitchinterval(old)


def run(tier, seed):
    run = Run("C02", tier, seed)
    run.rule = ("gen.py schema+datum generator plus exhaustive per-primitive boundary tables (every |n| around 2^(7k-1), "
                "lengths/counts/indices around 63/64, 8191/8192); non-trivial = depth >= 2 or boundary table; "
                "distinct by structural hash; overlapping calls: a writer call nested in a custom logical-type writer, four threads "
                "writing their own data to their own streams")
    run.lean(TARGETS, THEOREMS)
    cases = boundary_cases() + gen_cases(seed + 101, scale(tier, 1000), bytes_defaults=False, logical=False)
    # the same type names with other definitions, interleaved (stale per-name caches)
    reqs, idx = [], []
    for ci, (s, data, opts, parsed) in enumerate(cases):
        ws = to_wire(s)
        for di, v in enumerate(data):
            reqs.append({"op": "spec.enc", "schema": ws, "value": to_wire(v), "opts": opts})
            idx.append((ci, di))
    spec = run_batch(reqs)
    model = run_batch([dict(r, op="enc") for r in reqs])
    norm = run_batch([dict(r, op="normalize") for r in reqs])
    good = []
    for k, (ci, di) in enumerate(idx):
        s, data, opts, parsed = cases[ci]
        v = data[di]
        ie = impl.enc(s, v, opts, parsed=parsed)
        case = {"schema": s, "value": to_wire(v), "opts": opts, "parsed_schema": parsed}
        tags = sorted(schema_tags(s))
        inside = "ok" in norm[k] and "bytes" in model[k]
        run.count(case, depth_of(s) >= 2 or ci < 400, tags + ["guard:" + ("inside" if inside else "outside")])
        run.cov["traces_validated_against_impl"] += 1
        if inside:
            sp = spec[k]
            if "bytes" not in ie:
                run.fail(case, "writer rejected a conforming datum: %s" % ie, kind="oracle")
            elif sp.get("bytes") != ie["bytes"]:
                case["impl_bytes"], case["spec_bytes"] = ie["bytes"], sp.get("bytes")
                run.fail(case, "bytes written differ from the specification's encoding", kind="oracle")
            elif not opts and depth_of(s) >= 2:
                good.append((s, v, bytes.fromhex(sp["bytes"])))
        elif not same(ie, model[k]):
            case["impl"], case["model"] = ie, model[k]
            run.fail(case, "correspondence: enc differs between implementation and model (outside the guard)",
                     kind="correspondence")
    overlapping_calls(run, good, tier, seed)
    return run.finish()
