"""Input / output stream kinds the public API must work on (used by several checks):
the property statements speak of "streams", not of BytesIO."""
import io


class ReadOnly:
    """offers read() only"""
    kind = "read-only-object"

    def __init__(self, data):
        self._fo = io.BytesIO(data)

    def read(self, n=-1):
        return self._fo.read(n)

    def consumed(self):
        return self._fo.tell()


class RawForward(io.RawIOBase):
    """an unbuffered, forward-only io stream (a pipe, a socket file): readable, not seekable; every call delivers at
    most `chunk` bytes (short reads are legal for raw streams)"""
    kind = "raw-forward-only"

    def __init__(self, data, chunk=None):
        super().__init__()
        self._data, self._pos, self._chunk = bytes(data), 0, chunk

    def readable(self):
        return True

    def seekable(self):
        return False

    def readinto(self, b):
        n = len(b) if self._chunk is None else min(len(b), self._chunk)
        part = self._data[self._pos:self._pos + n]
        b[:len(part)] = part
        self._pos += len(part)
        return len(part)

    def consumed(self):
        return self._pos


def input_kinds(data):
    """(kind, stream, consumed()) for every way of presenting `data` as an input stream; consumed() is None when
    read-ahead makes the position meaningless"""
    bio = io.BytesIO(data)
    yield "BytesIO", bio, bio.tell
    ro = ReadOnly(data)
    yield ReadOnly.kind, ro, ro.consumed
    raw = RawForward(data)
    yield RawForward.kind, raw, raw.consumed
    raw2 = RawForward(data)
    yield "buffered-over-forward-only", io.BufferedReader(raw2), None
    # buffered readers whose internal buffer is shorter than a value: peek() returns what is left of the buffer, a
    # read that crosses a buffer refill is served in two pieces
    yield "buffered-seekable-5-byte-buffer", io.BufferedReader(io.BytesIO(data), buffer_size=5), None
    yield "buffered-over-forward-only-3-byte-buffer", io.BufferedReader(RawForward(data, chunk=2), buffer_size=3), None
    import tempfile
    tf = tempfile.TemporaryFile("w+b", buffering=7)
    try:
        tf.write(data)
        tf.seek(0)
        yield "real-file-7-byte-buffer", tf, None
    finally:
        tf.close()
