"""C15 — the JSON codec emits the specification's JSON encoding, round-trips, agrees with binary
(DESIGN §5 C15).  Oracle: Spec.jsonEncode (lean/Spec/JsonEnc.lean, written from the specification) with
the documented branch-choice rule; correspondence partner: Json.encode / Json.decode (lean/Model/Json.lean)."""
import copy
import io
import json
import math

import fastavro
from fastavro import json_reader, json_writer, schemaless_reader, schemaless_writer

import gen
from core import Run
from driver import run_batch, run_one
from wire import to_wire, from_wire, canon, exc_class
from props.common import scale, depth_of, schema_tags, load_corpus

THEOREMS = ["c15_encode_eq_spec", "c15_core_is_spec", "c15_bytes_strings", "c15_read_back", "c15_machine_value",
            "c15_machine_json_writer", "c15_machine_emits_spec", "c15_machine_counterexample_empty_list",
            "c15_machine_counterexample_zero_fields", "c15_machine_counterexample_depth3",
            "c15_machine_json_reader", "c15_machine_reads_spec", "c15_machine_round_trip",
            "c15_machine_counterexample_map_of_nested_records"]
TARGETS = ["Properties.C15"]


def impl_json(s, records, wut=True):
    so = io.StringIO()
    try:
        json_writer(so, copy.deepcopy(s), records, write_union_type=wut)
    except RecursionError:
        return {"err": "fuel"}
    except Exception as e:  # noqa
        return {"err": exc_class(e), "msg": repr(e)[:120]}
    return {"text": so.getvalue()}


def impl_read(s, text):
    try:
        return {"ok": [to_wire(x) for x in json_reader(io.StringIO(text), copy.deepcopy(s))]}
    except RecursionError:
        return {"err": "fuel"}
    except Exception as e:  # noqa
        return {"err": exc_class(e), "msg": repr(e)[:120]}


def by_value(j):
    """wire tree with numbers compared by value (1 == 1.0) and dict entries sorted"""
    if isinstance(j, dict):
        if "i" in j:
            return ("num", float(int(j["i"])) if abs(int(j["i"])) < 2 ** 53 else int(j["i"]))
        if "f" in j:
            if j["f"] == "nan":
                return ("num", "nan")
            import struct
            x = struct.unpack(">d", bytes.fromhex("%016x" % int(j["f"], 16)))[0]
            if x != x:
                return ("num", "nan")
            return ("num", int(x) if x == int(x) and abs(x) >= 2 ** 53 else x) if not math.isinf(x) else ("num", repr(x))
        if "l" in j:
            return ("l", [by_value(x) for x in j["l"]])
        if "t" in j:
            return ("l", [by_value(x) for x in j["t"]])
        if "d" in j:
            return ("d", sorted(((by_value(k), by_value(v)) for k, v in j["d"]), key=repr))
        if "b" in j:
            return ("b", j["b"])
        if "s" in j:
            return ("s", j["s"])
    return j


def schema_risks(s):
    """tags for the schema shapes on which the grammar machine of fastavro/io/parser.py is known to derail"""
    tags = set()
    try:
        named = {}
        fastavro.parse_schema(copy.deepcopy(s), named)
    except Exception:
        named = {}

    def deref(n):
        return named.get(n, n) if isinstance(n, str) else n

    def ends_with_record(rec, depth=0):
        """the record's last field is itself a record"""
        rec = deref(rec)
        if not isinstance(rec, dict) or rec.get("type") != "record" or not rec.get("fields") or depth > 20:
            return False
        last = deref(rec["fields"][-1]["type"])
        if isinstance(last, list):      # a union one of whose branches is a record closes the same way
            return any(isinstance(deref(b), dict) and deref(b).get("type") == "record" for b in last)
        return isinstance(last, dict) and last.get("type") == "record"

    # `schema_name in field["type"]` of Parser._process_record, evaluated as Python does
    for full, d in named.items():
        if isinstance(d, dict) and d.get("type") == "record":
            for f in d.get("fields", []):
                try:
                    if full in f["type"]:
                        tags.add("record-name-in-field-type")
                except TypeError:
                    pass

    def go(n, inside):
        if isinstance(n, list):
            for b in n:
                go(b, inside)
        elif isinstance(n, str):
            if n not in gen.PRIMS:
                tags.add("named-type-used-twice")
                full = n
                if any(full == x or full.endswith("." + x) or x.endswith("." + full) for x in inside):
                    tags.add("recursive")
        elif isinstance(n, dict):
            t = n.get("type")
            if t == "record":
                if not n.get("fields"):
                    tags.add("zero-field-record")
                nm = n.get("name", "")
                for f in n.get("fields", []):
                    go(f["type"], inside | {nm, nm.rpartition(".")[2]})
            elif t == "array":
                go(n["items"], inside)
            elif t == "map":
                vals = deref(n["values"])
                if any(ends_with_record(b) for b in (vals if isinstance(vals, list) else [vals])):
                    tags.add("map-value-record-ends-with-record")
                go(n["values"], inside)
    go(s, frozenset())
    return tags


def number_risks(s, v):
    """datum/schema combinations where the JSON path keeps a number the binary path rounds (finding F14)"""
    import struct
    txt = json.dumps(s)
    out = set()

    def go(x):
        if isinstance(x, bool):
            return
        if isinstance(x, int):
            if abs(x) > 2 ** 24 and '"float"' in txt or abs(x) > 2 ** 53 and '"double"' in txt:
                out.add("int-in-floating")
        elif isinstance(x, float):
            if '"float"' in txt and x == x and not math.isinf(x):
                try:
                    if struct.unpack("<f", struct.pack("<f", x))[0] != x:
                        out.add("float-unrounded")
                except OverflowError:
                    out.add("float-unrounded")
        elif isinstance(x, dict):
            for y in x.values():
                go(y)
        elif isinstance(x, (list, tuple)):
            for y in x:
                go(y)
    go(v)
    return out


def holds_union_member(s, t):
    """the type is a record / array / map that holds a union-typed member at some depth (finding F27: such a
    default is in the specification's unwrapped form but is decoded as if its unions were wrapped)"""
    try:
        named = {}
        fastavro.parse_schema(copy.deepcopy(s), named)
    except Exception:
        named = {}
    seen = set()

    def inner(n, top):
        if isinstance(n, str):
            if n in named and n not in seen:
                seen.add(n)
                return inner(named[n], top)
            return False
        if isinstance(n, list):
            return (not top) or any(inner(b, False) for b in n)
        if isinstance(n, dict):
            ty = n.get("type")
            if ty == "record":
                return any(inner(f["type"], False) for f in n.get("fields", []))
            if ty == "array":
                return inner(n["items"], False)
            if ty == "map":
                return inner(n["values"], False)
            if isinstance(ty, (dict, list)):
                return inner(ty, top)
        return False
    return inner(t, True)


def spec_default(named, t, d, ns=""):
    """the value a field of type `t` takes from its JSON default `d`, per the specification: bytes and fixed from
    code points, a union through its first branch, records / arrays / maps member by member; a by-name reference is
    resolved in the namespace in effect (`ns`), like every reference"""
    if isinstance(t, str):
        cands = [t] if "." in t else (([ns + "." + t] if ns else []) + [t])
        for c in cands:
            if c in named:
                return spec_default(named, named[c], d, ns)
        if t == "bytes":
            return d.encode("iso-8859-1")
        return d
    if isinstance(t, list):
        return spec_default(named, t[0], d, ns)
    ty = t.get("type")
    if ty in ("record", "error"):
        nm = t.get("name", "")
        if "." in nm:
            ns2 = nm.rpartition(".")[0]
        else:
            ns2 = t.get("namespace", ns) or ""
        out = {}
        for f in t["fields"]:
            if f["name"] in d:
                out[f["name"]] = spec_default(named, f["type"], d[f["name"]], ns2)
            else:
                out[f["name"]] = spec_default(named, f["type"], f["default"], ns2)
        return out
    if ty == "array":
        return [spec_default(named, t["items"], x, ns) for x in d]
    if ty == "map":
        return {k: spec_default(named, t["values"], x, ns) for k, x in d.items()}
    if ty in ("fixed", "bytes"):
        return d.encode("iso-8859-1")
    if isinstance(ty, (dict, list)):
        return spec_default(named, ty, d, ns)
    return d


def has_empty_key(v):
    if isinstance(v, dict):
        return any(k == "" or has_empty_key(x) for k, x in v.items())
    if isinstance(v, (list, tuple)):
        return any(has_empty_key(x) for x in v)
    return False


def _docs_of(text):
    return [json.loads(l) for l in text.split("\n")] if text else []


def _same_outcome(impl, model, impl_val):
    """implementation and machine model agree: same values, or both raise (class not compared)"""
    if "err" in impl or "perr" in impl:
        return "ok" not in model
    return "ok" in model and by_value(canon(model["ok"])) == by_value(canon(impl_val))


def _del_random_key(r, doc):
    doc = copy.deepcopy(doc)
    spots = []

    def walk(x):
        if isinstance(x, dict):
            for k in list(x):
                spots.append((x, k))
                walk(x[k])
        elif isinstance(x, list):
            for y in x:
                walk(y)
    walk(doc)
    if not spots:
        return None
    d, k = r.choice(spots)
    del d[k]
    return doc


def agrees_enc(s, records, wut, it):
    """the machine model (which reproduces the known derailments of the grammar machine) does exactly what
    json_writer did on this input — required before a failure is attributed to a recorded finding"""
    mo = run_one({"op": "jm.enc", "schema": to_wire(s), "values": to_wire(list(records)), "nowut": not wut})
    if "text" in it:
        try:
            return _same_outcome({}, mo, to_wire(_docs_of(it["text"])))
        except Exception:
            return False
    return "ok" not in mo


def agrees_dec(s, docs, back):
    mo = run_one({"op": "jm.dec", "schema": to_wire(s), "docs": to_wire(docs)})
    return _same_outcome(back, mo, {"l": back.get("ok", [])})


def mtag(flag):
    return ["machine-agrees"] if flag else ["machine-differs"]


def corpus_cases(run):
    """minimised past failures (fixed findings): text -> records, schema argument left intact; run first"""
    for name, c in load_corpus("C15"):
        s = copy.deepcopy(c["schema"])
        case = {"schema": c["schema"], "text": c["text"], "tags": ["corpus", name]}
        run.count(case, True, ["corpus"])
        try:
            got = [to_wire(x) for x in json_reader(io.StringIO(c["text"]), s)]
        except Exception as e:  # noqa
            run.fail(dict(case, got={"err": exc_class(e), "msg": repr(e)[:120]}), "corpus %s (%s): json_reader raised" % (name, c.get("finding")), kind="oracle")
            continue
        if by_value(canon({"l": got})) != by_value(canon({"l": [to_wire(x) for x in c["expect"]]})):
            run.fail(dict(case, got=got), "corpus %s (%s): a field absent from the JSON text does not take its schema default" % (name, c.get("finding")), kind="oracle")
        elif s != c["schema"]:
            run.fail(dict(case, after=s), "corpus %s (%s): json_reader changed the caller's schema" % (name, c.get("finding")), kind="oracle")
        mo = run_batch([{"op": "jm.dec", "schema": to_wire(c["schema"]), "docs": to_wire(_docs_of(c["text"]))}])[0]
        if "ok" not in mo or by_value(canon(mo["ok"])) != by_value(canon({"l": got})):
            run.fail(dict(case, model=mo, got=got), "correspondence: machine model differs from json_reader", kind="correspondence")


def machine_correspondence(run, tier, seed):
    """JM.encodeAll / JM.decodeAll (lean/Model/JsonMachine.lean: the grammar machine of io/parser.py with the
    encoder's and decoder's state) against json_writer / json_reader on record LISTS (pending actions and the
    Root symbol carry over from one record to the next), on every schema of the generator — including the
    shapes on which the machine derails (the model derails in the same way) — and on texts with keys removed."""
    import random
    n = scale(tier, 500)
    cases = []
    for i in range(n):
        g = gen.Gen(seed * 15000029 + i, logical=False, bytes_defaults=False, hints=(i % 4 == 0), tuple_seq=False, big=False,
                    recursion=(i % 3 == 0), zero_field=(i % 2 == 0))
        try:
            s, ctx = g.top_schema()
            data = [g.datum(s, ctx) for _ in range(1 + i % 3)]
        except Exception:
            continue
        cases.append((s, data, i))
    enc = run_batch([{"op": "jm.enc", "schema": to_wire(s), "values": to_wire(list(d)), "nowut": (i % 7 == 3)} for s, d, i in cases])
    dreqs, dmeta = [], []
    for (s, data, i), mo in zip(cases, enc):
        it = impl_json(s, data, wut=(i % 7 != 3))
        case = {"schema": s, "values": to_wire(list(data)), "tags": ["machine", "records:%d" % len(data)] + sorted(schema_risks(s))}
        run.count(case, depth_of(s) >= 2, ["machine:enc"])
        run.cov["traces_validated_against_impl"] += 1
        docs = None
        if "text" in it:
            try:
                docs = _docs_of(it["text"])
            except Exception:
                docs = None
        if "text" in it and docs is None:
            run.tag("machine:impl-text-unparseable")
            if "ok" in mo:
                run.fail(dict(case, text=it["text"][:300], model=mo), "correspondence: machine model differs from json_writer", kind="correspondence")
            continue
        if not _same_outcome(it if "text" not in it else {}, mo, to_wire(docs) if docs is not None else None):
            run.fail(dict(case, impl=(it if "text" not in it else it["text"][:400]), model=mo),
                     "correspondence: machine model differs from json_writer", kind="correspondence")
            continue
        run.tag("machine:enc-" + ("ok" if "text" in it else "raises"))
        if docs is None or i % 7 == 3:
            continue
        r = random.Random(seed * 31 + i)
        variants = [docs]
        if docs and r.random() < 0.7:
            d2 = [(_del_random_key(r, d) or d) if r.random() < 0.8 else d for d in docs]
            variants.append(d2)
        for dv in variants:
            dreqs.append({"op": "jm.dec", "schema": to_wire(s), "docs": to_wire(dv)})
            dmeta.append((case, s, dv))
    res = run_batch(dreqs) if dreqs else []
    for (case, s, dv), mo in zip(dmeta, res):
        back = impl_read(s, "\n".join(json.dumps(d) for d in dv))
        run.cov["evaluations"] += 1
        if not _same_outcome(back, mo, {"l": back.get("ok", [])}):
            run.fail(dict(case, docs=dv, impl=back, model=mo, tags=case["tags"] + ["machine-dec"]),
                     "correspondence: machine model differs from json_reader", kind="correspondence")
        else:
            run.tag("machine:dec-" + ("ok" if "ok" in back else "raises"))


DEFAULT_FIELDS = [
    ("i", "int", 7), ("s", "string", "dflt"), ("b", "bytes", "\\u00ff\\u0000"), ("d", "double", 1.5),
    ("xs", {"type": "array", "items": "int"}, [1, 2, 3]), ("m", {"type": "map", "values": "long"}, {"k": 1, "l": 2}),
    ("e", {"type": "enum", "name": "E0", "symbols": ["A", "B"]}, "B"), ("e2", "E0", "A"),
    ("f", {"type": "fixed", "name": "F0", "size": 2}, "ab"), ("f2", "F0", "cd"), ("f3", "F0", "ef"),
    ("e3", "E0", "B"), ("r3", "Sub", {"x": 5, "ys": ["q"]}),
    ("r", {"type": "record", "name": "Sub", "fields": [{"name": "x", "type": "int"}, {"name": "ys", "type": {"type": "array", "items": "string"}}]},
     {"x": 1, "ys": ["p", "q"]}),
    ("r2", "Sub", {"x": 2, "ys": []}),
    ("u", ["null", "int"], None), ("u2", ["int", "null"], 5), ("u3", [{"type": "array", "items": "int"}, "null"], [4, 5]),
    ("u4", ["Sub", "null"], {"x": 3, "ys": ["z"]}),
    ("n", "null", None), ("t", "boolean", True),
    ("mm", {"type": "map", "values": {"type": "array", "items": "int"}}, {"a": [1], "b": []}),
]


def empty_list_family(run, tier, seed):
    """json_writer with NO records: nothing is written and nothing is raised (finding F33 on the unchanged tree:
    'Internal Parser Exception' because the start symbol is still folded on the parser stack at flush)"""
    for i in range(scale(tier, 12)):
        g = gen.Gen(seed * 15000031 + i, logical=False, bytes_defaults=False, hints=False, tuple_seq=False, big=False,
                    recursion=False, zero_field=False)
        try:
            s, ctx = g.top_schema()
        except Exception:
            continue
        it = impl_json(s, [])
        case = {"schema": s, "values": {"l": []}, "tags": ["empty-record-list"]}
        run.count(case, True, ["empty-record-list"])
        if "text" not in it or it["text"] != "":
            run.fail(dict(case, impl=it, tags=case["tags"] + mtag(agrees_enc(s, [], True, it))),
                     "json_writer with an empty record list: raised %s / wrote %r" % (it.get("err"), it.get("text", "")[:40]), kind="oracle")


def big_output_family(run, tier, seed):
    """one json_writer call producing far more than 64 KiB of text (many small records; a few huge ones): still one
    document per line, every line the record's encoding, and json_reader returns the records"""
    import random
    for i in range(scale(tier, 3)):
        r = random.Random(seed * 5 + i)
        s = {"type": "record", "name": "Row", "fields": [{"name": "id", "type": "long"}, {"name": "name", "type": "string"},
                                                          {"name": "tags", "type": {"type": "array", "items": "string"}},
                                                          {"name": "blob", "type": "bytes"}]}
        if i % 3 == 0:
            recs = [{"id": j, "name": "n%d" % j, "tags": ["t"] * (j % 4), "blob": bytes([j % 256])} for j in range(1500)]
        elif i % 3 == 1:
            recs = [{"id": j, "name": "x" * 30000, "tags": [], "blob": b""} for j in range(4)]
        else:
            recs = [{"id": j, "name": "", "tags": [], "blob": bytes(r.getrandbits(8) for _ in range(40000))} for j in range(3)]
        it = impl_json(s, recs)
        case = {"schema": s, "n_records": len(recs), "tags": ["big-output"]}
        run.count(case, True, ["big-output"])
        if "text" not in it:
            run.fail(dict(case, impl=it), "json_writer raised on a long record list: %s" % it.get("err"), kind="oracle")
            continue
        lines = it["text"].split("\n")
        ok = len(lines) == len(recs)
        if ok:
            try:
                for rec, line in zip(recs, lines):
                    d = json.loads(line)
                    if d["id"] != rec["id"] or d["name"] != rec["name"] or d["blob"] != rec["blob"].decode("iso-8859-1") or d["tags"] != rec["tags"]:
                        ok = False
                        break
            except Exception:
                ok = False
        if not ok:
            run.fail(dict(case, text_len=len(it["text"]), n_lines=len(lines)), "json_writer output is not one JSON document per record", kind="oracle")
            continue
        back = impl_read(s, it["text"])
        if "ok" not in back or [from_wire(x) for x in back["ok"]] != recs:
            run.fail(dict(case, back=str(back)[:200]), "json_reader does not return the written record", kind="oracle")


def positioned_stream_family(run, tier, seed):
    """the text stream is handed over wherever it happens to be positioned: json_writer appends its documents after what
    is already there (a title line), json_reader reads from the position it is given (the caller has consumed a schema
    line, comments, or the first documents) — on seekable and on forward-only text streams"""
    import random
    r = random.Random(seed * 15 + 3)
    schemas = [
        ({"type": "record", "name": "Row", "fields": [{"name": "id", "type": "long"}, {"name": "name", "type": "string"}]},
         [{"id": i, "name": "n%d" % i} for i in range(4)]),
        ({"type": "map", "values": "int"}, [{"a": 1}, {"b": 2, "c": 3}, {}]),
        ({"type": "array", "items": ["null", "string"]}, [["x", None], [], ["y"]]),
        ("string", ["a", "b", "c"]),
    ]

    class ForwardOnly(io.TextIOBase):
        def __init__(self, text):
            self._s = io.StringIO(text)

        def readable(self):
            return True

        def seekable(self):
            return False

        def read(self, n=-1):
            return self._s.read(n)

        def readline(self, n=-1):
            return self._s.readline(n)

        def __iter__(self):
            return self

        def __next__(self):
            line = self._s.readline()
            if not line:
                raise StopIteration
            return line

    for s, recs in schemas:
        it = impl_json(s, recs)
        if "text" not in it:
            continue
        text = it["text"] + "\n"
        base = impl_read(s, text)
        preambles = ["# exported 2024\n", json.dumps(s) + "\n", "# a\n# b\n\n".replace("\n\n", "\n")]
        for pre in preambles:
            for skip_docs in (0, 1):
                for kind in ("seekable", "forward-only"):
                    case = {"schema": s, "n_records": len(recs), "preamble": pre, "documents_consumed_first": skip_docs, "stream": kind,
                            "tags": ["positioned-stream", kind]}
                    run.count(case, True, ["positioned-stream:" + kind])
                    fo = io.StringIO(pre + text) if kind == "seekable" else ForwardOnly(pre + text)
                    for _ in range(pre.count("\n") + skip_docs):
                        fo.readline()
                    try:
                        got = [canon(to_wire(x)) for x in fastavro.json_reader(fo, copy.deepcopy(s))]
                    except Exception as e:  # noqa
                        got = "ERR:" + exc_class(e)
                    want = [canon(x) for x in base["ok"][skip_docs:]] if "ok" in base else None
                    if want is not None and got != want:
                        case["got"], case["expected"] = got if isinstance(got, str) else len(got), len(want)
                        run.fail(case, "json_reader does not return the written record when the stream is handed over at a position other "
                                       "than its start", kind="oracle")
        # writer: after a title
        out = io.StringIO()
        out.write("title line\n")
        try:
            fastavro.json_writer(out, copy.deepcopy(s), recs)
            ok = out.getvalue() == "title line\n" + it["text"]
        except Exception as e:  # noqa
            ok = False
        run.count({"schema": s, "tags": ["positioned-stream", "writer"]}, True, ["positioned-stream:writer"])
        if not ok:
            run.fail({"schema": s, "n_records": len(recs), "got": out.getvalue()[:200], "tags": ["positioned-stream", "writer"]},
                     "json_writer on a stream that already holds text does not append exactly its documents", kind="oracle")


def defaults_family(run, tier, seed):
    """a field absent from the JSON text takes its schema default — for every kind of field type (containers,
    named types by reference, unions), in the first and in later records of one text, and the caller's schema is
    left as it was.  Expected value: the specification's reading of the default (spec_default)."""
    import random
    n = scale(tier, 120)
    for i in range(n):
        r = random.Random(seed * 77 + i)
        k = r.randint(2, 6)
        picked = []
        names = set()
        pool = list(DEFAULT_FIELDS)
        r.shuffle(pool)
        for name, ty, dflt in pool:
            if len(picked) >= k:
                break
            picked.append((name, ty, dflt))
        # a by-name use brings its definition along
        need = {"E0": "e", "F0": "f", "Sub": "r"}
        for name, ty, dflt in list(picked):
            dep = need.get(ty if isinstance(ty, str) else (ty[0] if isinstance(ty, list) and isinstance(ty[0], str) else None))
            if dep and dep not in {f[0] for f in picked}:
                picked.append(next(f for f in DEFAULT_FIELDS if f[0] == dep))
        # definitions must precede by-name uses: put definitions first
        order = {"e": 0, "f": 0, "r": 0}
        picked.sort(key=lambda f: order.get(f[0], 1))
        have = {f[0] for f in picked}
        fields = [{"name": "id", "type": "int"}]
        ok = True
        for name, ty, dflt in picked:
            if ty == "E0" and "e" not in have or ty == "F0" and "f" not in have or (ty == "Sub" or ty == ["Sub", "null"]) and "r" not in have:
                ok = False
            fields.append({"name": name, "type": copy.deepcopy(ty), "default": copy.deepcopy(dflt)})
        if not ok:
            continue
        s = {"type": "record", "name": "Top", "fields": fields}
        nrec = r.randint(1, 3)
        recs = []
        for j in range(nrec):
            recs.append({"id": j})        # every defaulted field omitted
        before = copy.deepcopy(s)
        # expected: the specification's reading of the defaults
        named = {}
        fastavro.parse_schema(copy.deepcopy(s), named)
        exp = []
        for rec in recs:
            full = dict(rec)
            for f in s["fields"][1:]:
                full[f["name"]] = spec_default(named, f["type"], f["default"])
            exp.append(to_wire(full))
        text = "\n".join(json.dumps(rec) for rec in recs)
        case = {"schema": before, "text": text, "tags": ["absent-field", "defaults-family"] + sorted(f[0] for f in picked)}
        run.count(case, True, ["defaults-family"])
        try:
            ps = fastavro.parse_schema(s)
            got = {"ok": [to_wire(x) for x in json_reader(io.StringIO(text), ps)]}
        except Exception as e:  # noqa
            got = {"err": exc_class(e), "msg": repr(e)[:120]}
        if "ok" not in got or by_value(canon({"l": got["ok"]})) != by_value(canon({"l": exp})):
            run.fail(dict(case, got=got, expected=exp), "a field absent from the JSON text does not take its schema default", kind="oracle")
            continue
        if s != before:
            run.fail(dict(case, after=s), "json_reader changed the caller's schema (defaults consumed)", kind="oracle")


def namesake_union_family(run, tier, seed):
    """unions whose branches share a label's last component: a named type without a namespace beside ns.<same name>, and an
    unnamed branch ("map", "long", "array") beside a named type called ns.map / ns.long / ns.array — in both orders, at the
    top level and inside arrays, maps and record fields.  Reference: the binary round trip of the same data."""
    def rec(name, fields):
        return {"type": "record", "name": name, "fields": [{"name": f, "type": "int"} for f in fields]}
    groups = [
        ([rec("Point", ["lo", "hi"]), rec("geo.Point", ["lo"])], [("Point", {"lo": 1, "hi": 2}), ("geo.Point", {"lo": 3})]),
        ([rec("geo.Point", ["lo"]), rec("Point", ["lo", "hi"])], [("Point", {"lo": 1, "hi": 2}), ("geo.Point", {"lo": 3})]),
        ([rec("Point", ["lo"]), rec("geo.Point", ["lo", "hi"]), rec("a.b.Point", ["z"])],
         [("Point", {"lo": 1}), ("geo.Point", {"lo": 3, "hi": 4}), ("a.b.Point", {"z": 5})]),
        ([{"type": "enum", "name": "Color", "symbols": ["RED", "GREEN"]}, {"type": "enum", "name": "paint.Color", "symbols": ["BLUE"]}],
         [("Color", "RED"), ("paint.Color", "BLUE"), ("Color", "GREEN")]),
        ([{"type": "fixed", "name": "Id", "size": 2}, {"type": "fixed", "name": "k.Id", "size": 3}], [("Id", b"ab"), ("k.Id", b"abc")]),
        ([{"type": "map", "values": "int"}, rec("x.map", ["a"])], [{"k": 1}, ("x.map", {"a": 2})]),
        ([rec("x.map", ["a"]), {"type": "map", "values": "int"}], [{"k": 1}, ("x.map", {"a": 2})]),
        (["long", rec("n.long", ["a"])], [7, ("n.long", {"a": 2})]),
        ([{"type": "array", "items": "int"}, {"type": "enum", "name": "q.array", "symbols": ["A"]}], [[1, 2], ("q.array", "A")]),
        (["string", {"type": "enum", "name": "q.string", "symbols": ["A"]}], ["A", ("q.string", "A")]),
        (["null", rec("Point", ["lo", "hi"]), rec("geo.Point", ["lo"])], [None, ("Point", {"lo": 1, "hi": 2}), ("geo.Point", {"lo": 3})]),
    ]
    for u, data in groups:
        for place in ("top", "array", "map", "field"):
            if place == "top":
                sch, recs = u, data
            elif place == "array":
                sch, recs = {"type": "array", "items": u}, [data, list(reversed(data)), []]
            elif place == "map":
                sch, recs = {"type": "map", "values": u}, [{"k%d" % i: d for i, d in enumerate(data)}]
            else:
                sch, recs = {"type": "record", "name": "Holder", "fields": [{"name": "u", "type": u}, {"name": "n", "type": "int"}]}, \
                    [{"u": d, "n": i} for i, d in enumerate(data)]
            case = {"schema": sch, "records": to_wire(recs), "tags": ["namesake-union", place]}
            run.count(case, True, ["namesake-union:" + place])
            try:
                ref = []
                for rcd in recs:
                    bo = io.BytesIO()
                    schemaless_writer(bo, copy.deepcopy(sch), rcd)
                    ref.append(to_wire(schemaless_reader(io.BytesIO(bo.getvalue()), copy.deepcopy(sch))))
            except Exception as e:  # noqa
                run.fail(dict(case, binary="ERR:" + exc_class(e)), "binary round trip of a namesake union failed", kind="oracle")
                continue
            it = impl_json(sch, recs)
            if "text" not in it:
                run.fail(dict(case, impl=it), "conforming datum (namesake union): json_writer raised %s" % it.get("err"), kind="oracle")
                continue
            back = impl_read(sch, it["text"])
            if "ok" not in back or by_value(canon({"l": back["ok"]})) != by_value(canon({"l": ref})):
                run.fail(dict(case, text=it["text"][:300], read_back=back, binary=ref),
                         "records decoded from JSON differ from the records decoded from the binary encoding (union branches that share a last name component)",
                         kind="oracle")


def repeated_records_family(run, tier, seed):
    """the same record several times in one list (identical documents in the text), side by side and apart, the record holding
    arrays, maps and union values: every occurrence is read back whole"""
    groups = [
        ({"type": "record", "name": "Rep", "fields": [{"name": "xs", "type": {"type": "array", "items": "int"}}, {"name": "m", "type": {"type": "map", "values": "string"}},
                                                      {"name": "u", "type": ["null", "string", {"type": "array", "items": "long"}]}]},
         [{"xs": [1, 2, 3], "m": {"a": "b", "c": "d"}, "u": "s"}, {"xs": [], "m": {}, "u": None}, {"xs": [4], "m": {"k": "v"}, "u": [7, 8]}]),
        ({"type": "array", "items": ["null", "int"]}, [[1, None, 2], [], [3]]),
        ({"type": "map", "values": {"type": "array", "items": "string"}}, [{"k": ["a", "b"]}, {}, {"q": []}]),
        (["null", "string", {"type": "map", "values": "int"}], ["x", {"a": 1}, None]),
    ]
    for sch, vals in groups:
        for pattern in ([0, 0], [0, 1, 0], [0, 0, 0, 1, 1], [2, 1, 2, 1, 2], [0, 1, 2, 0, 1, 2]):
            recs = [vals[i] for i in pattern]
            case = {"schema": sch, "records": to_wire(recs), "tags": ["repeated-records"]}
            run.count(case, True, ["repeated-records"])
            for wut in (True, False):
                it = impl_json(sch, recs, wut)
                if "text" not in it:
                    run.fail(dict(case, impl=it, write_union_type=wut), "conforming data (a record repeated in the list): json_writer raised %s" % it.get("err"), kind="oracle")
                    continue
                if not wut:
                    continue          # (untagged text is not meant to be read back)
                back = impl_read(sch, it["text"])
                want = [to_wire(x) for x in recs]
                if "ok" not in back or by_value(canon({"l": back["ok"]})) != by_value(canon({"l": want})):
                    run.fail(dict(case, text=it["text"][:300], read_back=back), "a record that occurs several times in the list is not read back whole every time", kind="oracle")


def run(tier, seed):
    run = Run("C15", tier, seed)
    run.rule = ("schemas of the generator (every top-level kind, nested arrays/maps/unions/records, by-name references, "
                "recursive types, records without fields) x conforming record lists x write_union_type; the JSON text is parsed "
                "and compared by value with Spec.jsonEncode under the documented branch-choice rule; read back; compared with "
                "the binary round trip; fields deleted from the text take their defaults; non-trivial = depth >= 2")
    run.lean(TARGETS, THEOREMS)
    n = scale(tier, 900)
    cases = []
    for i in range(n):
        g = gen.Gen(seed * 15000017 + i, logical=False, bytes_defaults=False, hints=(i % 4 == 0), tuple_seq=False, big=False,
                    recursion=(i % 3 != 0), zero_field=(i % 2 == 0))
        try:
            s, ctx = g.top_schema()
            data = [g.datum(s, ctx) for _ in range(2)]
        except Exception:
            continue
        cases.append((s, data))
    reqs = []
    for s, data in cases:
        for v in data:
            reqs.append({"schema": to_wire(s), "value": to_wire(v)})
    spec = run_batch([dict(q, op="spec.json") for q in reqs])
    model = run_batch([dict(q, op="json.enc") for q in reqs])
    written = run_batch([dict(q, op="spec.written") for q in reqs])     # "the record as written" of c15_read_back
    k = 0
    dec_reqs, dec_meta = [], []
    for s, data in cases:
        risks = sorted(schema_risks(s))
        for v in data:
            sp, mo, wr = spec[k], model[k], written[k]
            k += 1
            tags = sorted(t for t in schema_tags(s) if t in ("record", "enum", "fixed", "ref", "union", "map", "array", "bytes")) + risks
            if has_empty_key(v):
                tags.append("empty-map-key")
            tags += sorted(number_risks(s, v))
            case = {"schema": s, "value": to_wire(v), "tags": tags}
            run.count(case, depth_of(s) >= 2, tags)
            run.cov["traces_validated_against_impl"] += 1
            if "ok" not in sp:
                run.tag("spec:undefined")
                continue
            it = impl_json(s, [v])
            if "text" not in it:
                case["impl"] = it
                run.fail(dict(case, tags=tags + mtag(agrees_enc(s, [v], True, it))), "conforming datum: json_writer raised %s" % it.get("err"), kind="oracle")
                continue
            try:
                doc = json.loads(it["text"])
            except Exception as e:  # noqa
                case["text"] = it["text"][:300]
                run.fail(case, "json_writer output is not one JSON document per record", kind="oracle")
                continue
            if by_value(canon(to_wire(doc))) != by_value(canon(sp["ok"])):
                case["text"], case["spec"] = it["text"][:400], sp
                run.fail(dict(case, tags=tags + mtag(agrees_enc(s, [v], True, it))), "JSON text is not the specification's JSON encoding of the datum", kind="oracle")
                continue
            if "ok" in mo and by_value(canon(mo["ok"])) != by_value(canon(to_wire(doc))):
                case["text"], case["model"] = it["text"][:400], mo
                run.fail(case, "correspondence: model JSON differs", kind="correspondence")
                continue
            # read back
            back = impl_read(s, it["text"])
            try:
                bo = io.BytesIO()
                schemaless_writer(bo, copy.deepcopy(s), v)
                binv = to_wire(schemaless_reader(io.BytesIO(bo.getvalue()), copy.deepcopy(s)))
            except Exception:
                binv = None
            if "ok" not in back or len(back["ok"]) != 1:
                case["text"], case["back"] = it["text"][:400], back
                run.fail(dict(case, tags=tags + mtag(agrees_dec(s, [doc], back))), "json_reader does not return the written record", kind="oracle")
                continue
            if "ok" in wr:
                run.tag("read-back:theorem-domain")
                if by_value(canon(back["ok"][0])) != by_value(canon(wr["ok"])):
                    case["json_value"], case["written"] = back["ok"][0], wr["ok"]
                    run.fail(dict(case, tags=tags + mtag(agrees_dec(s, [doc], back))), "json_reader does not return the record as written (Spec.written)", kind="oracle")
                    continue
            else:
                run.tag("read-back:outside-theorem-domain")
            if binv is not None and by_value(canon(back["ok"][0])) != by_value(canon(binv)):
                case["json_value"], case["binary_value"] = back["ok"][0], binv
                run.fail(dict(case, tags=tags + mtag(agrees_dec(s, [doc], back))), "record decoded from JSON differs from the one decoded from the binary encoding", kind="oracle")
                continue
            dec_reqs.append({"op": "json.dec", "schema": to_wire(s), "json": to_wire(doc)})
            dec_meta.append((case, back["ok"][0]))
            # write_union_type=False: unions are written bare
            it2 = impl_json(s, [v], wut=False)
            run.cov["evaluations"] += 1
            if "text" not in it2:
                case["impl"] = it2
                run.fail(dict(case, tags=tags + ["nowut"] + mtag(agrees_enc(s, [v], False, it2))), "conforming datum: json_writer(write_union_type=False) raised %s" % it2.get("err"), kind="oracle")
            # absent fields take their defaults (the specification's reading of the default: spec_default)
            if isinstance(s, dict) and s.get("type") == "record" and isinstance(doc, dict) and isinstance(v, dict):
                for f in s["fields"]:
                    if "default" in f and f["name"] in doc:
                        d2 = dict(doc)
                        del d2[f["name"]]
                        b2 = impl_read(s, json.dumps(d2))
                        run.cov["evaluations"] += 1
                        run.tag("absent-field")
                        try:
                            named = {}
                            fastavro.parse_schema(copy.deepcopy(s), named)
                            top = fastavro.parse_schema(copy.deepcopy(s))
                            dv = spec_default(named, f["type"], copy.deepcopy(f["default"]), top.get("name", "").rpartition(".")[0])
                        except Exception:
                            run.tag("absent-field:default-undefined")
                            break
                        exp_rec = {"d": [[k_, (to_wire(dv) if from_wire(k_) == f["name"] else x_)] for k_, x_ in back["ok"][0]["d"]]}
                        if "ok" not in b2 or by_value(canon(b2["ok"][0])) != by_value(canon(exp_rec)):
                            extra = ["absent-field"] + (["default-holds-union-member"] if holds_union_member(s, f["type"]) else [])
                            run.fail(dict(case, field=f["name"], got=b2, expected=exp_rec, tags=tags + extra + mtag(agrees_dec(s, [d2], b2))),
                                     "a field absent from the JSON text does not take its schema default", kind="oracle")
                        break
    corpus_cases(run)
    machine_correspondence(run, tier, seed)
    defaults_family(run, tier, seed)
    namesake_union_family(run, tier, seed)
    repeated_records_family(run, tier, seed)
    empty_list_family(run, tier, seed)
    big_output_family(run, tier, seed)
    positioned_stream_family(run, tier, seed)
    res = run_batch(dec_reqs) if dec_reqs else []
    for (case, back), r in zip(dec_meta, res):
        if "ok" not in r or by_value(canon(r["ok"])) != by_value(canon(back)):
            run.fail(dict(case, model=r, impl_back=back), "correspondence: model JSON decoding differs", kind="correspondence")
    return run.finish()
