"""C15 — the JSON codec emits the specification's JSON encoding, round-trips, agrees with binary
(DESIGN §5 C15).  Oracle: Spec.jsonEncode (lean/Spec/JsonEnc.lean, written from the specification) with
the documented branch-choice rule; correspondence partner: Json.encode / Json.decode (lean/Model/Json.lean)."""
import copy
import io
import json
import math

import fastavro
from fastavro import json_reader, json_writer, schemaless_reader, schemaless_writer

import gen
from core import Run
from driver import run_batch
from wire import to_wire, from_wire, canon, exc_class
from props.common import scale, depth_of, schema_tags, load_corpus

THEOREMS = ["c15_encode_eq_spec", "c15_core_is_spec", "c15_bytes_strings", "c15_read_back"]
TARGETS = ["Properties.C15"]


def impl_json(s, records, wut=True):
    so = io.StringIO()
    try:
        json_writer(so, copy.deepcopy(s), records, write_union_type=wut)
    except RecursionError:
        return {"err": "fuel"}
    except Exception as e:  # noqa
        return {"err": exc_class(e), "msg": repr(e)[:120]}
    return {"text": so.getvalue()}


def impl_read(s, text):
    try:
        return {"ok": [to_wire(x) for x in json_reader(io.StringIO(text), copy.deepcopy(s))]}
    except RecursionError:
        return {"err": "fuel"}
    except Exception as e:  # noqa
        return {"err": exc_class(e), "msg": repr(e)[:120]}


def by_value(j):
    """wire tree with numbers compared by value (1 == 1.0) and dict entries sorted"""
    if isinstance(j, dict):
        if "i" in j:
            return ("num", float(int(j["i"])) if abs(int(j["i"])) < 2 ** 53 else int(j["i"]))
        if "f" in j:
            if j["f"] == "nan":
                return ("num", "nan")
            import struct
            x = struct.unpack(">d", bytes.fromhex("%016x" % int(j["f"], 16)))[0]
            if x != x:
                return ("num", "nan")
            return ("num", int(x) if x == int(x) and abs(x) >= 2 ** 53 else x) if not math.isinf(x) else ("num", repr(x))
        if "l" in j:
            return ("l", [by_value(x) for x in j["l"]])
        if "t" in j:
            return ("l", [by_value(x) for x in j["t"]])
        if "d" in j:
            return ("d", sorted(((by_value(k), by_value(v)) for k, v in j["d"]), key=repr))
        if "b" in j:
            return ("b", j["b"])
        if "s" in j:
            return ("s", j["s"])
    return j


def schema_risks(s):
    """tags for the schema shapes on which the grammar machine of fastavro/io/parser.py is known to derail"""
    tags = set()
    try:
        named = {}
        fastavro.parse_schema(copy.deepcopy(s), named)
    except Exception:
        named = {}

    def deref(n):
        return named.get(n, n) if isinstance(n, str) else n

    def ends_with_record(rec, depth=0):
        """the record's last field is itself a record"""
        rec = deref(rec)
        if not isinstance(rec, dict) or rec.get("type") != "record" or not rec.get("fields") or depth > 20:
            return False
        last = deref(rec["fields"][-1]["type"])
        if isinstance(last, list):      # a union one of whose branches is a record closes the same way
            return any(isinstance(deref(b), dict) and deref(b).get("type") == "record" for b in last)
        return isinstance(last, dict) and last.get("type") == "record"

    # `schema_name in field["type"]` of Parser._process_record, evaluated as Python does
    for full, d in named.items():
        if isinstance(d, dict) and d.get("type") == "record":
            for f in d.get("fields", []):
                try:
                    if full in f["type"]:
                        tags.add("record-name-in-field-type")
                except TypeError:
                    pass

    def go(n, inside):
        if isinstance(n, list):
            for b in n:
                go(b, inside)
        elif isinstance(n, str):
            if n not in gen.PRIMS:
                tags.add("named-type-used-twice")
                full = n
                if any(full == x or full.endswith("." + x) or x.endswith("." + full) for x in inside):
                    tags.add("recursive")
        elif isinstance(n, dict):
            t = n.get("type")
            if t == "record":
                if not n.get("fields"):
                    tags.add("zero-field-record")
                nm = n.get("name", "")
                for f in n.get("fields", []):
                    go(f["type"], inside | {nm, nm.rpartition(".")[2]})
            elif t == "array":
                go(n["items"], inside)
            elif t == "map":
                vals = deref(n["values"])
                if any(ends_with_record(b) for b in (vals if isinstance(vals, list) else [vals])):
                    tags.add("map-value-record-ends-with-record")
                go(n["values"], inside)
    go(s, frozenset())
    return tags


def number_risks(s, v):
    """datum/schema combinations where the JSON path keeps a number the binary path rounds (finding F14)"""
    import struct
    txt = json.dumps(s)
    out = set()

    def go(x):
        if isinstance(x, bool):
            return
        if isinstance(x, int):
            if abs(x) > 2 ** 24 and '"float"' in txt or abs(x) > 2 ** 53 and '"double"' in txt:
                out.add("int-in-floating")
        elif isinstance(x, float):
            if '"float"' in txt and x == x and not math.isinf(x):
                try:
                    if struct.unpack("<f", struct.pack("<f", x))[0] != x:
                        out.add("float-unrounded")
                except OverflowError:
                    out.add("float-unrounded")
        elif isinstance(x, dict):
            for y in x.values():
                go(y)
        elif isinstance(x, (list, tuple)):
            for y in x:
                go(y)
    go(v)
    return out


def has_empty_key(v):
    if isinstance(v, dict):
        return any(k == "" or has_empty_key(x) for k, x in v.items())
    if isinstance(v, (list, tuple)):
        return any(has_empty_key(x) for x in v)
    return False


def run(tier, seed):
    run = Run("C15", tier, seed)
    run.rule = ("schemas of the generator (every top-level kind, nested arrays/maps/unions/records, by-name references, "
                "recursive types, records without fields) x conforming record lists x write_union_type; the JSON text is parsed "
                "and compared by value with Spec.jsonEncode under the documented branch-choice rule; read back; compared with "
                "the binary round trip; fields deleted from the text take their defaults; non-trivial = depth >= 2")
    run.lean(TARGETS, THEOREMS)
    n = scale(tier, 900)
    cases = []
    for i in range(n):
        g = gen.Gen(seed * 15000017 + i, logical=False, bytes_defaults=False, hints=(i % 4 == 0), tuple_seq=False, big=False,
                    recursion=(i % 3 != 0), zero_field=(i % 2 == 0))
        try:
            s, ctx = g.top_schema()
            data = [g.datum(s, ctx) for _ in range(2)]
        except Exception:
            continue
        cases.append((s, data))
    reqs = []
    for s, data in cases:
        for v in data:
            reqs.append({"schema": to_wire(s), "value": to_wire(v)})
    spec = run_batch([dict(q, op="spec.json") for q in reqs])
    model = run_batch([dict(q, op="json.enc") for q in reqs])
    written = run_batch([dict(q, op="spec.written") for q in reqs])     # "the record as written" of c15_read_back
    k = 0
    dec_reqs, dec_meta = [], []
    for s, data in cases:
        risks = sorted(schema_risks(s))
        for v in data:
            sp, mo, wr = spec[k], model[k], written[k]
            k += 1
            tags = sorted(t for t in schema_tags(s) if t in ("record", "enum", "fixed", "ref", "union", "map", "array", "bytes")) + risks
            if has_empty_key(v):
                tags.append("empty-map-key")
            tags += sorted(number_risks(s, v))
            case = {"schema": s, "value": to_wire(v), "tags": tags}
            run.count(case, depth_of(s) >= 2, tags)
            run.cov["traces_validated_against_impl"] += 1
            if "ok" not in sp:
                run.tag("spec:undefined")
                continue
            it = impl_json(s, [v])
            if "text" not in it:
                case["impl"] = it
                run.fail(case, "conforming datum: json_writer raised %s" % it.get("err"), kind="oracle")
                continue
            try:
                doc = json.loads(it["text"])
            except Exception as e:  # noqa
                case["text"] = it["text"][:300]
                run.fail(case, "json_writer output is not one JSON document per record", kind="oracle")
                continue
            if by_value(canon(to_wire(doc))) != by_value(canon(sp["ok"])):
                case["text"], case["spec"] = it["text"][:400], sp
                run.fail(case, "JSON text is not the specification's JSON encoding of the datum", kind="oracle")
                continue
            if "ok" in mo and by_value(canon(mo["ok"])) != by_value(canon(to_wire(doc))):
                case["text"], case["model"] = it["text"][:400], mo
                run.fail(case, "correspondence: model JSON differs", kind="correspondence")
                continue
            # read back
            back = impl_read(s, it["text"])
            try:
                bo = io.BytesIO()
                schemaless_writer(bo, copy.deepcopy(s), v)
                binv = to_wire(schemaless_reader(io.BytesIO(bo.getvalue()), copy.deepcopy(s)))
            except Exception:
                binv = None
            if "ok" not in back or len(back["ok"]) != 1:
                case["text"], case["back"] = it["text"][:400], back
                run.fail(case, "json_reader does not return the written record", kind="oracle")
                continue
            if "ok" in wr:
                run.tag("read-back:theorem-domain")
                if by_value(canon(back["ok"][0])) != by_value(canon(wr["ok"])):
                    case["json_value"], case["written"] = back["ok"][0], wr["ok"]
                    run.fail(case, "json_reader does not return the record as written (Spec.written)", kind="oracle")
                    continue
            else:
                run.tag("read-back:outside-theorem-domain")
            if binv is not None and by_value(canon(back["ok"][0])) != by_value(canon(binv)):
                case["json_value"], case["binary_value"] = back["ok"][0], binv
                run.fail(case, "record decoded from JSON differs from the one decoded from the binary encoding", kind="oracle")
                continue
            dec_reqs.append({"op": "json.dec", "schema": to_wire(s), "json": to_wire(doc)})
            dec_meta.append((case, back["ok"][0]))
            # write_union_type=False: unions are written bare
            it2 = impl_json(s, [v], wut=False)
            run.cov["evaluations"] += 1
            if "text" not in it2:
                case["impl"] = it2
                run.fail(dict(case, tags=tags + ["nowut"]), "conforming datum: json_writer(write_union_type=False) raised %s" % it2.get("err"), kind="oracle")
            # absent fields take their defaults
            if isinstance(s, dict) and s.get("type") == "record" and isinstance(doc, dict):
                for f in s["fields"]:
                    if "default" in f and f["name"] in doc:
                        d2 = dict(doc)
                        del d2[f["name"]]
                        b2 = impl_read(s, json.dumps(d2))
                        v2 = dict(v) if isinstance(v, dict) else None
                        run.cov["evaluations"] += 1
                        run.tag("absent-field")
                        if v2 is None:
                            break
                        v2.pop(f["name"], None)
                        it3 = impl_json(s, [v2])
                        exp = impl_read(s, it3["text"]) if "text" in it3 else None
                        if exp and "ok" in exp and ("ok" not in b2 or by_value(canon(b2["ok"][0])) != by_value(canon(exp["ok"][0]))):
                            run.fail(dict(case, field=f["name"], got=b2, expected=exp, tags=tags + ["absent-field"]),
                                     "a field absent from the JSON text does not take its schema default", kind="oracle")
                        break
    res = run_batch(dec_reqs) if dec_reqs else []
    for (case, back), r in zip(dec_meta, res):
        if "ok" not in r or by_value(canon(r["ok"])) != by_value(canon(back)):
            run.fail(dict(case, model=r, impl_back=back), "correspondence: model JSON decoding differs", kind="correspondence")
    return run.finish()
