"""Shared by C04–C07: real codecs, an independent (specification-side) container parser / writer in
Python, and wrappers around the model's container operations."""
import bz2
import io
import json
import lzma
import os
import random
import zlib

import fastavro

import gen
from driver import run_batch
from wire import to_wire, from_wire, canon, exc_class
from props.c03 import enc_long, zz_dec_at

MAGIC = b"Obj\x01"


def deflate(x, level=None):
    return (zlib.compress(x, level) if level is not None else zlib.compress(x))[2:-1]


def inflate(x):
    return zlib.decompressobj(-15).decompress(x)


CODECS = {
    "null": (lambda x, level=None: x, lambda x: x),
    "deflate": (deflate, inflate),
    "bzip2": (lambda x, level=None: bz2.compress(x), bz2.decompress),
    "xz": (lambda x, level=None: lzma.compress(x), lzma.decompress),
}


class ParseError(Exception):
    pass


def read_long(b, i):
    try:
        return zz_dec_at(b, i)
    except IndexError:
        raise ParseError("eof in varint")


def read_bytes(b, i):
    n, i = read_long(b, i)
    if n < 0 or i + n > len(b):
        raise ParseError("short bytes")
    return b[i:i + n], i + n


def spec_parse(data):
    """independent parser of the container layout, written from the specification:
    magic, metadata map (any chunking, negative counts with byte size), 16-byte sync, then blocks"""
    if data[:4] != MAGIC:
        raise ParseError("magic")
    i = 4
    meta = {}
    order = []
    while True:
        c, i = read_long(data, i)
        if c == 0:
            break
        if c < 0:
            c = -c
            _, i = read_long(data, i)
        for _ in range(c):
            k, i = read_bytes(data, i)
            v, i = read_bytes(data, i)
            try:
                k = k.decode("utf-8")
            except UnicodeDecodeError:
                raise ParseError("metadata key is not UTF-8")
            if k not in meta:
                order.append(k)
            meta[k] = v
    if i + 16 > len(data):
        raise ParseError("sync")
    sync = data[i:i + 16]
    i += 16
    header_len = i
    blocks = []
    while i < len(data):
        off = i
        count, i = read_long(data, i)
        comp, i = read_bytes(data, i)
        if data[i:i + 16] != sync:
            raise ParseError("block sync at %d" % i)
        i += 16
        blocks.append({"offset": off, "size": i - off, "count": count, "comp": comp})
    return {"meta": [(k, meta[k]) for k in order], "sync": sync, "header_len": header_len, "blocks": blocks}


def spec_write(meta_items, sync, blocks, codec, rnd=None, header_chunks=None):
    """independent writer: any chunking of the metadata map (positive or negative counts), blocks given
    as (count, payload)"""
    out = bytearray(MAGIC)
    items = list(meta_items)
    chunks = header_chunks or [len(items)]
    i = 0
    for n in chunks:
        part = items[i:i + n]
        i += n
        if not part:
            continue
        body = b"".join(enc_long(len(k.encode())) + k.encode() + enc_long(len(v)) + v for k, v in part)
        if rnd is not None and rnd.random() < 0.5:
            out += enc_long(-len(part)) + enc_long(len(body)) + body
        else:
            out += enc_long(len(part)) + body
    out += b"\x00"
    out += sync
    comp = CODECS[codec][0]
    for count, payload in blocks:
        c = comp(payload)
        out += enc_long(count) + enc_long(len(c)) + c + sync
    return bytes(out)


def decomp_table(parsed, codec):
    d = CODECS[codec][1]
    tab = []
    for b in parsed["blocks"]:
        try:
            tab.append([b["comp"].hex(), d(b["comp"]).hex()])
        except Exception:
            pass
    return tab


def expected_meta(user_meta, schema_json_text, codec):
    """what Writer puts into the header map: the caller's metadata, then avro.schema, then avro.codec
    (an existing key keeps its position)"""
    m = dict(user_meta or {})
    m["avro.schema"] = schema_json_text
    m["avro.codec"] = codec
    return [(k, v.encode()) for k, v in m.items()]


def render(model_out, codec, sync, level=None):
    """file bytes the model predicts, with the real compressor applied to each block payload"""
    comp = CODECS[codec][0]
    out = bytearray(bytes.fromhex(model_out["header"]))
    for count, payload in model_out["blocks"]:
        c = comp(bytes.fromhex(payload), level)
        out += enc_long(count) + enc_long(len(c)) + c + sync
    return bytes(out)


class WriteOnly:
    """output that reports itself non-seekable and supports only write / flush (a pipe or socket)"""

    def __init__(self):
        self.buf = bytearray()
        self.calls = []

    def seekable(self):
        self.calls.append("seekable")
        return False

    def write(self, b):
        self.calls.append("write")
        self.buf += bytes(b)
        return len(b)

    def flush(self):
        self.calls.append("flush")

    def __getattr__(self, name):
        self.calls.append(name)
        raise AttributeError("write-only stream has no %s" % name)


class ReadOnly:
    """input that supports only sequential read(n)"""

    def __init__(self, data):
        self._b = io.BytesIO(data)
        self.calls = []

    def read(self, n=-1):
        self.calls.append("read")
        return self._b.read(n)

    def __getattr__(self, name):
        self.calls.append(name)
        raise AttributeError("read-only sequential stream has no %s" % name)


def records_schema_cases(seed, n, **opt):
    """(schema, ctx-less records) for container tests: every top-level kind, zero-byte records,
    many small records"""
    out = []
    for i in range(n):
        g = gen.Gen(seed * 4000037 + i, bytes_defaults=False, logical=False, **opt)
        r = g.r
        k = r.random()
        try:
            if k < 0.08:
                s, ctx = "null", gen.Ctx()
            elif k < 0.14:
                s, ctx = {"type": "record", "name": "Empty", "fields": []}, gen.Ctx()
            else:
                s, ctx = g.top_schema()
            nrec = r.choice([0, 1, 1, 2, 3, 5, 8, 20, 40])
            recs = [g.datum(s, ctx, hint_ok=False) for _ in range(nrec)]
        except Exception:
            continue
        out.append((s, recs, g))
    return out
