"""C01 — binary round trip (DESIGN §5 C01)."""
import io
import json

import fastavro

import gen
import impl
from core import Run
from driver import run_batch
from wire import to_wire, canon
from props.common import scale, depth_of, schema_tags, same, load_corpus

THEOREMS = ["c01_long_roundtrip", "c01_roundtrip", "c01_stream"]
TARGETS = ["Properties.TablesCodec", "Properties.C01"]


def gen_cases(seed, n, **opt):
    cases = []
    for i in range(n):
        g = gen.Gen(seed * 1000003 + i, **opt)
        try:
            s, ctx = g.top_schema()
            data = [g.datum(s, ctx) for _ in range(3)]
        except Exception:
            continue
        cases.append((s, data, {"strict": False, "sad": g.r.random() < 0.1, "dtn": False}, g.r.random() < 0.5))
    for i in range(n // 6):
        g = gen.Gen(seed * 7000003 + i, **opt)
        s, data = gen.ambiguous_union_case(g)
        cases.append((s, data, {}, g.r.random() < 0.5))
    return cases


def is_known_excluded(case):
    return False


def run(tier, seed):
    run = Run("C01", tier, seed)
    run.rule = ("type-directed schema+datum generator (gen.py) from one PRNG; a case is non-trivial when the schema "
                "has depth >= 2 or the datum hits a boundary pool; distinct by structural hash of (schema, datum, opts)")
    run.lean(TARGETS, THEOREMS)
    cases = []
    for name, c in load_corpus("C01"):
        cases.append((c["schema"], [gen_from_wire(c["value"])], c.get("opts", {}), False))
    cases += gen_cases(seed, scale(tier, 1200), bytes_defaults=False, logical=False)
    # ---- implementation
    reqs, idx = [], []
    for ci, (s, data, opts, parsed) in enumerate(cases):
        ws = to_wire(s)
        for di, v in enumerate(data):
            reqs.append({"op": "enc", "schema": ws, "value": to_wire(v), "opts": opts})
            idx.append((ci, di))
    model_enc = run_batch(reqs)
    impl_enc = []
    for (ci, di) in idx:
        s, data, opts, parsed = cases[ci]
        impl_enc.append(impl.enc(s, data[di], opts, parsed=parsed))
    # decode what each side wrote
    # the documented normal form, computed by Spec.normalize (the function c01_roundtrip is about)
    nreqs = [dict(r, op="normalize") for r in reqs]
    norm = run_batch(nreqs)
    for k, (ci, di) in enumerate(idx):
        s, data, opts, parsed = cases[ci]
        v = data[di]
        me, ie = model_enc[k], impl_enc[k]
        case = {"schema": s, "value": to_wire(v), "opts": opts, "parsed_schema": parsed}
        tags = sorted(schema_tags(s)) + ["enc:" + ("ok" if "bytes" in ie else ie.get("err", "perr"))]
        run.count(case, depth_of(s) >= 2 or len(ie.get("bytes", "")) > 8, tags)
        run.cov["traces_validated_against_impl"] += 1
        corr_ok = same(ie, me)
        # property oracle: what the implementation's own round trip returns vs the normal form
        prop_fail = None
        nf = norm[k]
        inside = "ok" in nf and "bytes" in me     # hypotheses of c01_roundtrip: normal form defined, writer succeeds
        run.tag("guard:" + ("inside" if inside else "outside"))
        if inside:
            if True:
                if "bytes" not in ie:
                    prop_fail = "writer rejected a datum the model encodes: %s" % ie
                else:
                    b = bytes.fromhex(ie["bytes"])
                    idc = impl.dec(s, b + b"\xc0\xff\xee", parsed=parsed)
                    if "ok" not in idc:
                        prop_fail = "reader failed on the writer's own bytes: %s" % idc
                    elif idc["rest"] != 3:
                        prop_fail = "reader did not consume exactly the written bytes (left %d, expected 3)" % idc["rest"]
                    elif canon(idc["ok"]) != canon(nf["ok"]):
                        prop_fail = "value read back differs from the normal form"
                        case["read_back"] = idc["ok"]
                        case["normal_form"] = nf["ok"]
        if prop_fail:
            run.fail(case, prop_fail, kind="oracle")
        elif not corr_ok:
            case["impl"], case["model"] = ie, me
            run.fail(case, "correspondence: enc differs between implementation and model", kind="correspondence")
    # ---- back-to-back values on one stream
    for ci, (s, data, opts, parsed) in enumerate(cases[:scale(tier, 300)]):
        try:
            ps = fastavro.parse_schema(json.loads(json.dumps(s)))
        except Exception:
            continue
        fo = io.BytesIO()
        written = []
        try:
            for v in data:
                fastavro.schemaless_writer(fo, ps, v, **impl.wopts_kw(opts))
                written.append(fo.tell())
        except Exception:
            continue
        fo.seek(0)
        singles = []
        ok = True
        why = None
        for j, v in enumerate(data):
            try:
                r1 = fastavro.schemaless_reader(fo, ps)
            except Exception as e:
                why = "stream read %d raised %r" % (j, e)
                break
            if fo.tell() != written[j]:
                why = "after value %d the stream is at %d, writer was at %d" % (j, fo.tell(), written[j])
                break
            b1 = io.BytesIO()
            fastavro.schemaless_writer(b1, ps, v, **impl.wopts_kw(opts))
            alone = fastavro.schemaless_reader(io.BytesIO(b1.getvalue()), ps)
            if canon(to_wire(alone)) != canon(to_wire(r1)):
                why = "value %d read from the stream differs from the value read alone" % j
                break
        run.count({"stream": s, "n": len(data)}, False, ["stream"])
        if why:
            run.fail({"schema": s, "values": [to_wire(v) for v in data], "opts": opts}, why, kind="oracle")
    # ---- omitted bytes / fixed fields whose default is the JSON string the specification prescribes
    import io as _io
    for ftype, dflt, want in (("bytes", "\u00ffa", b"\xffa"), ({"type": "fixed", "name": "Fx", "size": 2}, "ab", b"ab")):
        sch = {"type": "record", "name": "R", "fields": [{"name": "i", "type": "int"}, {"name": "b", "type": ftype, "default": dflt}]}
        run.cov["evaluations"] += 1
        run.tag("bytes-default-omitted")
        try:
            fo = _io.BytesIO()
            fastavro.schemaless_writer(fo, sch, {"i": 1})
            back = fastavro.schemaless_reader(_io.BytesIO(fo.getvalue()), sch)
            okv = back == {"i": 1, "b": want}
            got = repr(back)
        except Exception as e:  # noqa
            okv, got = False, repr(e)
        if not okv:
            run.fail({"schema": sch, "value": {"i": 1}, "got": got[:200], "tags": ["bytes-default-omitted"]},
                     "omitted bytes/fixed field: the datum is not written with the schema default", kind="oracle")
    return run.finish()


def gen_from_wire(w):
    from wire import from_wire
    return from_wire(w)
