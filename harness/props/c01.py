"""C01 — binary round trip (DESIGN §5 C01)."""
import io
import json

import fastavro

import gen
import impl
from core import Run
from driver import run_batch
from wire import to_wire, canon
from props.common import scale, depth_of, schema_tags, same, load_corpus

THEOREMS = ["c01_long_roundtrip", "c01_roundtrip", "c01_stream"]
TARGETS = ["Properties.TablesCodec", "Properties.C01"]


def gen_cases(seed, n, **opt):
    cases = []
    for i in range(n):
        g = gen.Gen(seed * 1000003 + i, **opt)
        try:
            s, ctx = g.top_schema()
            data = [g.datum(s, ctx) for _ in range(3)]
        except Exception:
            continue
        cases.append((s, data, {"strict": False, "sad": g.r.random() < 0.1, "dtn": False}, g.r.random() < 0.5))
    for i in range(n // 6):
        g = gen.Gen(seed * 7000003 + i, **opt)
        s, data = gen.ambiguous_union_case(g)
        cases.append((s, data, {}, g.r.random() < 0.5))
    # a nullable field whose default is NOT null (null is a later branch): present-and-None, omitted, and a value are
    # three different data
    import random as _random
    for i in range(max(4, n // 40)):
        r = _random.Random(seed * 31337 + i)
        T, dv, val = r.choice([("string", "anonymous", "x"), ("int", 7, -1), ("long", 2 ** 40, 5), ("boolean", True, False),
                               ("double", 1.5, 0.25), ({"type": "array", "items": "int"}, [1, 2], [3]),
                               ({"type": "enum", "name": "Size", "symbols": ["S", "M"]}, "M", "S")])
        null_spelling = r.choice(["null", {"type": "null"}])
        s = {"type": "record", "name": "Profile", "fields": [
            {"name": "id", "type": "int"},
            {"name": "nick", "type": [T, null_spelling], "default": dv},
            {"name": "tail", "type": ["null", "string"], "default": None}]}
        data = [{"id": 1, "nick": None, "tail": "t"}, {"id": 2, "tail": None}, {"id": 3, "nick": val}, {"id": 4, "nick": None}]
        cases.append((s, data, {}, r.random() < 0.5))
    # arrays / maps nested three and four deep, outer collections with several entries, inner ones empty and non-empty
    for i in range(max(4, n // 40)):
        r = _random.Random(seed * 27183 + i)
        leaf = r.choice(["int", "string", ["null", "long"]])
        kinds = [r.choice(["array", "map"]) for _ in range(r.choice([3, 3, 4]))]
        s = leaf
        for k in reversed(kinds):
            s = {"type": "array", "items": s} if k == "array" else {"type": "map", "values": s}
        if r.random() < 0.4:
            s = {"type": "record", "name": "Deep", "fields": [{"name": "d", "type": s}, {"name": "after", "type": "int"}]}

        def mk(t, depth):
            if isinstance(t, dict) and t.get("type") == "array":
                return [mk(t["items"], depth + 1) for _ in range(r.choice([0, 1, 2, 3]) if depth else r.choice([2, 3]))]
            if isinstance(t, dict) and t.get("type") == "map":
                return {"k%d" % j: mk(t["values"], depth + 1) for j in range(r.choice([0, 1, 2]) if depth else r.choice([2, 3]))}
            if isinstance(t, dict) and t.get("type") == "record":
                return {"d": mk(t["fields"][0]["type"], 0), "after": 42}
            if t == "int":
                return r.randint(-100, 100)
            if t == "string":
                return r.choice(["", "ab"])
            return r.choice([None, 2 ** 33])
        cases.append((s, [mk(s, 0) for _ in range(3)], {}, r.random() < 0.5))
    return cases


def is_known_excluded(case):
    return False


def run(tier, seed):
    run = Run("C01", tier, seed)
    run.rule = ("type-directed schema+datum generator (gen.py) from one PRNG; a case is non-trivial when the schema "
                "has depth >= 2 or the datum hits a boundary pool; distinct by structural hash of (schema, datum, opts)")
    run.lean(TARGETS, THEOREMS)
    cases = []
    for name, c in load_corpus("C01"):
        cases.append((c["schema"], [gen_from_wire(c["value"])], c.get("opts", {}), False))
    cases += gen_cases(seed, scale(tier, 1200), bytes_defaults=False, logical=False)
    # ---- implementation
    reqs, idx = [], []
    for ci, (s, data, opts, parsed) in enumerate(cases):
        ws = to_wire(s)
        for di, v in enumerate(data):
            reqs.append({"op": "enc", "schema": ws, "value": to_wire(v), "opts": opts})
            idx.append((ci, di))
    model_enc = run_batch(reqs)
    impl_enc = []
    for (ci, di) in idx:
        s, data, opts, parsed = cases[ci]
        impl_enc.append(impl.enc(s, data[di], opts, parsed=parsed))
    # decode what each side wrote
    # the documented normal form, computed by Spec.normalize (the function c01_roundtrip is about)
    nreqs = [dict(r, op="normalize") for r in reqs]
    norm = run_batch(nreqs)
    for k, (ci, di) in enumerate(idx):
        s, data, opts, parsed = cases[ci]
        v = data[di]
        me, ie = model_enc[k], impl_enc[k]
        case = {"schema": s, "value": to_wire(v), "opts": opts, "parsed_schema": parsed}
        tags = sorted(schema_tags(s)) + ["enc:" + ("ok" if "bytes" in ie else ie.get("err", "perr"))]
        run.count(case, depth_of(s) >= 2 or len(ie.get("bytes", "")) > 8, tags)
        run.cov["traces_validated_against_impl"] += 1
        corr_ok = same(ie, me)
        # property oracle: what the implementation's own round trip returns vs the normal form
        prop_fail = None
        nf = norm[k]
        inside = "ok" in nf and "bytes" in me     # hypotheses of c01_roundtrip: normal form defined, writer succeeds
        run.tag("guard:" + ("inside" if inside else "outside"))
        if inside:
            if True:
                if "bytes" not in ie:
                    prop_fail = "writer rejected a datum the model encodes: %s" % ie
                else:
                    b = bytes.fromhex(ie["bytes"])
                    idc = impl.dec(s, b + b"\xc0\xff\xee", parsed=parsed)
                    if "ok" not in idc:
                        prop_fail = "reader failed on the writer's own bytes: %s" % idc
                    elif idc["rest"] != 3:
                        prop_fail = "reader did not consume exactly the written bytes (left %d, expected 3)" % idc["rest"]
                    elif canon(idc["ok"]) != canon(nf["ok"]):
                        prop_fail = "value read back differs from the normal form"
                        case["read_back"] = idc["ok"]
                        case["normal_form"] = nf["ok"]
        if prop_fail:
            run.fail(case, prop_fail, kind="oracle")
        elif not corr_ok:
            case["impl"], case["model"] = ie, me
            run.fail(case, "correspondence: enc differs between implementation and model", kind="correspondence")
    # ---- back-to-back values on one stream, for every kind of input stream (BytesIO, an object with read() only,
    # an unbuffered forward-only io stream, a buffered reader over one); one schemaless_reader call per value
    from props.streams import input_kinds
    for ci, (s, data, opts, parsed) in enumerate(cases[:scale(tier, 300)]):
        try:
            ps = fastavro.parse_schema(json.loads(json.dumps(s)))
        except Exception:
            continue
        fo = io.BytesIO()
        written = []
        alone = []
        try:
            for v in data:
                fastavro.schemaless_writer(fo, ps, v, **impl.wopts_kw(opts))
                written.append(fo.tell())
                b1 = io.BytesIO()
                fastavro.schemaless_writer(b1, ps, v, **impl.wopts_kw(opts))
                alone.append(canon(to_wire(fastavro.schemaless_reader(io.BytesIO(b1.getvalue()), ps))))
        except Exception:
            continue
        why = None
        for kind, stream, consumed in input_kinds(fo.getvalue()):
            for j, v in enumerate(data):
                try:
                    r1 = fastavro.schemaless_reader(stream, ps)
                except Exception as e:
                    why = "%s: stream read %d raised %r" % (kind, j, e)
                    break
                if consumed is not None and consumed() != written[j]:
                    why = "%s: after value %d the stream is at %d, writer was at %d" % (kind, j, consumed(), written[j])
                    break
                if alone[j] != canon(to_wire(r1)):
                    why = "%s: value %d read from the stream differs from the value read alone" % (kind, j)
                    break
            run.count({"stream": s, "n": len(data), "kind": kind}, False, ["stream:" + kind])
            if why:
                break
        if why:
            run.fail({"schema": s, "values": [to_wire(v) for v in data], "opts": opts, "tags": ["stream"]}, why, kind="oracle")
    # ---- an output stream that refuses the write (read-only file object, closed stream, a device that is full), the error
    # caught, then the next call on a good stream: that call writes its own datum and nothing else
    class _Refusing(io.RawIOBase):
        def writable(self):
            return True

        def write(self, b):
            raise OSError("no space left on device")
    closed = io.BytesIO()
    closed.close()
    for ci, (s, data, opts, parsed) in enumerate(cases[:scale(tier, 120)]):
        if len(data) < 2:
            continue
        try:
            ps = fastavro.parse_schema(json.loads(json.dumps(s)))
            ref = io.BytesIO()
            fastavro.schemaless_writer(ref, ps, data[1], **impl.wopts_kw(opts))
            ref0 = io.BytesIO()
            fastavro.schemaless_writer(ref0, ps, data[0], **impl.wopts_kw(opts))
        except Exception:
            continue
        if not ref0.getvalue():
            continue            # a datum of zero bytes never reaches the stream
        for kind, bad in (("refusing", _Refusing()), ("closed", closed), ("read-only", io.BufferedReader(io.BytesIO(b"")))):
            run.count({"schema": s, "stream": kind, "tags": ["refused-write-then-retry"]}, False, ["refused-write:" + kind])
            try:
                fastavro.schemaless_writer(bad, ps, data[0], **impl.wopts_kw(opts))
                continue        # (the stream took it after all)
            except Exception:
                pass
            good = io.BytesIO()
            try:
                fastavro.schemaless_writer(good, ps, data[1], **impl.wopts_kw(opts))
                ok = good.getvalue() == ref.getvalue()
            except Exception as e:  # noqa
                ok = False
            if not ok:
                run.fail({"schema": s, "values": [to_wire(v) for v in data[:2]], "opts": opts, "stream": kind, "written": good.getvalue().hex()[:200],
                          "expected": ref.getvalue().hex()[:200], "tags": ["refused-write-then-retry"]},
                         "after a write that the output stream refused, the next schemaless_writer call does not write exactly its own datum", kind="oracle")
                break
    # ---- namesakes: a null-namespace type and a namespaced one of the same simple name, the null-namespace one defined first,
    # referred to by simple name from inside the namespace (by the rules: the namespaced one)
    for variant in range(6):
        status0 = {"type": "enum", "name": "Status", "symbols": ["UP", "DOWN"]} if variant % 2 == 0 else \
            {"type": "record", "name": "Status", "fields": [{"name": "host", "type": "string"}]}
        status1 = {"type": "record", "name": "Status", "namespace": "plant", "fields": [{"name": "v", "type": "int"}, {"name": "kids", "type": {"type": "array", "items": "Status"}}]}
        dev = {"type": "record", "name": "Device", "namespace": "plant", "fields": [{"name": "first", "type": status1}, {"name": "again", "type": "Status"},
                                                                                   {"name": "opt", "type": ["null", "Status"]}]}
        if variant < 2:
            sch = {"type": "record", "name": "Top", "fields": [{"name": "g", "type": status0}, {"name": "d", "type": dev}]}
            g = "UP" if variant % 2 == 0 else {"host": "localhost"}
            datum = {"g": g, "d": {"first": {"v": 1, "kids": [{"v": 2, "kids": []}]}, "again": {"v": 3, "kids": []}, "opt": {"v": 4, "kids": []}}}
        elif variant < 4:
            sch = [status0, dev]
            datum = {"first": {"v": 1, "kids": [{"v": 2, "kids": []}]}, "again": {"v": 3, "kids": []}, "opt": None}
        else:
            sch = {"type": "record", "name": "Top", "fields": [{"name": "d", "type": dev}, {"name": "g", "type": status0}]}
            g = "UP" if variant % 2 == 0 else {"host": "localhost"}
            datum = {"d": {"first": {"v": 1, "kids": []}, "again": {"v": 3, "kids": []}, "opt": {"v": 4, "kids": []}}, "g": g}
        run.count({"schema": sch, "tags": ["namesakes"]}, True, ["namesakes"])
        try:
            fo = io.BytesIO()
            fastavro.schemaless_writer(fo, json.loads(json.dumps(sch)), datum)
            back = fastavro.schemaless_reader(io.BytesIO(fo.getvalue()), json.loads(json.dumps(sch)))
            okk = canon(to_wire(back)) == canon(to_wire(datum))
            err = None
        except Exception as e:  # noqa
            okk, err = False, repr(e)[:200]
        if not okk:
            run.fail({"schema": sch, "value": to_wire(datum), "error": err, "tags": ["namesakes"]},
                     "a datum of a schema with a null-namespace type and a namespaced namesake does not round-trip", kind="oracle")
    # ---- one unparsed schema OBJECT used, edited in place, used again: every call sees the object's current content
    import copy
    import random as _random
    for i in range(scale(tier, 40)):
        rr = _random.Random(seed * 4441 + i)
        obj = {"type": "record", "name": "Evolving", "fields": [{"name": "id", "type": "int"},
                                                                {"name": "name", "type": "string", "default": "anon"}]}
        steps = []
        why = None
        for step in range(3):
            datum = {"id": step}
            for f in obj["fields"][1:]:
                if rr.random() < 0.6 or "default" not in f:
                    datum[f["name"]] = {"string": "s%d" % step, "int": step, "long": 10 ** 10 + step, "boolean": True,
                                        "double": 0.5}[f["type"] if isinstance(f["type"], str) else "int"]
            fresh = copy.deepcopy(obj)
            try:
                fo1, fo2 = io.BytesIO(), io.BytesIO()
                fastavro.schemaless_writer(fo1, obj, datum)
                fastavro.schemaless_writer(fo2, fresh, datum)
                got = fastavro.schemaless_reader(io.BytesIO(fo1.getvalue()), obj)
                exp = fastavro.schemaless_reader(io.BytesIO(fo2.getvalue()), copy.deepcopy(obj))
            except Exception as e:  # noqa
                why = "step %d raised %r" % (step, e)
                break
            steps.append(copy.deepcopy(obj))
            run.cov["evaluations"] += 1
            run.tag("same-object-edited")
            if fo1.getvalue() != fo2.getvalue() or canon(to_wire(got)) != canon(to_wire(exp)):
                why = "step %d: the schema object edited in place gives another result than a fresh copy of it" % step
                break
            # edit in place
            k = rr.random()
            if k < 0.4:
                obj["fields"].append({"name": "n%d" % step, "type": rr.choice(["int", "long", "boolean", "double"]), "default": {"int": 1, "long": 2, "boolean": False, "double": 1.5}["int"] if False else 0})
                obj["fields"][-1]["default"] = {"int": 1, "long": 2, "boolean": False, "double": 1.5}[obj["fields"][-1]["type"]]
            elif k < 0.7:
                obj["fields"][1]["default"] = "other%d" % step
            else:
                obj["fields"][0]["type"] = "long" if obj["fields"][0]["type"] == "int" else "int"
        if why:
            run.fail({"schema_states": steps, "schema_now": copy.deepcopy(obj), "tags": ["same-object-edited"]}, why, kind="oracle")
    # ---- omitted bytes / fixed fields whose default is the JSON string the specification prescribes
    import io as _io
    for ftype, dflt, want in (("bytes", "\u00ffa", b"\xffa"), ({"type": "fixed", "name": "Fx", "size": 2}, "ab", b"ab")):
        sch = {"type": "record", "name": "R", "fields": [{"name": "i", "type": "int"}, {"name": "b", "type": ftype, "default": dflt}]}
        run.cov["evaluations"] += 1
        run.tag("bytes-default-omitted")
        try:
            fo = _io.BytesIO()
            fastavro.schemaless_writer(fo, sch, {"i": 1})
            back = fastavro.schemaless_reader(_io.BytesIO(fo.getvalue()), sch)
            okv = back == {"i": 1, "b": want}
            got = repr(back)
        except Exception as e:  # noqa
            okv, got = False, repr(e)
        if not okv:
            run.fail({"schema": sch, "value": {"i": 1}, "got": got[:200], "tags": ["bytes-default-omitted"]},
                     "omitted bytes/fixed field: the datum is not written with the schema default", kind="oracle")
    return run.finish()


def gen_from_wire(w):
    from wire import from_wire
    return from_wire(w)
