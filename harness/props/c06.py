"""C06 — truncated or sync-corrupted container files never yield records that were not written
(DESIGN §5 C06). The schemaless clause (proper prefixes) is exercised by C03's check; here it is
re-checked on a sample."""
import io
import json
import random

import fastavro

from core import Run, MachineryError
from driver import run_batch
from wire import to_wire, canon, exc_class
from props.common import scale, depth_of
from props.container_common import CODECS, spec_parse, decomp_table, ParseError, ReadOnly
from props.c04 import build_cases, write_impl, resolve_interval

THEOREMS = ["c06_truncation", "c06_boundary", "c06_sync", "c06_schemaless_prefix"]
TARGETS = ["Properties.TablesContainer", "Properties.C06"]


def read_all(data, use_blocks=False, readinto=True):
    """-> (records yielded before the end, 'eof' | error class)"""
    out = []
    try:
        fo = io.BytesIO(data) if readinto else ReadOnly(data)
        if use_blocks:
            for b in fastavro.block_reader(fo):
                for x in b:
                    out.append(x)
        else:
            for x in fastavro.reader(fo):
                out.append(x)
    except RecursionError:
        return out, "fuel"
    except Exception as e:  # noqa
        return out, exc_class(e)
    return out, "END"


def run(tier, seed):
    run = Run("C06", tier, seed)
    run.rule = ("files of the C04 generator (<= 1.5 KiB, all codecs, 0..many blocks) cut at EVERY byte offset and read with "
                "reader (BytesIO and read-only sequential input) and block_reader; every byte position of every block's trailing "
                "sync marker altered (3 values each) plus multi-byte alterations; compared with the model's reader and with the "
                "statement directly; non-trivial = cut/alteration of a file with >= 2 blocks")
    run.lean(TARGETS, THEOREMS)
    rnd = random.Random(seed * 6007 + 6)
    files = []
    files_big = []
    for c in build_cases(seed + 66, scale(tier, 90)):
        try:
            ps = fastavro.parse_schema(json.loads(json.dumps(c["schema"])))
            sizes, nfs = [], []
            for r in c["records"]:
                b = io.BytesIO()
                fastavro.schemaless_writer(b, ps, r)
                sizes.append(len(b.getvalue()))
                nfs.append(fastavro.schemaless_reader(io.BytesIO(b.getvalue()), ps))
            c["ivl"] = resolve_interval(c, sizes)
            c["kind"] = "bytesio"
            data, _ = write_impl(c, c["ivl"])
            parsed = spec_parse(data)
        except Exception:
            continue
        if len(data) > 1500:
            continue
        files.append((c, data, parsed, nfs))
    # blocks whose record count / byte length need a multi-byte varint (>= 64 records in one block): zero-, one- and
    # two-byte records, one or two blocks, every cut offset
    for k, (sch, mk) in enumerate([("null", lambda i: None), ("boolean", lambda i: i % 2 == 0), ("int", lambda i: i % 50),
                                   ({"type": "record", "name": "Small", "fields": [{"name": "a", "type": "int"}, {"name": "b", "type": "boolean"}]},
                                    lambda i: {"a": i % 60, "b": i % 3 == 0})]):
        for nrec, ivl in ((64, 100000), (65, 100000), (130, 100000), (150, 80), (8200, 100000) if (tier != "quick" and k < 3) else (70, 100000)):
            c = dict(schema=sch, records=[mk(i) for i in range(nrec)], codec=rnd.choice(["null", "deflate"]), level=None,
                     meta=None, sync=bytes(range(16)), kind="bytesio", parsed=False, interval=ivl, ivl=ivl)
            try:
                data, _ = write_impl(c, ivl)
                parsed = spec_parse(data)
                ps = fastavro.parse_schema(json.loads(json.dumps(sch)))
                nfs = list(c["records"])
            except Exception:
                continue
            if len(data) <= 2500:
                files.append((c, data, parsed, nfs))
                run.tag("block-count>=64")
            else:
                big = (c, data, parsed, nfs)
                # too long for every cut: the cuts around each block's count and length cells
                files_big.append(big)
    reqs, meta = [], []
    for (c, data, parsed, nfs) in files:
        tab = decomp_table(parsed, c["codec"])
        ws = to_wire(c["schema"])
        bounds = [parsed["header_len"]] + [b["offset"] + b["size"] for b in parsed["blocks"]]
        cum = [0]
        for b in parsed["blocks"]:
            cum.append(cum[-1] + max(0, b["count"]))
        for cut in range(len(data)):
            reqs.append({"op": "container.read", "schema": ws, "bytes": data[:cut].hex(), "decomp": tab, "codecs": list(CODECS)})
            meta.append(("cut", c, data, parsed, nfs, cut, bounds, cum, None))
        # sync alterations
        for bi, b in enumerate(parsed["blocks"]):
            s0 = b["offset"] + b["size"] - 16
            alts = []
            for j in range(16):
                for delta in (1, 0x80, 0xFF):
                    alts.append([(s0 + j, data[s0 + j] ^ delta)])
            for _ in range(4):
                alts.append([(s0 + j, rnd.getrandbits(8)) for j in rnd.sample(range(16), rnd.randint(2, 16))])
            for alt in alts:
                d2 = bytearray(data)
                for pos, val in alt:
                    d2[pos] = val
                if bytes(d2) == data:
                    continue
                reqs.append({"op": "container.read", "schema": ws, "bytes": bytes(d2).hex(), "decomp": tab, "codecs": list(CODECS)})
                meta.append(("sync", c, bytes(d2), parsed, nfs, bi, bounds, cum, None))
    for (c, data, parsed, nfs) in files_big:
        tab = decomp_table(parsed, c["codec"])
        ws = to_wire(c["schema"])
        bounds = [parsed["header_len"]] + [b["offset"] + b["size"] for b in parsed["blocks"]]
        cum = [0]
        for b in parsed["blocks"]:
            cum.append(cum[-1] + max(0, b["count"]))
        cuts = set()
        for b in parsed["blocks"]:
            cuts.update(range(b["offset"] - 2, b["offset"] + 8))
            cuts.update(range(b["offset"] + b["size"] - 18, b["offset"] + b["size"] + 1))
        for cut in sorted(x for x in cuts if 0 <= x < len(data)):
            reqs.append({"op": "container.read", "schema": ws, "bytes": data[:cut].hex(), "decomp": tab, "codecs": list(CODECS)})
            meta.append(("cut", c, data, parsed, nfs, cut, bounds, cum, None))
    mouts = run_batch(reqs)
    for (kind, c, data, parsed, nfs, x, bounds, cum, _), mo in zip(meta, mouts):
        nblocks = len(parsed["blocks"])
        case = {"schema": c["schema"], "codec": c["codec"], "n_records": len(nfs), "n_blocks": nblocks, "kind": kind,
                ("cut" if kind == "cut" else "block"): x, "file_hex": data.hex() if len(data) < 300 else None}
        run.count(case, nblocks >= 2, [kind, "codec:" + c["codec"]])
        run.cov["traces_validated_against_impl"] += 1
        blob = data[:x] if kind == "cut" else data
        want = [canon(to_wire(v)) for v in nfs]
        for mode in ("reader", "reader-sequential", "block_reader"):
            got, end = read_all(blob, use_blocks=(mode == "block_reader"), readinto=(mode != "reader-sequential"))
            g = [canon(to_wire(v)) for v in got]
            why = None
            if g != want[:len(g)]:
                why = "yielded a record that was not written / out of order / partially decoded"
            elif kind == "cut":
                complete = sum(1 for e in bounds[1:] if e <= x)
                if end == "END" and x not in bounds:
                    why = "ended normally although the cut (%d) is not on a block boundary %s" % (x, bounds)
                elif x in bounds and end != "END":
                    why = "cut on a block boundary did not end normally (%s)" % end
            else:
                if end == "END":
                    why = "altered sync marker of block %d not reported" % x
                elif mode == "reader" and len(g) != cum[x + 1]:
                    why = "with block %d's marker altered %d records were yielded, blocks 0..%d hold %d" % (x, len(g), x, cum[x + 1])
            if why:
                case["mode"] = mode
                case["end"] = end
                run.fail(case, why, kind="oracle")
                break
        else:
            got, end = read_all(blob)
            mend = mo.get("end")
            mend = "eof" if mend == "eof" else "err"
            if "herr" in (mo.get("header") or {}):
                mend = "err"
            if [canon(x_) for x_ in mo.get("records", [])] != [canon(to_wire(v)) for v in got] or (mend == "eof") != (end == "END"):
                case["impl"] = {"n": len(got), "end": end}
                case["model"] = {"n": len(mo.get("records", [])), "end": mo.get("end"), "header": (mo.get("header") or {}).get("herr")}
                run.fail(case, "correspondence: the model's reader disagrees on a damaged file", kind="correspondence")
    # ---- values larger than any internal read size (64 KiB and more), the big value last in its record: cuts inside it
    from props.c03 import read_impl as _read_schemaless
    for kind_, mkbig in (("bytes", lambda n, i: bytes([(i * 7 + j) % 251 for j in range(64)]) * (n // 64 + 1)),
                         ("string", lambda n, i: ("%dabcdefgh" % i) * (n // 9 + 1))):
        for nbig in (65537, 70000, 150000):
            sch = {"type": "record", "name": "BigTail", "fields": [{"name": "id", "type": "long"}, {"name": "body", "type": kind_}]}
            recs = [{"id": i, "body": mkbig(nbig, i)[:nbig]} for i in range(2)]
            ps = fastavro.parse_schema(json.loads(json.dumps(sch)))
            want = [canon(to_wire(v)) for v in recs]
            for codec in ("null", "deflate"):
                fo = io.BytesIO()
                fastavro.writer(fo, ps, recs, codec=codec, sync_interval=1000)
                data = fo.getvalue()
                parsed = spec_parse(data)
                bounds = [parsed["header_len"]] + [b["offset"] + b["size"] for b in parsed["blocks"]]
                cuts = set()
                for b in parsed["blocks"]:
                    end_ = b["offset"] + b["size"]
                    cuts.update([end_ - 17, end_ - 18, end_ - 40, end_ - 1, end_ - 16])
                    cuts.update(rnd.randrange(max(b["offset"] + 4, end_ - 70000), end_ - 16) for _ in range(scale(tier, 6)))
                    cuts.update(rnd.randrange(b["offset"] + 1, end_) for _ in range(scale(tier, 3)))
                for cut in sorted(x for x in cuts if 0 < x < len(data)):
                    case = {"schema": sch, "codec": codec, "n_records": 2, "value_size": nbig, "kind": "cut", "cut": cut, "file_len": len(data),
                            "tags": ["big-trailing-value"]}
                    run.count(case, True, ["cut:big-trailing-value", "codec:" + codec])
                    for mode in ("reader", "reader-sequential", "block_reader"):
                        got, end = read_all(data[:cut], use_blocks=(mode == "block_reader"), readinto=(mode != "reader-sequential"))
                        g = [canon(to_wire(v)) for v in got]
                        why = None
                        if g != want[:len(g)]:
                            why = "yielded a record that was not written / partially decoded (a value of %d bytes cut short)" % nbig
                        elif end == "END" and cut not in bounds:
                            why = "ended normally although the cut (%d) is not on a block boundary %s" % (cut, bounds)
                        if why:
                            case["mode"], case["end"] = mode, end
                            run.fail(case, why, kind="oracle")
                            break
            # schemaless: every proper prefix raises — cuts inside the big value
            bo = io.BytesIO()
            fastavro.schemaless_writer(bo, ps, recs[0])
            enc = bo.getvalue()
            for cut in sorted(set([len(enc) - 1, len(enc) - 2, len(enc) - 100, len(enc) - 4097] +
                                  [rnd.randrange(len(enc) - 66000, len(enc)) for _ in range(scale(tier, 8))])):
                r_ = _read_schemaless(ps, enc[:cut])
                case = {"schema": sch, "value_size": nbig, "cut": cut, "encoding_len": len(enc), "tags": ["big-trailing-value", "schemaless-prefix"]}
                run.count(case, True, ["schemaless-prefix:big"])
                if "ok" in r_:
                    run.fail(case, "a proper prefix of a schemaless encoding (cut inside a value of %d bytes) decoded to a value" % nbig, kind="oracle")
    # ---- schemaless clause on a sample
    from props.c03 import read_impl
    for (c, data, parsed, nfs) in files[:scale(tier, 30)]:
        ps = fastavro.parse_schema(json.loads(json.dumps(c["schema"])))
        for r in c["records"][:2]:
            b = io.BytesIO()
            fastavro.schemaless_writer(b, ps, r)
            enc = b.getvalue()
            for cut in range(len(enc)):
                run.cov["evaluations"] += 1
                if "ok" in read_impl(ps, enc[:cut]):
                    run.fail({"schema": c["schema"], "prefix": enc[:cut].hex(), "full": enc.hex()},
                             "proper prefix of a schemaless encoding decoded", kind="oracle")
    # ... and of a value that is skipped during schema resolution (a reader schema that drops the trailing field)
    for (c, data, parsed, nfs) in files[:scale(tier, 30)]:
        s0 = c["schema"]
        wrec = {"type": "record", "name": "CutWrap__", "fields": [{"name": "z", "type": "long"}, {"name": "a", "type": s0}]}
        rrec = {"type": "record", "name": "CutWrap__", "fields": [{"name": "z", "type": "long"}]}
        try:
            pw = fastavro.parse_schema(json.loads(json.dumps(wrec)))
        except Exception:
            continue
        for r in c["records"][:2]:
            b = io.BytesIO()
            try:
                fastavro.schemaless_writer(b, pw, {"z": 7, "a": r})
            except Exception:
                continue
            enc = b.getvalue()
            for cut in range(1, len(enc)):
                run.cov["evaluations"] += 1
                for seekable in (True, False):
                    fo = io.BytesIO(enc[:cut]) if seekable else ReadOnly(enc[:cut])
                    try:
                        v = fastavro.schemaless_reader(fo, pw, rrec)
                    except Exception:
                        continue
                    run.fail({"schema": s0, "prefix": enc[:cut].hex(), "full": enc.hex(), "returned": to_wire(v), "seekable_input": seekable,
                              "tags": ["schemaless-skipped-prefix"]},
                             "proper prefix of a schemaless encoding decoded (trailing value skipped by the reader schema)", kind="oracle")
                    break
    run.tag("schemaless-skipped-prefixes")
    # every primitive in the last-read position of a schemaless encoding
    import gen as _gen
    g = _gen.Gen(seed + 606)
    for prim in _gen.PRIMS:
        for s in (prim, {"type": "record", "name": "TailRec", "fields": [{"name": "x", "type": "long"}, {"name": "y", "type": prim},
                                                                       {"name": "z", "type": prim}]},
                  {"type": "array", "items": prim}, {"type": "map", "values": prim}, ["null", prim] if prim != "null" else ["null"]):
            ps = fastavro.parse_schema(json.loads(json.dumps(s)))
            ctx = _gen.Ctx()
            for _ in range(4):
                try:
                    v = g.datum(s, ctx, hint_ok=False)
                    if isinstance(s, dict) and s.get("type") in ("array", "map") and not v:
                        v = [g.prim_datum(prim)] * 3 if s["type"] == "array" else {"k": g.prim_datum(prim), "j": g.prim_datum(prim)}
                    b = io.BytesIO()
                    fastavro.schemaless_writer(b, ps, v)
                except Exception:
                    continue
                enc = b.getvalue()
                for cut in range(len(enc)):
                    run.cov["evaluations"] += 1
                    r_ = read_impl(ps, enc[:cut])
                    if "ok" in r_:
                        run.fail({"schema": s, "prefix": enc[:cut].hex(), "full": enc.hex(), "impl": r_, "tags": ["tail:" + prim]},
                                 "proper prefix of a schemaless encoding decoded", kind="oracle")
                        break
    run.tag("schemaless-tail-prefixes")
    return run.finish()
