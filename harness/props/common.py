"""Helpers shared by the per-property runners."""
import json
import os
import sys

import gen
import impl
from wire import to_wire, canon
from driver import run_batch

TIER_N = {"quick": 1.0, "thorough": 25.0}


def scale(tier, n):
    return int(n * TIER_N.get(tier, 1.0))


def depth_of(s, d=0):
    if isinstance(s, list):
        return max([depth_of(x, d + 1) for x in s] + [d + 1])
    if isinstance(s, dict):
        t = s.get("type")
        if t == "record":
            return max([depth_of(f["type"], d + 1) for f in s.get("fields", [])] + [d + 1])
        if t == "array":
            return depth_of(s["items"], d + 1)
        if t == "map":
            return depth_of(s["values"], d + 1)
        return d + 1
    return d


def schema_tags(s, out=None):
    out = out if out is not None else set()
    if isinstance(s, list):
        out.add("union")
        for x in s:
            schema_tags(x, out)
    elif isinstance(s, dict):
        t = s.get("type")
        out.add(str(t))
        if t == "record":
            if not s.get("fields"):
                out.add("zero-field-record")
            for f in s.get("fields", []):
                if "default" in f:
                    out.add("default")
                schema_tags(f["type"], out)
        elif t == "array":
            schema_tags(s["items"], out)
        elif t == "map":
            schema_tags(s["values"], out)
        if "logicalType" in s:
            out.add("logical:" + str(s["logicalType"]))
    elif isinstance(s, str):
        out.add(s if s in gen.PRIMS else "ref")
    return out


def norm_out(o):
    """canonicalise a response for comparison"""
    o = dict(o)
    if "ok" in o and isinstance(o["ok"], (dict, list)) or o.get("ok") is None and "ok" in o:
        try:
            o["ok"] = canon(o["ok"])
        except Exception:
            pass
    return o


def same(a, b, err_class_matters=False):
    """compare implementation and model responses on property-level observables: success values and
    byte strings exactly; failures as 'raised' (the class only where the property fixes it)"""
    a, b = norm_out(a), norm_out(b)
    ea, eb = ("err" in a or "perr" in a), ("err" in b or "perr" in b)
    if ea or eb:
        if ea != eb:
            return False
        if ("perr" in a) != ("perr" in b):
            return False
        if err_class_matters:
            return a.get("err", a.get("perr")) == b.get("err", b.get("perr"))
        return True
    return a == b


def load_corpus(pid):
    d = os.path.join(os.path.dirname(os.path.dirname(os.path.dirname(os.path.abspath(__file__)))), "corpus", pid)
    out = []
    if os.path.isdir(d):
        for f in sorted(os.listdir(d)):
            if f.endswith(".json"):
                out.append((f, json.load(open(os.path.join(d, f)))))
    return out
