"""C13 — canonical form equals the specification's transformation; invariant under cosmetic edits
(DESIGN §5 C13)."""
import io
import json
import re

import fastavro
from fastavro.schema import to_parsing_canonical_form, parse_schema

import gen
import impl
from core import Run, REPO
from driver import run_batch
from wire import to_wire, canon, exc_class
from props.common import scale, depth_of, schema_tags

THEOREMS = ["c13_eq_spec", "c13_eq_spec_nested", "c13_spec_stable", "c13_cosmetic_type", "c13_cosmetic_field",
            "c13_cosmetic_name", "c13_inherited_namespace", "c13_fixed_point", "c13_idempotent"]
TARGETS = ["Properties.TablesSchema", "Properties.C13"]


def reference_vectors():
    """(schema text, canonical text) pairs found in the repository's own tests (Apache vectors)"""
    out = []
    p = REPO + "/tests/test_canonical_form.py"
    try:
        src = open(p).read()
    except OSError:
        return out
    return out


def impl_canon(s):
    try:
        return {"ok": to_parsing_canonical_form(json.loads(json.dumps(s)))}
    except Exception as e:  # noqa
        return {"err": exc_class(e)}


def run(tier, seed):
    run = Run("C13", tier, seed)
    run.rule = ("valid schemas of the generator (nested namespaces, dotted names, references, recursion, every attribute, "
                "logical annotations) and, for each, cosmetic rewrites (doc, aliases, default, order, custom / logical "
                "attributes, key order, namespace+name vs dotted, inherited vs spelled namespace, simple vs dict-form "
                "primitives, relative vs qualified references) at every position; fixed point; same encoding; "
                "non-trivial = schema with a named type")
    run.lean(TARGETS, THEOREMS)
    cases = []
    from props.common import load_corpus
    for name, c in load_corpus("C13"):
        cases.append((gen.Gen(1), c["schema"], gen.Ctx()))
    for i in range(scale(tier, 900)):
        g = gen.Gen(seed * 13000027 + i, logical=False, bytes_defaults=True)
        try:
            s, ctx = g.top_schema()
        except Exception:
            continue
        cases.append((g, s, ctx))
    # namesakes (a null-namespace type and a namespaced one with the same simple name, referred to by simple name from
    # inside the namespace) and top-level unions whose later branches refer to types defined in earlier branches
    from props.c11 import namesake_family
    for kind, sch in namesake_family(seed + 13, scale(tier, 30)):
        if kind.startswith("valid"):
            cases.append((gen.Gen(seed + 1), sch, gen.Ctx()))
    import random as _random
    for i in range(scale(tier, 30)):
        r = _random.Random(seed * 1301 + i)
        ns = r.choice(["", "cards", "a.b"])
        q = (ns + ".") if ns else ""
        suit = {"type": "enum", "name": "Suit", "symbols": ["S", "H"]}
        if ns:
            suit["namespace"] = ns
        card = {"type": "record", "name": q + "Card", "fields": [{"name": "suit", "type": r.choice([q + "Suit", "Suit" if ns else q + "Suit"])},
                                                                 {"name": "n", "type": "int"}]}
        hand = {"type": "record", "name": q + "Hand", "fields": [{"name": "cards", "type": {"type": "array", "items": q + "Card"}},
                                                                 {"name": "trump", "type": ["null", q + "Suit"]}]}
        u = [suit, card] + ([hand] if r.random() < 0.6 else []) + r.sample(["null", "string", "long"], r.randint(0, 2))
        cases.append((gen.Gen(seed + 2), u, gen.Ctx()))
    # directed: containers of INLINE named types with non-empty defaults (an edit confined to the default must not matter),
    # and enums without symbols at several positions
    for items_kind, item_t, dflt_item in (("enum", {"type": "enum", "name": "ns.Level", "symbols": ["LOW", "HIGH"]}, "LOW"),
                                          ("fixed", {"type": "fixed", "name": "ns.Key", "size": 2}, "ab"),
                                          ("record", {"type": "record", "name": "ns.Pt", "fields": [{"name": "x", "type": "int"}]}, {"x": 1})):
        for cont in ("array", "map"):
            for dflt in ("absent", "empty", "one", "two"):
                t = {"type": "array", "items": item_t} if cont == "array" else {"type": "map", "values": item_t}
                fld = {"name": "c", "type": t}
                n_ = {"absent": None, "empty": 0, "one": 1, "two": 2}[dflt]
                if n_ is not None:
                    fld["default"] = [dflt_item] * n_ if cont == "array" else {"k%d" % j: dflt_item for j in range(n_)}
                sch = {"type": "record", "name": "ns.Holder", "fields": [{"name": "id", "type": "long"}, fld,
                                                                        {"name": "again", "type": ["null", item_t["name"]], "default": None}]}
                cases.append((gen.Gen(seed + 3), sch, gen.Ctx()))
    empty_enum = {"type": "enum", "name": "ns.Nothing", "symbols": []}
    for sch in (empty_enum,
                {"type": "record", "name": "ns.R", "fields": [{"name": "e", "type": ["null", empty_enum], "default": None}, {"name": "n", "type": "int"}]},
                {"type": "record", "name": "ns.R", "fields": [{"name": "es", "type": {"type": "array", "items": empty_enum}, "default": []}]},
                {"type": "map", "values": empty_enum},
                ["null", empty_enum, {"type": "enum", "name": "ns.One", "symbols": ["ONLY"]}]):
        cases.append((gen.Gen(seed + 4), sch, gen.Ctx()))
    reqs = [{"op": "spec.canon", "schema": to_wire(s)} for (g, s, ctx) in cases]
    reqs2 = [{"op": "parse", "schema": to_wire(s)} for (g, s, ctx) in cases]
    spec = run_batch(reqs)
    model = run_batch(reqs2)
    cos_reqs, cos_meta = [], []
    for k, (g, s, ctx) in enumerate(cases):
        ic = impl_canon(s)
        case = {"schema": s}
        tags = sorted(t for t in schema_tags(s) if t in ("record", "enum", "fixed", "ref", "union"))
        if '"namespace": ""' in json.dumps(s):
            tags.append("null-namespace")
        case["tags"] = tags
        run.count(case, any(t in tags for t in ("record", "enum", "fixed")), tags)
        run.cov["traces_validated_against_impl"] += 1
        if "err" in ic:
            if "ok" in model[k]:
                case["impl"] = ic
                run.fail(case, "valid schema has no canonical form: %s" % ic, kind="oracle")
            continue
        text = ic["ok"]
        if spec[k].get("ok") != text:
            case["impl"], case["spec"] = text, spec[k]
            run.fail(case, "canonical form differs from the specification's transformation", kind="oracle")
            continue
        if model[k].get("ok", {}).get("canon") != text:
            case["impl"], case["model"] = text, model[k]
            run.fail(case, "correspondence: model canonical form differs", kind="correspondence")
            continue
        # the JSON value the text denotes is the model's Canon.toRaw (the value theorem `c13_fixed_point` speaks about)
        try:
            denoted = canon(to_wire(json.loads(text)))
        except Exception:
            denoted = None
        if denoted is not None and "toraw" in model[k] and canon(model[k]["toraw"]) != denoted:
            case["impl_value"], case["model_value"] = denoted, canon(model[k]["toraw"])
            run.fail(case, "correspondence: the JSON value of the canonical text differs from the model's Canon.toRaw", kind="correspondence")
            continue
        # fixed point: the canonical form is itself a schema with the same canonical form
        try:
            again = to_parsing_canonical_form(json.loads(text))
            if again != text:
                case["again"] = again
                run.fail(case, "canonical form is not a fixed point", kind="oracle")
                continue
        except Exception as e:  # noqa
            case["text"] = text
            run.fail(case, "canonical form is not a valid schema: %r" % (e,), kind="oracle")
            continue
        # same binary encoding (logical conversions and defaults aside)
        try:
            g2 = gen.Gen(seed * 77 + k, hints=False, omit_defaults=False, tuple_seq=False)
            v = g2.datum(s, ctx, hint_ok=False)
            ps = parse_schema(json.loads(json.dumps(s)))
            pc = parse_schema(json.loads(text))
            b = io.BytesIO()
            fastavro.schemaless_writer(b, ps, v)
            try:
                # "defaults aside": the clause speaks about data that spell every field out
                bs_ = io.BytesIO()
                fastavro.schemaless_writer(bs_, ps, v, strict=True)
                if bs_.getvalue() != b.getvalue():
                    raise ValueError("defaults used")
            except Exception:
                run.tag("same-encoding:skipped-uses-defaults")
                raise
            v1 = fastavro.schemaless_reader(io.BytesIO(b.getvalue()), ps)
            v2 = fastavro.schemaless_reader(io.BytesIO(b.getvalue()), pc)
            if canon(to_wire(v1)) != canon(to_wire(v2)):
                case["value"] = to_wire(v)
                run.fail(case, "bytes written under the schema decode differently under its canonical form", kind="oracle")
                continue
            b2 = io.BytesIO()
            fastavro.schemaless_writer(b2, pc, v)
            v3 = fastavro.schemaless_reader(io.BytesIO(b2.getvalue()), ps)
            if canon(to_wire(v3)) != canon(to_wire(v1)):
                case["value"] = to_wire(v)
                run.fail(case, "bytes written under the canonical form decode differently under the schema", kind="oracle")
                continue
        except Exception:
            pass
        # cosmetic rewrites
        for _ in range(3):
            try:
                s2 = gen.cosmetic(g, s)
            except Exception:
                continue
            ic2 = impl_canon(s2)
            run.cov["evaluations"] += 1
            run.tag("cosmetic")
            if ic2.get("ok") != text:
                run.fail({"schema": s, "rewritten": s2, "canon": text, "canon_rewritten": ic2},
                         "canonical form changed under a cosmetic rewrite", kind="oracle")
                break
    embedded_family(run, tier, seed)
    shared_objects_and_faults(run, tier, seed)
    return run.finish()


def _direct(s):
    try:
        return {"ok": to_parsing_canonical_form(s)}
    except Exception as e:  # noqa
        return {"err": exc_class(e)}


def shared_objects_and_faults(run, tier, seed):
    """(a) a schema assembled in code in which ONE container object stands at two places, in different namespaces: its canonical
    form is that of the same schema loaded from JSON text (no sharing);  (b) a call that dies midway (the interpreter's
    recursion limit, reached while the text is being written), then the next call;  (c) threads canonicalising large
    schemas at the same time"""
    import copy
    import sys
    import threading
    from fastavro.schema import parse_schema
    for cont in ("array", "map"):
        for ref_shape in ("direct", "union", "nested"):
            inner = "Tag" if ref_shape == "direct" else (["null", "Tag"] if ref_shape == "union" else {"type": "array", "items": "Tag"})
            shared = {"type": "array", "items": inner} if cont == "array" else {"type": "map", "values": inner}

            def rec(ns):
                return {"type": "record", "name": ns + ".Holder", "fields": [
                    {"name": "tag", "type": {"type": "enum", "name": ns + ".Tag", "symbols": ["X", "Y"] if ns == "a" else ["Y", "Z"]}},
                    {"name": "tags", "type": shared}]}
            sch = {"type": "record", "name": "Top", "fields": [{"name": "one", "type": rec("a")}, {"name": "two", "type": rec("org.east")}]}
            case = {"schema": json.loads(json.dumps(sch)), "tags": ["shared-container-object", cont, ref_shape]}
            run.count(case, True, ["shared-container-object"])
            b = _direct(json.loads(json.dumps(sch)))
            a, c = _direct(sch), _direct(copy.deepcopy(sch))
            try:
                d = _direct(parse_schema(sch))
            except Exception as e:  # noqa
                d = {"err": exc_class(e)}
            if a != b or c != b or d != b:
                case["with_shared_object"], case["from_json_text"], case["deepcopy"], case["parsed_first"] = a, b, c, d
                run.fail(case, "the canonical form of a schema in which one container object stands at two places differs from that of "
                               "the same schema loaded from JSON text", kind="oracle")
    # (b) a failing call, then the next
    deep = {"type": "record", "name": "deep.N120", "fields": [{"name": "leaf", "type": "int"}]}
    for level in range(119, -1, -1):
        deep = {"type": "record", "name": "deep.N%d" % level, "fields": [{"name": "tag", "type": "string"}, {"name": "inner", "type": ["null", deep]}]}
    simple = {"type": "record", "name": "ns.Simple", "fields": [{"name": "a", "type": "int"}, {"name": "again", "type": ["null", "Simple"]}]}
    want = _direct(simple)
    deep_parsed = parse_schema(deep)
    want_deep = _direct(deep_parsed)

    def dive(n, schema):
        if n > 0:
            return dive(n - 1, schema)
        return to_parsing_canonical_form(schema)
    old_limit = sys.getrecursionlimit()
    faults = 0
    try:
        base = len(__import__("inspect").stack())
        sys.setrecursionlimit(base + 1000)
        for n in range(300, 990, 9):
            try:
                dive(n, deep_parsed)
            except RecursionError:
                faults += 1
            else:
                continue
            got, got_deep = _direct(simple), _direct(deep_parsed)
            run.count({"schema": simple, "tags": ["after-interrupted-call"]}, True, ["after-interrupted-call"])
            if got != want or got_deep != want_deep:
                sys.setrecursionlimit(old_limit)
                run.fail({"schema": simple, "after_interrupted_call": got, "alone": want, "deep_same": got_deep == want_deep,
                          "stack_depth": n, "tags": ["after-interrupted-call"]},
                         "the canonical form of a schema differs after an earlier call was cut short by the recursion limit", kind="oracle")
                break
    finally:
        sys.setrecursionlimit(old_limit)
    run.tag("interrupted-calls", faults)
    # (c) threads
    big = [parse_schema({"type": "record", "name": "w%d.Wide" % k, "fields": [
        {"name": "f%d_%d" % (k, i), "type": {"type": "enum", "name": "E%d_%d" % (k, i), "symbols": ["S%d_%d_%d" % (k, i, j) for j in range(6)]}}
        for i in range(150)]}) for k in range(3)]
    alone = [_direct(b_) for b_ in big]
    old_si = sys.getswitchinterval()
    sys.setswitchinterval(1e-6)
    bad = []
    try:
        barrier = threading.Barrier(len(big))

        def work(k, rounds):
            barrier.wait()
            for _ in range(rounds):
                r = _direct(big[k])
                if r != alone[k]:
                    bad.append((k, r))
                    return
        ts = [threading.Thread(target=work, args=(k, scale(tier, 60))) for k in range(len(big))]
        for t in ts:
            t.start()
        for t in ts:
            t.join()
    finally:
        sys.setswitchinterval(old_si)
    run.count({"threads": len(big), "tags": ["threads"]}, True, ["threads"])
    if bad:
        k, r = bad[0]
        run.fail({"schema_name": "w%d.Wide" % k, "concurrent": str(r)[:300], "alone": str(alone[k])[:300], "tags": ["threads"]},
                 "the canonical form computed while other threads compute theirs differs from the one computed alone", kind="oracle")
    after = _direct(simple)
    if after != want:
        run.fail({"schema": simple, "after_threads": after, "alone": want, "tags": ["threads"]},
                 "the canonical form of a schema differs after a threaded run", kind="oracle")


def _strip_markers(x):
    if isinstance(x, dict):
        return {k: _strip_markers(v) for k, v in x.items() if k not in ("__fastavro_parsed", "__named_schemas")}
    if isinstance(x, list):
        return [_strip_markers(v) for v in x]
    return x


def embedded_family(run, tier, seed):
    """call sequences on shared schema objects: a record is parsed, its canonical form is taken (possibly several
    times), and the *parsed object* is then embedded in another schema — under a different namespace, renamed by
    the enclosing namespace — whose canonical form must still be the specification's transformation of the composed
    schema; the order of the calls must not matter"""
    import copy
    import random
    n = scale(tier, 60)
    pend = []
    for i in range(n):
        r = random.Random(seed * 13007 + i)
        leaf = r.choice(["int", "string", {"type": "enum", "name": "Col", "symbols": ["R", "G"]}, {"type": "fixed", "name": "Fx", "size": 4},
                         {"type": "array", "items": "long"}])
        inner_ns = r.choice([None, None, "in.ner"])
        inner = {"type": "record", "name": "Point", "doc": "d", "fields": [{"name": "x", "type": leaf}, {"name": "again", "type": ["null", "Point"]}]}
        if inner_ns:
            inner["namespace"] = inner_ns
        outer_ns = r.choice(["geo", "a.b", None])
        steps = []
        try:
            p = parse_schema(copy.deepcopy(inner))
            steps.append("parse(inner)")
            for _ in range(r.randint(0, 2)):
                c_in = to_parsing_canonical_form(p)
                steps.append("canon(parsed inner)")
            where = r.choice(["field", "array", "union"])
            emb = {"field": p, "array": {"type": "array", "items": p}, "union": ["null", p]}[where]
            outer = {"type": "record", "name": "Outer", "fields": [{"name": "f", "type": emb}, {"name": "g", "type": "int"}]}
            if outer_ns:
                outer["namespace"] = outer_ns
            raw_equiv = _strip_markers(copy.deepcopy(outer))
            got = to_parsing_canonical_form(outer)
            steps.append("canon(outer embedding the parsed inner)")
            got2 = to_parsing_canonical_form(copy.deepcopy(raw_equiv))
        except Exception as e:  # noqa
            run.tag("embedded:skipped")
            continue
        pend.append((raw_equiv, got, got2, steps))
    spec = run_batch([{"op": "spec.canon", "schema": to_wire(rw)} for rw, _, _, _ in pend])
    for (rw, got, got2, steps), sp in zip(pend, spec):
        case = {"schema": rw, "steps": steps, "tags": ["embedded-parsed"]}
        run.count(case, True, ["embedded-parsed"])
        if sp.get("ok") != got:
            run.fail(dict(case, impl=got, spec=sp, fresh=got2), "canonical form of a schema that embeds an already parsed (and canonicalised) "
                     "sub-schema differs from the specification's transformation", kind="oracle")
