"""C07 — any history of write / flush / block copy / failed write / reopen-for-append reads back as
the records successfully submitted (DESIGN §5 C07)."""
import io
import json
import os
import random

import fastavro
from fastavro.write import Writer

import gen
from core import Run, MachineryError
from driver import run_batch
from wire import to_wire, from_wire, canon, exc_class
from props.common import scale, depth_of
from props.container_common import CODECS, spec_parse, expected_meta, render, ParseError

THEOREMS = ["c07_history", "c07_flush_reads_back", "c07_failed_write_contributes_nothing", "c07_header_never_changes",
            "c07_reopen_resumes", "c07_reopen_is_flush", "c07_appendable_table", "Tables.appendable_table"]
TARGETS = ["Properties.TablesContainer", "Properties.C07"]


class FileStream:
    """a real, buffered file (`open(path, "w+b")`); `getvalue()` is what ANOTHER handle on the file sees — the bytes that
    have actually reached the file — while the writer's handle stays open"""

    def __init__(self):
        import tempfile
        fd, self.path = tempfile.mkstemp(prefix="verif_c07_", suffix=".avro")
        os.close(fd)
        self._f = open(self.path, "w+b")

    def __getattr__(self, name):
        return getattr(self._f, name)

    def getvalue(self):
        with open(self.path, "rb") as other:
            return other.read()

    def discard(self):
        try:
            self._f.close()
        finally:
            try:
                os.remove(self.path)
            except OSError:
                pass


def record_schema(g):
    """a record schema with a string first, so that a bad later field fails *after* bytes were produced"""
    r = g.r
    fields = [{"name": "a", "type": "string"}, {"name": "b", "type": r.choice(["int", "long"])}]
    if r.random() < 0.5:
        fields.append({"name": "c", "type": ["null", "double", {"type": "array", "items": "int"}]})
    if r.random() < 0.3:
        fields.append({"name": "d", "type": {"type": "map", "values": "boolean"}, "default": {}})
    return {"type": "record", "name": r.choice(["Rec", "Event", "nullable"]), "fields": fields}


def good_record(g, s, big=False):
    r = g.r
    out = {"a": ("y" * r.choice([300, 1000])) if big else r.choice(["", "x", "é", "hello"]), "b": r.choice([0, 1, -1, 2 ** 31 - 1])}
    for f in s["fields"][2:]:
        if f["name"] == "c":
            out["c"] = r.choice([None, 1.5, [1, 2, 3]])
        elif r.random() < 0.5:
            out["d"] = {"k": True}
    return out


def bad_record(g, s):
    r = g.r
    k = r.random()
    if k < 0.5:
        return {"a": r.choice(["partial", "z" * 200, ""]), "b": "not-an-int"}          # fails at the second field
    if k < 0.7:
        return {"a": 5, "b": 1}                                                          # fails at the first field
    if k < 0.85 and len(s["fields"]) > 2:
        d = good_record(g, s)
        d[s["fields"][2]["name"]] = object()
        return d
    return {"b": 1}                                                                      # missing field without default


def make_history(g, n):
    r = g.r
    ops = []
    for _ in range(n):
        k = r.random()
        if k < 0.4:
            ops.append(("w", "good"))
        elif k < 0.48:
            ops.append(("w", "big"))
        elif k < 0.62:
            ops.append(("w", "bad"))
        elif k < 0.78:
            ops.append(("f",))
        elif k < 0.88:
            ops.append(("b",))
        else:
            ops.append(("reopen",))
    ops.append(("f",))
    return ops


def append_to_several_files(run):
    """appending, in one process, to several containers whose schemas have the same parsing canonical form but differ in
    what the canonical form drops (field defaults, logical types): every file is continued under ITS header's schema"""
    import datetime
    import decimal
    pairs = {
        "defaults": ({"type": "record", "name": "Order", "fields": [{"name": "id", "type": "long"}, {"name": "qty", "type": "int", "default": 1}]},
                     {"type": "record", "name": "Order", "fields": [{"name": "id", "type": "long"}, {"name": "qty", "type": "int", "default": 12}]},
                     [{"id": 1}, {"id": 2, "qty": 5}], [{"id": 3}]),
        "logical-vs-plain": ({"type": "record", "name": "Ev", "fields": [{"name": "at", "type": {"type": "long", "logicalType": "timestamp-millis"}}]},
                             {"type": "record", "name": "Ev", "fields": [{"name": "at", "type": "long"}]},
                             [{"at": datetime.datetime(2021, 4, 6, 12, 0, tzinfo=datetime.timezone.utc)}], [{"at": 1617710400000}]),
        "decimal-scale": ({"type": "record", "name": "P", "fields": [{"name": "v", "type": {"type": "bytes", "logicalType": "decimal", "precision": 9, "scale": 2}}]},
                          {"type": "record", "name": "P", "fields": [{"name": "v", "type": {"type": "bytes", "logicalType": "decimal", "precision": 9, "scale": 0}}]},
                          [{"v": decimal.Decimal("5.25")}], [{"v": decimal.Decimal("5")}]),
    }

    def alone(schema, first, more):
        # ground truth without the append path: all the records submitted through one writer created with the schema
        fo = io.BytesIO()
        fastavro.writer(fo, json.loads(json.dumps(schema)), list(first) + list(more))
        return [canon(to_wire(x)) for x in fastavro.reader(io.BytesIO(fo.getvalue()))]

    for name, (s1, s2, d1, d2) in pairs.items():
        for order in ("1-then-2", "2-then-1"):
            case = {"pair": name, "schemas": [s1, s2], "order": order, "tags": ["append-to-several-files"]}
            run.count(case, True, ["append-to-several-files"])
            try:
                want1, want2 = alone(s1, d1, d1), alone(s2, d2, d2)
                f1, f2 = io.BytesIO(), io.BytesIO()
                fastavro.writer(f1, json.loads(json.dumps(s1)), d1)
                fastavro.writer(f2, json.loads(json.dumps(s2)), d2)
                for which in (("1", "2") if order == "1-then-2" else ("2", "1")):
                    fastavro.writer(f1 if which == "1" else f2, None, d1 if which == "1" else d2)
                got1 = [canon(to_wire(x)) for x in fastavro.reader(io.BytesIO(f1.getvalue()))]
                got2 = [canon(to_wire(x)) for x in fastavro.reader(io.BytesIO(f2.getvalue()))]
            except Exception as e:  # noqa
                run.fail(case, "appending to two files with like schemas raised %r" % (e,), kind="oracle")
                continue
            if got1 != want1 or got2 != want2:
                case["read_back"], case["expected"] = [got1, got2], [want1, want2]
                run.fail(case, "after appending to two files whose schemas differ only in defaults / logical types, a file does not read "
                               "back as the records submitted to it", kind="oracle")


def run(tier, seed):
    run = Run("C07", tier, seed)
    run.rule = ("random histories (8-40 operations) over {write small/large/zero-field record, write a record that fails at "
                "field 1..n, flush, write_block from a donor file of any codec, close and reopen for append with arbitrary "
                "schema/codec/metadata/sync arguments} x codec x sync_interval x validator; after every flush the stream is "
                "read back and its header compared; non-trivial = history with >= 2 distinct operation kinds")
    run.lean(TARGETS, THEOREMS)
    from props.common import load_corpus
    for name, c in load_corpus("C07"):
        ps = fastavro.parse_schema(c["schema"])
        fo = io.BytesIO()
        w = Writer(fo, ps)
        good = []
        for op in c["ops"]:
            if op[0] == "f":
                w.flush()
            else:
                try:
                    w.write(op[1])
                    good.append(op[1])
                except Exception:
                    pass
        run.count({"corpus": name}, True, ["corpus"])
        try:
            back = list(fastavro.reader(io.BytesIO(fo.getvalue())))
        except Exception as e:  # noqa
            back = repr(e)
        if back != good:
            run.fail({"corpus": name, "ops": c["ops"], "read_back": repr(back)[:300], "tags": ["corpus"]},
                     "corpus history %s no longer reads back as the records submitted" % name, kind="oracle")
    nh = scale(tier, 250)
    hist_cases = []
    for i in range(nh):
        g = gen.Gen(seed * 7000003 + i)
        r = g.r
        s = record_schema(g) if r.random() < 0.85 else {"type": "record", "name": "Empty", "fields": []}
        codec = r.choice(["null", "null", "deflate", "bzip2", "xz"])
        interval = r.choice([1, 5, 30, 200, 16000])
        validator = r.random() < 0.25
        sync = bytes(r.getrandbits(8) for _ in range(16))
        meta = r.choice([None, {"k": "v"}])
        ops = make_history(g, r.randint(8, 40 if tier == "quick" else 120))
        hist_cases.append(dict(g=g, schema=s, codec=codec, interval=interval, validator=validator, sync=sync, meta=meta, ops=ops))
    mreqs = []
    for hc in hist_cases:
        g, s, r = hc["g"], hc["schema"], hc["g"].r
        ps = fastavro.parse_schema(json.loads(json.dumps(s)))
        hc["stream"] = "real-file" if r.random() < 0.3 else "BytesIO"
        fo = FileStream() if hc["stream"] == "real-file" else io.BytesIO()
        kw = dict(codec=hc["codec"], sync_interval=hc["interval"], sync_marker=hc["sync"], validator=hc["validator"])
        if hc["meta"] is not None:
            kw["metadata"] = dict(hc["meta"])
        w = Writer(fo, ps, **kw)
        header0 = None
        submitted = []          # python records successfully submitted (incl. copied blocks)
        mops = []
        trace = []
        why = None
        for op in hc["ops"]:
            try:
                if op[0] == "w":
                    if not s["fields"]:
                        rec = {}
                        kind = "good"
                    else:
                        kind = op[1]
                        rec = bad_record(g, s) if kind == "bad" else good_record(g, s, big=(kind == "big"))
                    trace.append(["write", kind, to_wire(rec) if kind != "bad" else repr(rec)[:80]])
                    try:
                        w.write(rec)
                        submitted.append(rec)
                        mops.append({"w": to_wire(rec)})
                        if kind == "bad":
                            trace[-1].append("accepted")
                    except Exception as e:  # noqa
                        trace[-1].append("raised " + exc_class(e))
                        if kind != "bad":
                            why = "write of a conforming record raised %r" % (e,)
                            break
                elif op[0] == "f":
                    trace.append(["flush"])
                    w.flush()
                    mops.append({"f": 1})
                    data = fo.getvalue()
                    try:
                        parsed = spec_parse(data)
                    except ParseError as e:
                        why = "after flush the stream is not a layout-valid container: %s" % e
                        break
                    if header0 is None:
                        header0 = data[:parsed["header_len"]]
                    elif data[:parsed["header_len"]] != header0 or data[:len(header0)] != header0:
                        why = "the header changed after creation"
                        break
                    try:
                        got = list(fastavro.reader(io.BytesIO(data)))
                    except Exception as e:  # noqa
                        why = "after flush the stream does not read back: %r" % (e,)
                        break
                    fo2 = io.BytesIO()
                    exp = []
                    for rec in submitted:
                        b = io.BytesIO()
                        fastavro.schemaless_writer(b, ps, rec)
                        exp.append(fastavro.schemaless_reader(io.BytesIO(b.getvalue()), ps))
                    if [canon(to_wire(x)) for x in got] != [canon(to_wire(x)) for x in exp]:
                        why = "after flush the stream reads back as %d records, %d were successfully submitted (or they differ)" % (len(got), len(exp))
                        hc["got"] = [to_wire(x) for x in got][:6]
                        break
                elif op[0] == "b":
                    # copy whole blocks from a donor file of another codec; a caller may look at a block before copying it
                    # (iterate it, peek at its first record) and may copy one block into the output twice
                    dcodec = r.choice(list(CODECS))
                    look = r.choice(["fresh", "fresh", "iterated", "peeked", "twice"])
                    drecs = [good_record(g, s) if s["fields"] else {} for _ in range(r.randint(1, 4))]
                    dfo = io.BytesIO()
                    fastavro.writer(dfo, ps, drecs, codec=dcodec, sync_interval=(10 ** 6 if look == "twice" else r.choice([1, 1000])))
                    dfo.seek(0)
                    trace.append(["write_block", dcodec, len(drecs), look])
                    try:
                        for blk in fastavro.block_reader(dfo):
                            payload = blk.bytes_.getvalue()
                            n = blk.num_records
                            if look == "iterated":
                                list(blk)
                            elif look == "peeked":
                                next(iter(blk), None)
                            for _ in range(2 if look == "twice" else 1):
                                w.write_block(blk)
                                mops.append({"b": [n, payload.hex()]})
                    except Exception as e:  # noqa
                        why = "copying a block (%s) from a donor file raised %r" % (look, e)
                        break
                    submitted.extend(drecs)
                    if look == "twice":
                        submitted.extend(drecs)
                elif op[0] == "reopen":
                    trace.append(["reopen"])
                    w.flush()
                    mops.append({"f": 1})
                    other_schema = r.choice([None, "string", {"type": "record", "name": "Other", "fields": [{"name": "q", "type": "int"}]}, s])
                    kw2 = dict(codec=r.choice(list(CODECS)), sync_interval=hc["interval"], validator=hc["validator"],
                               sync_marker=r.choice([b"", b"\x01" * 16]))
                    if r.random() < 0.5:
                        kw2["metadata"] = {"other": "meta"}
                    # wherever the stream happens to be positioned (anywhere but 0): a caller may have read the file first
                    where = r.choice(["end", "end", "after-reader", "after-some-records", "seek"])
                    trace[-1].append(where)
                    try:
                        if where == "after-reader":
                            fo.seek(0)
                            fastavro.reader(fo)
                            if fo.tell() == 0:
                                fo.seek(0, 2)
                        elif where == "after-some-records":
                            fo.seek(0)
                            it = fastavro.reader(fo)
                            for _ in range(r.randint(0, 2)):
                                next(it, None)
                            if fo.tell() == 0:
                                fo.seek(0, 2)
                        elif where == "seek":
                            fo.seek(r.randint(1, max(1, len(fo.getvalue()))))
                    except Exception as e:  # noqa
                        why = "the stream written so far cannot be read before re-opening it: %r" % (e,)
                        break
                    try:
                        w = Writer(fo, other_schema, **kw2)
                    except Exception as e:  # noqa
                        why = "reopening the stream for append raised %r" % (e,)
                        break
            except Exception as e:  # noqa  (an operation of the history that is expected to succeed raised)
                why = "operation %s of the history raised %r" % (op[0], e)
                break
        hc["why"], hc["trace"] = why, trace
        if hc["stream"] == "real-file":
            try:
                fo.flush()
            except Exception:  # noqa
                pass
        hc["data"] = fo.getvalue()
        if hc["stream"] == "real-file":
            fo.discard()
        hc["mops"] = mops
        try:
            parsed = spec_parse(hc["data"])
            schema_text = dict(parsed["meta"]).get("avro.schema", b"").decode()
        except (ParseError, UnicodeDecodeError):
            parsed, schema_text = None, ""
        hc["parsed"] = parsed
        meta = expected_meta(hc["meta"], schema_text, hc["codec"])
        mreqs.append({"op": "container.run", "schema": to_wire(s), "sync": hc["sync"].hex(), "interval": hc["interval"],
                      "validator": hc["validator"], "meta": [[k.encode().hex(), v.hex()] for k, v in meta], "ops": mops})
    mouts = run_batch(mreqs)
    for hc, mo in zip(hist_cases, mouts):
        kinds = sorted(set(t[0] + (":" + t[1] if t[0] == "write" else "") for t in hc["trace"]))
        case = {"schema": hc["schema"], "codec": hc["codec"], "interval": hc["interval"], "validator": hc["validator"],
                "history": hc["trace"][:60], "stream": hc.get("stream"), "tags": kinds + ["stream:" + str(hc.get("stream"))]}
        run.count(case, len(kinds) >= 2, kinds + ["codec:" + hc["codec"]])
        run.cov["traces_validated_against_impl"] += 1
        if hc["why"]:
            if "got" in hc:
                case["read_back"] = hc["got"]
            run.fail(case, hc["why"], kind="oracle")
            continue
        if hc["parsed"] is None:
            run.fail(case, "final stream is not a layout-valid container", kind="oracle")
            continue
        exp = render(mo, hc["codec"], hc["sync"])
        if exp != hc["data"]:
            d = CODECS[hc["codec"]][1]
            payload = b"".join(d(b["comp"]) for b in hc["parsed"]["blocks"])
            mpayload = b"".join(bytes.fromhex(p) for _, p in mo["blocks"])
            if payload != mpayload or hc["data"][:hc["parsed"]["header_len"]] != bytes.fromhex(mo["header"]):
                case["impl_len"], case["model_len"] = len(hc["data"]), len(exp)
                run.fail(case, "correspondence: the stream differs from the model's prediction", kind="correspondence")
    append_to_several_files(run)
    return run.finish()
