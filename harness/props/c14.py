"""C14 — fingerprints (DESIGN §5 C14)."""
import hashlib
import json
import os
import random

import fastavro
from fastavro.schema import fingerprint, to_parsing_canonical_form
from fastavro._schema_common import FINGERPRINT_ALGORITHMS, JAVA_FINGERPRINT_MAPPING

import gen
from core import Run, REPO
from driver import run_batch
from wire import exc_class
from props.common import scale, load_corpus

THEOREMS = ["c14_rabin_eq_spec", "c14_table_eq_bitserial", "c14_hex", "c14_empty", "c14_dispatch", "c14_congruence"]
TARGETS = ["Properties.TablesRabin", "Properties.TablesSchema", "Properties.C14"]

# Java MessageDigest standard names -> hashlib names
JAVA_NAMES = {"MD5": "md5", "SHA-1": "sha1", "SHA-224": "sha224", "SHA-256": "sha256", "SHA-384": "sha384", "SHA-512": "sha512",
              "SHA3-224": "sha3_224", "SHA3-256": "sha3_256", "SHA3-384": "sha3_384", "SHA3-512": "sha3_512", "MD2": "md2"}

P = 0xC15D213AA4D7A795


def bitserial(data):
    """the specification's CRC, one bit at a time (independent of any table)"""
    fp = P
    for b in data:
        fp ^= b
        for _ in range(8):
            fp = (fp >> 1) ^ (P if fp & 1 else 0)
    return fp


def spec_hex(data):
    return bitserial(data).to_bytes(8, "little").hex()


def impl_fp(text, alg):
    try:
        return {"ok": fingerprint(text, alg)}
    except Exception as e:  # noqa
        return {"err": exc_class(e)}


def run(tier, seed):
    run = Run("C14", tier, seed)
    run.rule = ("texts: empty, all 1-char texts over a 300-code-point sample, canonical forms of generated schemas, random "
                "Unicode strings of 0-4096 chars, 0-4096 random bytes decoded latin-1; every advertised algorithm with a "
                "fixed digest length + both Java spellings + unknown / near-miss names; non-trivial = text longer than 1 char")
    run.lean(TARGETS, THEOREMS)
    rnd = random.Random(seed * 31337 + 14)
    texts = ["", "\"int\"", "a", "\x00", "é", "\U0001F600"]
    texts += [chr(c) for c in list(range(0, 260)) + [0x7FF, 0x800, 0xFFFF, 0x10000, 0x10FFFF]]
    for i in range(scale(tier, 300)):
        g = gen.Gen(seed * 9001 + i)
        try:
            s, _ = g.top_schema()
            texts.append(to_parsing_canonical_form(s))
        except Exception:
            pass
    for _ in range(scale(tier, 1500)):
        n = rnd.choice([1, 2, 3, 7, 8, 9, 15, 16, 17, 63, 64, 65, 255, 256, 1000, 4096])
        k = rnd.random()
        if k < 0.5:
            texts.append("".join(chr(rnd.randrange(256)) for _ in range(rnd.randint(0, n))))
        else:
            texts.append("".join(chr(rnd.choice([rnd.randrange(32, 127), rnd.randrange(0xA0, 0x800),
                                                 rnd.randrange(0x800, 0xD800), rnd.randrange(0x10000, 0x110000)]))
                                 for _ in range(rnd.randint(0, n))))
    # texts longer than any plausible internal buffer (8 KiB, 64 KiB, 1 MiB): around each size, ASCII and multi-byte
    for L in (8191, 8192, 8193, 16384, 16385, 65535, 65536, 65537, 70001) + ((1048577,) if tier == "thorough" else ()):
        texts.append("".join(chr(32 + (i * 7 + L) % 95) for i in range(L)))
        texts.append("".join(chr(rnd.choice([rnd.randrange(32, 127), rnd.randrange(0xA0, 0x800), rnd.randrange(0x800, 0xD800)])) for _ in range(L // 2)))
    big_enum = {"type": "enum", "name": "ns.Big", "symbols": ["SYMBOL_NUMBER_%d" % i for i in range(1200)]}
    texts.append(to_parsing_canonical_form(big_enum))
    texts.append(to_parsing_canonical_form({"type": "record", "name": "ns.Wide", "fields": [{"name": "field_number_%d" % i, "type": ["null", "string"]} for i in range(400)]}))
    for name, c in load_corpus("C14"):
        texts.append(c["text"])
    algs = sorted(FINGERPRINT_ALGORITHMS)
    jm = [[a, b] for a, b in sorted(JAVA_FINGERPRINT_MAPPING.items())]
    reqs = [{"op": "fp", "text": t.encode("utf-8").hex(), "alg": "CRC-64-AVRO", "algs": algs, "javamap": jm} for t in texts]
    mo = run_batch(reqs)
    zero_top = 0
    for t, m in zip(texts, mo):
        data = t.encode("utf-8")
        exp = spec_hex(data)
        io_ = impl_fp(t, "CRC-64-AVRO")
        case = {"text_utf8_hex": data.hex()[:200], "len": len(data), "alg": "CRC-64-AVRO"}
        run.count(case, len(t) > 1, ["crc", "top-byte-zero" if exp.endswith("00") else "crc-other"])
        run.cov["traces_validated_against_impl"] += 1
        if exp.endswith("00"):
            zero_top += 1
        if io_.get("ok") != exp:
            case["impl"], case["spec"] = io_, exp
            run.fail(case, "CRC-64-AVRO fingerprint differs from the specification's (bit-serial) value", kind="oracle")
        elif m.get("ok") != exp:
            case["model"], case["spec"] = m, exp
            run.fail(case, "correspondence: model fingerprint differs from the bit-serial reference", kind="correspondence")
    # ---- first use from several threads at once, in a fresh interpreter (whatever is prepared lazily on the first
    # fingerprint call — tables, registries — is then prepared under contention)
    import subprocess
    import sys as _sys
    child = (
        "import sys, json, threading\n"
        "sys.setswitchinterval(1e-6)\n"
        "from fastavro.schema import fingerprint\n"
        "texts = json.loads(sys.argv[1])\n"
        "algs = json.loads(sys.argv[2])\n"
        "N = 10\n"
        "bar = threading.Barrier(N)\n"
        "out = [None] * N\n"
        "def work(i):\n"
        "    bar.wait()\n"
        "    res = []\n"
        "    for a in algs:\n"
        "        for t in texts:\n"
        "            try:\n"
        "                res.append(fingerprint(t, a))\n"
        "            except Exception as e:\n"
        "                res.append('ERR:' + type(e).__name__)\n"
        "    out[i] = res\n"
        "ths = [threading.Thread(target=work, args=(i,)) for i in range(N)]\n"
        "[t.start() for t in ths]; [t.join() for t in ths]\n"
        "after = [fingerprint(t, a) for a in algs for t in texts]\n"
        "print(json.dumps({'threads': out, 'after': after}))\n")
    ctexts = ["", "\"int\"", "é", "x" * 300] + [t for t in texts[300:306] if "\ud800" > t or True][:6]
    ctexts = [t for t in ctexts if all(ord(ch) < 0xD800 or ord(ch) > 0xDFFF for ch in t)]
    calgs = ["CRC-64-AVRO", "md5", "SHA-256"]
    expect = []
    for a in calgs:
        for t in ctexts:
            expect.append(spec_hex(t.encode("utf-8")) if a == "CRC-64-AVRO" else hashlib.new(JAVA_NAMES.get(a, a), t.encode("utf-8")).hexdigest())
    for trial in range(scale(tier, 3)):
        env = dict(os.environ, PYTHONPATH=REPO)
        try:
            pr = subprocess.run([_sys.executable, "-c", child, json.dumps(ctexts), json.dumps(calgs)], env=env, capture_output=True, timeout=120)
            res = json.loads(pr.stdout.decode())
        except Exception as e:  # noqa
            run.notes.append("concurrent first-use trial could not run: %r" % (e,))
            continue
        run.cov["evaluations"] += 1
        run.tag("concurrent-first-use")
        wrong = [i for i, r_ in enumerate(res["threads"]) if r_ != expect]
        if wrong or res["after"] != expect:
            run.fail({"threads_wrong": wrong[:5], "sample": (res["threads"][wrong[0]][:4] if wrong else res["after"][:4]), "expected": expect[:4],
                      "tags": ["concurrent-first-use"]},
                     "fingerprints computed by several threads at first use (or afterwards in that process) differ from the specification's", kind="oracle")
            break
    # ---- texts that live only for the duration of the call (temporaries of equal length follow one another at the same
    # address): whatever is remembered between calls must be keyed by the text's value
    for alg_t in ("CRC-64-AVRO", "md5", "SHA-256"):
        for width, stem in ((6, '{"type":"fixed","name":"F","size":'), (3, ""), (12, "\u00e9" * 40)):
            wrong = None
            for i in range(scale(tier, 120)):
                got = fingerprint(stem + str(i * 7919 % (10 ** width)).zfill(width) + "}", alg_t)
                want_t = stem + str(i * 7919 % (10 ** width)).zfill(width) + "}"
                exp_t = spec_hex(want_t.encode("utf-8")) if alg_t == "CRC-64-AVRO" else hashlib.new(JAVA_NAMES.get(alg_t, alg_t), want_t.encode("utf-8")).hexdigest()
                del want_t
                run.cov["evaluations"] += 1
                if got != exp_t and wrong is None:
                    wrong = (i, got, exp_t)
            run.tag("temporary-texts")
            if wrong:
                i, got, exp_t = wrong
                t_ = stem + str(i * 7919 % (10 ** width)).zfill(width) + "}"
                run.fail({"text_utf8_hex": t_.encode("utf-8").hex()[:200], "alg": alg_t, "impl": got, "expected": exp_t, "call_number": i,
                          "tags": ["temporary-texts"]},
                         "the fingerprint of a text that lives only for the call differs from the specification's (an earlier text of the same length answered)", kind="oracle")
    # the everyday spelling: fingerprint(to_parsing_canonical_form(schema), ...) with nothing kept
    wrong = None
    for i in range(scale(tier, 150)):
        sch_t = {"type": "fixed", "name": "ns.F", "size": 100 + i % 50}
        got = fingerprint(to_parsing_canonical_form(sch_t), "CRC-64-AVRO")
        exp_t = spec_hex(to_parsing_canonical_form(sch_t).encode("utf-8"))
        run.cov["evaluations"] += 1
        if got != exp_t and wrong is None:
            wrong = (sch_t, got, exp_t)
    run.tag("temporary-canonical-forms")
    if wrong:
        run.fail({"schema": wrong[0], "alg": "CRC-64-AVRO", "impl": wrong[1], "expected": wrong[2], "tags": ["temporary-canonical-forms"]},
                 "fingerprint(to_parsing_canonical_form(schema)) differs from the specification's value of that text", kind="oracle")
    # ---- named digests and unknown names
    fixed = [a for a in algs if a != "CRC-64-AVRO" and not a.startswith("shake_")]
    sample = texts[:40] + rnd.sample(texts, min(60, len(texts)))
    # call order matters for state kept between calls: not the empty text first, every algorithm used many times
    rnd.shuffle(sample)
    sample.sort(key=lambda t: t == "")
    sample = sample + sample[:10]
    names = fixed + ["MD5", "SHA-256"]
    unknown = ["", "crc-64-avro", "CRC64", "SHA256", "Md5", "sha-256", "SHA3-256", "sha512_256", "sm3", "md5-sha1",
               "ripemd160", "whirlpool", "sha257", "UNKNOWN", "md4", "blake2b512", "SHA-1", "MD5 ", " md5", "sha384\x00",
               "SHA-512", "sha3-512", "BLAKE2B", "mdc2", "shake128"] + \
              ["".join(rnd.choice("abcdefSHAMD-_0123456789") for _ in range(rnd.randint(1, 9))) for _ in range(40)]
    # names that contain what a message template would interpret (percent and brace directives, escapes), long and non-ASCII names
    unknown += ["%", "%s", "%d", "100%", "md5%", "%(algorithm)s", "%%", "{", "}", "{}", "{0}", "{algorithm}", "{algorithm!r}", "\\", "\\n",
                "sha\n256", "md5\t", "x" * 5000, "s\u00e9curis\u00e9", "\u2028", "sha256\U0001F600", "'", '"', "md5'", "None", "0"]
    unknown = [u for u in unknown if u not in FINGERPRINT_ALGORITHMS]
    reqs, meta = [], []
    for t in sample:
        for a in names + unknown:
            reqs.append({"op": "fp", "text": t.encode("utf-8").hex(), "alg": a, "algs": algs, "javamap": jm})
            meta.append((t, a))
    mo = run_batch(reqs)
    for (t, a), m in zip(meta, mo):
        io_ = impl_fp(t, a)
        case = {"text_utf8_hex": t.encode("utf-8").hex()[:120], "alg": a, "tags": ["named" if a in names else "unknown"]}
        run.count(case, True, ["alg:" + (a if a in names else "unknown")])
        run.cov["traces_validated_against_impl"] += 1
        if a in names:
            # which digest an advertised name denotes: hashlib's own names, and the Java (MessageDigest) spellings —
            # a table of the harness, not the implementation's mapping
            real = JAVA_NAMES.get(a, a)
            try:
                exp = hashlib.new(real, t.encode("utf-8")).hexdigest()
            except (ValueError, TypeError):
                case["impl"] = io_
                run.fail(case, "an advertised algorithm name (%r) denotes no digest hashlib can compute" % a, kind="oracle")
                continue
            if io_.get("ok") != exp:
                case["impl"], case["expected"] = io_, exp
                run.fail(case, "digest differs from hashlib's for an advertised algorithm", kind="oracle")
            elif m.get("digest") != real:
                case["model"] = m
                run.fail(case, "correspondence: model dispatches to another digest", kind="correspondence")
        else:
            if io_.get("err") != "value":
                case["impl"] = io_
                run.fail(case, "unknown algorithm name did not raise ValueError", kind="oracle")
            elif m.get("err") != "value":
                case["model"] = m
                run.fail(case, "correspondence: model accepts an unknown name", kind="correspondence")
    run.cov["top_byte_zero_fingerprints"] = zero_top
    return run.finish()
