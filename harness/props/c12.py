"""C12 — parsing is idempotent; raw, parsed and piecewise-parsed schemas behave alike (DESIGN §5 C12).
Every public operation is run with the raw schema, the parsed schema and (for record schemas) a
schema whose named types were parsed separately against a shared named-schema dictionary; the results
must agree.  Model side: the same pieces through the driver's `named` argument."""
import copy
import io
import json
import random

import fastavro
from fastavro import parse_schema, schemaless_reader, schemaless_writer
from fastavro.schema import to_parsing_canonical_form
from fastavro.validation import validate

import gen
from core import Run
from driver import run_batch
from wire import to_wire, canon, exc_class
from props.common import scale, depth_of, schema_tags, load_corpus
from props.c08 import to_tree, refs_need_null_ns

THEOREMS = ["c12_marked_returned_unchanged", "c12_name_is_definition_read", "c12_name_is_definition_write",
            "c12_name_is_definition_validate", "c12_name_is_definition_skip", "c12_later_definitions_harmless",
            "c12_piece_is_entry", "c12_piece_then_name"]
TARGETS = ["Properties.TablesSchema", "Properties.C12"]


def strip(p):
    """parsed schema without the bookkeeping keys (for comparison)"""
    if isinstance(p, list):
        return [strip(x) for x in p]
    if isinstance(p, dict):
        return {k: strip(v) for k, v in p.items() if k not in ("__fastavro_parsed", "__named_schemas")}
    return p


def is_leaf(d):
    """a named type that uses no other named type"""
    if d["type"] != "record":
        return True

    def refs(t):
        if isinstance(t, list):
            return any(refs(b) for b in t)
        if isinstance(t, dict):
            if "$ref" in t:
                return True
            return refs(t.get("items", t.get("values")))
        return False
    return not any(refs(f["type"]) for f in d["fields"])


def pieces_of(r, tree, table, leaves_only=False, all_of=False):
    """split a random subset of the named types off into separately parsed pieces (dependencies
    first); returns (pieces, parent) as raw schemas, `parent` referring to the split types by name"""
    root = tree.get("$ref") if isinstance(tree, dict) else None
    names = sorted(n for n in table if n != root)       # the top-level record itself carries the dictionary
    if not names:
        return None
    if leaves_only:
        names = [n for n in names if is_leaf(table[n])]
        if not names:
            return None
    subset = list(names) if all_of else ([n for n in names if r.random() < 0.6] or [r.choice(names)])

    def deps(n, seen):
        out = []

        def go(t):
            if isinstance(t, list):
                for b in t:
                    go(b)
            elif isinstance(t, dict):
                if "$ref" in t:
                    m = t["$ref"]
                    if m not in seen:
                        seen.add(m)
                        for x in deps(m, seen):
                            out.append(x)
                        out.append(m)
                elif t["type"] == "array":
                    go(t["items"])
                else:
                    go(t["values"])
        d = table[n]
        if d["type"] == "record":
            for f in d["fields"]:
                go(f["type"])
        return out

    order, seen = [], set()
    for n in subset:
        if n not in seen:
            seen.add(n)
            for x in deps(n, seen):
                if x in subset and x not in order:
                    order.append(x)
            if n not in order:
                order.append(n)
    done = set()

    def emit(t, ns):
        if isinstance(t, list):
            return [emit(b, ns) for b in t]
        if isinstance(t, str):
            return t
        if "$ref" in t:
            full = t["$ref"]
            if full in done:
                return full
            done.add(full)
            d = table[full]
            out = {"type": d["type"], "name": full}
            if "." not in full:
                out["namespace"] = ""
            inner = full.rpartition(".")[0]
            if d.get("aliases"):
                out["aliases"] = list(d["aliases"])
            if d["type"] == "record":
                out["fields"] = []
                for f in d["fields"]:
                    g = {"name": f["name"], "type": emit(f["type"], inner)}
                    for k in ("default", "aliases"):
                        if k in f:
                            g[k] = copy.deepcopy(f[k])
                    out["fields"].append(g)
            elif d["type"] == "enum":
                out["symbols"] = list(d["symbols"])
                if "default" in d:
                    out["default"] = d["default"]
            else:
                out["size"] = d["size"]
            return out
        if t["type"] == "array":
            return {"type": "array", "items": emit(t["items"], ns)}
        return {"type": "map", "values": emit(t["values"], ns)}

    pieces = [emit({"$ref": n}, "") for n in order if n not in done]
    parent = emit(tree, "")
    if not isinstance(parent, dict):
        return None         # a split type depends on the top-level record itself: it cannot be parsed first
    return pieces, parent


def ops(schema_obj, data, seed):
    """every public operation with `schema_obj`; JSON-able, comparable results"""
    out = {}
    encs = []
    for v in data:
        fo = io.BytesIO()
        try:
            schemaless_writer(fo, schema_obj, v)
            encs.append(fo.getvalue())
            out.setdefault("enc", []).append(fo.getvalue().hex())
        except Exception as e:  # noqa
            encs.append(None)
            out.setdefault("enc", []).append("ERR:" + exc_class(e))
    for b in encs:
        if b is None:
            continue
        try:
            out.setdefault("dec", []).append(canon(to_wire(schemaless_reader(io.BytesIO(b), schema_obj))))
        except Exception as e:  # noqa
            out.setdefault("dec", []).append("ERR:" + exc_class(e))
    for v in data:
        try:
            out.setdefault("validate", []).append(bool(validate(v, schema_obj, raise_errors=False)))
        except Exception as e:  # noqa
            out.setdefault("validate", []).append("ERR:" + exc_class(e))
    try:
        out["canon"] = to_parsing_canonical_form(schema_obj)
    except Exception as e:  # noqa
        out["canon"] = "ERR:" + exc_class(e)
    good = [v for v, b in zip(data, encs) if b is not None]
    # container: written with this form, read back on its own (fresh reader, nothing shared)
    try:
        fo = io.BytesIO()
        fastavro.writer(fo, schema_obj, good)
        raw = fo.getvalue()
        out["container"] = [canon(to_wire(x)) for x in fastavro.reader(io.BytesIO(raw))]
    except Exception as e:  # noqa
        out["container"] = "ERR:" + exc_class(e)
    # JSON
    try:
        so = io.StringIO()
        fastavro.json_writer(so, schema_obj, good)
        out["json"] = so.getvalue()
        out["json_back"] = [canon(to_wire(x)) for x in fastavro.json_reader(io.StringIO(so.getvalue()), schema_obj)]
    except Exception as e:  # noqa
        out["json"] = "ERR:" + exc_class(e)
    # JSON documents that omit defaulted top-level fields (one at a time, then all of them)
    try:
        base_s = schema_obj
        flds = base_s.get("fields") if isinstance(base_s, dict) and base_s.get("type") == "record" else None
        if flds and isinstance(out.get("json"), str) and not out["json"].startswith("ERR:") and out["json"]:
            doc = json.loads(out["json"].splitlines()[0])
            dnames = [f["name"] for f in flds if "default" in f and f["name"] in doc]
            res = []
            for drop in [[n] for n in dnames[:4]] + ([dnames] if len(dnames) > 1 else []):
                d2 = {k: v for k, v in doc.items() if k not in drop}
                try:
                    res.append(canon(to_wire(list(fastavro.json_reader(io.StringIO(json.dumps(d2) + "\n" + json.dumps(d2)), schema_obj)))))
                except Exception as e:  # noqa
                    res.append("ERR:" + exc_class(e))
            out["json_absent"] = res
    except Exception as e:  # noqa
        out["json_absent"] = "ERR:" + exc_class(e)
    # generation from the library's random source
    try:
        from fastavro.utils import generate_one
        import hashlib
        import impl
        random.seed(seed)
        v = impl.limited(lambda: generate_one(schema_obj), 30)
        text = repr(v)
        # a very large value is compared by the digest of its text (the harness's own encoding of it would take minutes)
        out["generate"] = canon(to_wire(v)) if len(text) < 300000 else "BIG:%d:%s" % (len(text), hashlib.sha1(text.encode()).hexdigest())
    except Exception as e:  # noqa
        out["generate"] = "ERR:" + exc_class(e)
    return out


def observable(op, res):
    """what the property compares: values, bytes and texts exactly, except that (a) a failing call is compared as
    'raised' (which exception a non-conforming datum raises is not fixed by the property) and (b) JSON text is
    compared as parsed documents with numbers by value (the piecewise form spells dict-form primitives simply, which
    changes `1` into `1.0` in a float field of a record)"""
    from props.c15 import by_value

    def err(x):
        return "ERR" if isinstance(x, str) and x.startswith("ERR:") else x
    if op == "json_back" and isinstance(res, list):
        return [by_value(x) for x in res]
    if isinstance(res, list):
        return [err(x) for x in res]
    if op == "json" and isinstance(res, str) and not res.startswith("ERR:"):
        try:
            return [by_value(canon(to_wire(json.loads(line)))) for line in res.splitlines() if line.strip()]
        except Exception:
            return res
    if op == "json_back" and isinstance(res, list):
        return [by_value(x) for x in res]
    return err(res)


def resolution_family(run):
    """schema resolution with writer and reader schema in every form: the outer text of the two schemas is the same,
    the types split off into separately parsed pieces differ (a field added with a default, int -> long, an enum that
    lost a symbol and has a default); every combination of forms must give what raw / raw gives"""
    def mk(item, state):
        outer = {"type": "record", "name": "shop.Order", "fields": [
            {"name": "id", "type": "long"}, {"name": "item", "type": "shop.Item"}, {"name": "state", "type": "shop.State"},
            {"name": "more", "type": {"type": "array", "items": "shop.Item"}}, {"name": "last", "type": ["null", "shop.State"]}]}
        raw = copy.deepcopy(outer)
        raw["fields"][1]["type"] = copy.deepcopy(item)
        raw["fields"][2]["type"] = copy.deepcopy(state)
        named = {}
        parse_schema(copy.deepcopy(item), named)
        parse_schema(copy.deepcopy(state), named)
        piecewise = parse_schema(copy.deepcopy(outer), named)
        return {"raw": raw, "parsed": parse_schema(copy.deepcopy(raw)), "piecewise": piecewise}
    w_item = {"type": "record", "name": "shop.Item", "fields": [{"name": "sku", "type": "string"}, {"name": "qty", "type": "int"}]}
    w_state = {"type": "enum", "name": "shop.State", "symbols": ["NEW", "PAID", "RETURNED"]}
    readers = {
        "field-added-with-default": (dict(w_item, fields=w_item["fields"] + [{"name": "unit", "type": "string", "default": "piece"},
                                                                             {"name": "tags", "type": {"type": "array", "items": "string"}, "default": []}]), w_state),
        "int-to-long-and-double": (dict(w_item, fields=[{"name": "sku", "type": "string"}, {"name": "qty", "type": "double"}]), w_state),
        "enum-lost-a-symbol": (w_item, {"type": "enum", "name": "shop.State", "symbols": ["NEW", "PAID", "OTHER"], "default": "OTHER"}),
        "field-dropped": (dict(w_item, fields=[{"name": "qty", "type": "int"}]), w_state),
        "same": (w_item, w_state)}
    W = mk(w_item, w_state)
    data = [{"id": 1, "item": {"sku": "a-1", "qty": 2}, "state": "RETURNED", "more": [{"sku": "b-7", "qty": 1}], "last": "RETURNED"},
            {"id": 2, "item": {"sku": "", "qty": -5}, "state": "NEW", "more": [], "last": None}]
    for rname, (r_item, r_state) in readers.items():
        R = mk(r_item, r_state)
        for v in data:
            fo = io.BytesIO()
            schemaless_writer(fo, W["raw"], v)
            b = fo.getvalue()

            def read(wf, rf):
                try:
                    return canon(to_wire(schemaless_reader(io.BytesIO(b), W[wf], R[rf])))
                except Exception as e:  # noqa
                    return "ERR:" + exc_class(e)
            base = read("raw", "raw")
            for wf in ("raw", "parsed", "piecewise"):
                for rf in ("raw", "parsed", "piecewise"):
                    case = {"schema": W["raw"], "reader": R["raw"], "value": to_wire(v), "writer_form": wf, "reader_form": rf,
                            "tags": ["resolution", "reader:" + rname, wf + "/" + rf]}
                    run.count(case, True, ["resolution:" + wf + "/" + rf])
                    got = read(wf, rf)
                    if got != base:
                        case["with_raw"], case["with_forms"] = base, got
                        run.fail(case, "schemaless_reader with a reader schema gives a different result with the %s writer / %s reader "
                                       "schema than with the raw schemas" % (wf, rf), kind="oracle")


def named_logical_family(run):
    """a named type that carries a logical type (fixed + decimal), parsed as a piece of its own and referred to by name: every
    operation gives what it gives with the raw schema that defines it inline at first use"""
    import decimal as _dec
    money = {"type": "fixed", "name": "bank.Money", "size": 8, "logicalType": "decimal", "precision": 12, "scale": 2}
    rate = {"type": "record", "name": "bank.Rate", "fields": [{"name": "per", "type": "bank.Money"}, {"name": "unit", "type": "string"}]}
    for variant in ("single-use", "fields", "with-record"):
        flds = [{"name": "id", "type": "long"}, {"name": "balance", "type": "bank.Money"}, {"name": "history", "type": {"type": "array", "items": "bank.Money"}},
                {"name": "maybe", "type": ["null", "bank.Money"], "default": None}]
        datum = {"id": 1, "balance": _dec.Decimal("12.34"), "history": [_dec.Decimal("0.01"), _dec.Decimal("-5.00")], "maybe": _dec.Decimal("7.00")}
        if variant == "single-use":
            # (the raw schema then holds the definition only, no by-name use at all)
            flds, datum = flds[:2], {"id": 1, "balance": _dec.Decimal("12.34")}
        pieces = [money]
        if variant == "with-record":
            flds.append({"name": "rate", "type": "bank.Rate"})
            datum["rate"] = {"per": _dec.Decimal("1.50"), "unit": "h"}
            pieces.append(rate)
        parent = {"type": "record", "name": "bank.Account", "fields": flds}
        raw = copy.deepcopy(parent)
        raw["fields"][1]["type"] = copy.deepcopy(money)
        if variant == "with-record":
            raw["fields"][-1]["type"] = copy.deepcopy(rate)
        named = {}
        for pc in pieces:
            parse_schema(copy.deepcopy(pc), named)
        forms = {"parsed": parse_schema(copy.deepcopy(raw)), "piecewise": parse_schema(copy.deepcopy(parent), named)}
        base = ops(copy.deepcopy(raw), [datum], 3)
        for fname, obj in forms.items():
            got = ops(obj, [datum], 3)
            case = {"schema": raw, "pieces": pieces, "parent": parent, "form": fname, "tags": ["named-logical-type", fname, variant]}
            run.count(case, True, ["named-logical-type:" + fname])
            for k in base:
                if k in ("canon", "container") and fname == "piecewise":
                    continue        # (known finding F4: canonical form and header of a piecewise-parsed schema)
                if observable(k, got.get(k)) != observable(k, base[k]):
                    run.fail(dict(case, operation=k, with_raw=base[k], with_form=got.get(k), tags=case["tags"] + ["op:" + k]),
                             "%s gives a different result with the %s schema than with the raw schema" % (k, fname), kind="oracle")
                    break


def ambiguous_records_by_name_family(run):
    """a union of records of which the datum (a plain dict, no hint) conforms to several and matches a LATER one best; raw: the
    records are defined in place inside the union; piecewise: they are pieces of their own and the union names them (all of
    them / all but one)"""
    click = {"type": "record", "name": "ev.Click", "fields": [{"name": "x", "type": ["null", "int"], "default": None}]}
    key = {"type": "record", "name": "ev.Key", "fields": [{"name": "x", "type": ["null", "int"], "default": None}, {"name": "code", "type": "string"}]}
    wheel = {"type": "record", "name": "ev.Wheel", "fields": [{"name": "x", "type": ["null", "int"], "default": None}, {"name": "code", "type": "string"},
                                                             {"name": "delta", "type": "int"}]}
    data = [{"x": 1, "code": "hi"}, {"x": None}, {"x": 2, "code": "w", "delta": 3}, {"code": "only"}]
    for recs in ([click, key], [click, key, wheel], [key, wheel]):
        for inline_one in (None, 0, len(recs) - 1):
            for shape in ("field", "array", "top-union-in-record"):
                names = [r_["name"] for r_ in recs]
                u_raw = ["null"] + [copy.deepcopy(r_) for r_ in recs]
                u_pw = ["null"] + [copy.deepcopy(r_) if i == inline_one else names[i] for i, r_ in enumerate(recs)]
                pieces = [r_ for i, r_ in enumerate(recs) if i != inline_one]
                if shape == "field":
                    mk = lambda u: {"type": "record", "name": "ev.Env", "fields": [{"name": "e", "type": u}, {"name": "n", "type": "int"}]}
                    vals = [{"e": d, "n": i} for i, d in enumerate(data)]
                elif shape == "array":
                    mk = lambda u: {"type": "record", "name": "ev.Env", "fields": [{"name": "es", "type": {"type": "array", "items": u}}]}
                    vals = [{"es": data}]
                else:
                    mk = lambda u: {"type": "record", "name": "ev.Env", "fields": [{"name": "m", "type": {"type": "map", "values": u}}]}
                    vals = [{"m": {"k%d" % i: d for i, d in enumerate(data)}}]
                vals = [v for v in vals]
                raw, parent = mk(u_raw), mk(u_pw)
                named = {}
                try:
                    for pc in pieces:
                        parse_schema(copy.deepcopy(pc), named)
                    forms = {"parsed": parse_schema(copy.deepcopy(raw)), "piecewise": parse_schema(copy.deepcopy(parent), named)}
                except Exception as e:  # noqa
                    run.notes.append("ambiguous-records family: %r" % (e,))
                    continue
                usable = [v for v in vals if "err" not in str(ops(copy.deepcopy(raw), [v], 3).get("write", ""))[:5]]
                base = ops(copy.deepcopy(raw), usable, 3)
                for fname, obj in forms.items():
                    got = ops(obj, usable, 3)
                    case = {"schema": raw, "pieces": pieces, "parent": parent, "form": fname, "tags": ["ambiguous-records-by-name", fname, shape]}
                    run.count(case, True, ["ambiguous-records-by-name:" + fname])
                    for k in base:
                        if k in ("canon", "container") and fname == "piecewise":
                            continue        # (known finding F4)
                        if observable(k, got.get(k)) != observable(k, base[k]):
                            run.fail(dict(case, operation=k, with_raw=base[k], with_form=got.get(k), tags=case["tags"] + ["op:" + k]),
                                     "%s gives a different result with the %s schema than with the raw schema" % (k, fname), kind="oracle")
                            break


def failed_parse_into_shared_dictionary(run):
    """pieces parsed against one shared dictionary, the parent parsed, then further parses into the SAME dictionary that fail
    — in every way a malformed schema can fail (a schema-parse error, an unknown type, or a plain KeyError / TypeError for
    a definition that lacks a required attribute) while re-declaring a registered name: the parent behaves as before"""
    child = {"type": "fixed", "name": "shop.Sku", "size": 4}
    child2 = {"type": "record", "name": "shop.Item", "fields": [{"name": "sku", "type": "shop.Sku"}, {"name": "n", "type": "int"}]}
    parent = {"type": "record", "name": "shop.Order", "fields": [{"name": "item", "type": "shop.Item"}, {"name": "tag", "type": ["null", "shop.Sku"]}]}
    value = {"item": {"sku": b"abcd", "n": 2}, "tag": b"wxyz"}
    failing = {
        "fixed-without-size": {"type": "record", "name": "shop.X1", "fields": [{"name": "s", "type": {"type": "fixed", "name": "shop.Sku"}}]},
        "record-field-without-type": {"type": "record", "name": "shop.Item", "fields": [{"name": "sku"}]},
        "enum-without-symbols": {"type": "record", "name": "shop.X2", "fields": [{"name": "i", "type": {"type": "enum", "name": "shop.Item"}}]},
        "array-without-items": {"type": "record", "name": "shop.Item", "fields": [{"name": "xs", "type": {"type": "array"}}]},
        "unknown-type": {"type": "record", "name": "shop.Item", "fields": [{"name": "q", "type": "NoSuchType"}]},
        "bad-default": {"type": "record", "name": "shop.Item", "fields": [{"name": "q", "type": "int", "default": "x"}]},
        "map-without-values": {"type": "record", "name": "shop.Sku", "fields": [{"name": "m", "type": {"type": "map"}}]},
    }

    def use(p):
        return ops(p, [value], 1)
    for fname, bad in failing.items():
        named = {}
        parse_schema(copy.deepcopy(child), named)
        parse_schema(copy.deepcopy(child2), named)
        P = parse_schema(copy.deepcopy(parent), named)
        before = use(P)
        try:
            parse_schema(copy.deepcopy(bad), named)
            continue            # (accepted: not a failing parse)
        except Exception:  # noqa
            pass
        after = use(P)
        case = {"schema": parent, "pieces": [child, child2], "failing_parse": bad, "tags": ["piecewise", "failed-parse-into-shared-dictionary", fname]}
        run.count(case, True, ["failed-parse:" + fname])
        for k in before:
            if observable(k, after.get(k)) != observable(k, before[k]):
                run.fail(dict(case, operation=k, before=before[k], after=after.get(k)),
                         "%s with a piecewise-parsed schema changes after a later parse into the shared dictionary failed" % k, kind="oracle")
                break


def run(tier, seed):
    run = Run("C12", tier, seed)
    run.rule = ("schemas of the generator x {raw, parsed, parsed twice, piecewise (a random subset of the named types parsed "
                "separately, dependencies first, against a shared dictionary; the parent refers to them by name)} x "
                "{schemaless write/read, validate, canonical form, container write + stand-alone read, JSON write/read, "
                "generate_one} x conforming and non-conforming data; a chain of five named types all split off; schema resolution with "
                "writer and reader schema in every form (split-off types evolved: field added, promotion, enum symbol lost, field "
                "dropped); non-trivial = schema with a named type")
    run.lean(TARGETS, THEOREMS)
    n = scale(tier, 500)
    reqs, meta = [], []
    from wire import from_wire
    corpus = [(c["schema"], [from_wire(v) for v in c["values"]]) for _, c in load_corpus("C12")]
    # directed: one named type used several times by name, every use with its own default; bytes / fixed defaults
    corpus.append(({"type": "record", "name": "Shape", "fields": [
        {"name": "label", "type": "string"},
        {"name": "fill", "type": {"type": "enum", "name": "Color", "symbols": ["RED", "GREEN", "BLUE"]}, "default": "RED"},
        {"name": "stroke", "type": "Color", "default": "BLUE"},
        {"name": "edge", "type": "Color", "default": "GREEN"},
        {"name": "box", "type": {"type": "record", "name": "Box", "fields": [{"name": "w", "type": "int"}]}, "default": {"w": 1}},
        {"name": "box2", "type": "Box", "default": {"w": 2}},
        {"name": "box3", "type": "Box", "default": {"w": 3}}]},
        [{"label": "a", "fill": "GREEN", "stroke": "RED", "edge": "RED", "box": {"w": 9}, "box2": {"w": 8}, "box3": {"w": 7}}, {"label": "b"}]))
    corpus.append(({"type": "record", "name": "Blob", "fields": [
        {"name": "id", "type": "int"},
        {"name": "raw", "type": "bytes", "default": "\u00ff\u0001"},
        {"name": "sig", "type": {"type": "fixed", "name": "Sig", "size": 2}, "default": "ab"},
        {"name": "sig2", "type": "Sig", "default": "cd"}]},
        [{"id": 1, "raw": b"\x00\xfe", "sig": b"xy", "sig2": b"zw"}]))
    # directed: a chain of five named types, each referring to the next by name; containers and a nullable union at the end
    chain = {"type": "record", "name": "Site", "fields": [
        {"name": "name", "type": "string"},
        {"name": "main", "type": {"type": "record", "name": "Building", "fields": [
            {"name": "ground", "type": {"type": "record", "name": "Floor", "fields": [
                {"name": "lobby", "type": {"type": "record", "name": "Room", "fields": [
                    {"name": "desk", "type": {"type": "record", "name": "Desk", "fields": [
                        {"name": "drawers", "type": {"type": "array", "items": "int"}},
                        {"name": "labels", "type": {"type": "map", "values": "string"}},
                        {"name": "owner", "type": ["null", "string"]}]}},
                    {"name": "spare", "type": ["null", "Desk"]}]}}]}}]}}]}
    corpus.append((chain, [{"name": "s", "main": {"ground": {"lobby": {"desk": {"drawers": [1, 2], "labels": {"a": "b"}, "owner": "o"},
                                                                        "spare": None}}}}]))
    n_forced = len(corpus)
    for i in range(n + len(corpus)):
        g = gen.Gen(seed * 12000017 + i, logical=(i % 3 == 0), bytes_defaults=False, hints=False)
        if i < len(corpus):
            s, data = corpus[i]
        else:
            try:
                s, ctx = g.top_schema()
                data = [g.datum(s, ctx, hint_ok=False) for _ in range(2)]
                if g.r.random() < 0.3:
                    data.append(gen.mutate(g, s, data[0], ctx))
            except Exception:
                continue
        case = {"schema": s, "values": [to_wire(v) for v in data]}
        tags = sorted(t for t in schema_tags(s) if t in ("record", "enum", "fixed", "ref", "union"))
        if '"namespace": ""' in json.dumps(s):
            tags.append("null-namespace")
        if not isinstance(s, dict) or s.get("type") != "record":
            tags.append("top-level-not-record")
        case["tags"] = tags
        run.count(case, bool(set(tags) & {"record", "enum", "fixed"}), tags)
        try:
            p = parse_schema(copy.deepcopy(s))
        except Exception:
            continue
        # idempotence
        try:
            p2 = parse_schema(p)
            if strip(p2) != strip(p):
                case["parsed"], case["parsed_twice"] = strip(p), strip(p2)
                run.fail(case, "parsing an already parsed schema changes it", kind="oracle")
                continue
        except Exception as e:  # noqa
            case["error"] = repr(e)
            run.fail(case, "parsing an already parsed schema raises %s" % exc_class(e), kind="oracle")
            continue
        base = ops(copy.deepcopy(s), data, i)
        run.cov["traces_validated_against_impl"] += 1
        forms = [("parsed", p, None)]
        pw = None
        if isinstance(s, dict) and s.get("type") == "record":
            try:
                tree, table = to_tree(s)
                pw = pieces_of(g.r, tree, table, all_of=(i < n_forced))
            except Exception:
                pw = None
            if pw:
                pieces, parent = pw
                if not (refs_need_null_ns(parent) or any(refs_need_null_ns(x) for x in pieces)):
                    try:
                        named = {}
                        for pc in pieces:
                            parse_schema(copy.deepcopy(pc), named)
                        forms.append(("piecewise", parse_schema(copy.deepcopy(parent), named), pw))
                        reqs.append({"op": "parse", "schema": to_wire(parent), "named": [to_wire(x) for x in pieces]})
                        meta.append((case, base["canon"]))
                    except Exception as e:  # noqa
                        case["pieces"], case["parent"], case["error"] = pieces, parent, repr(e)
                        run.fail(dict(case, tags=tags + ["piecewise"]), "piecewise parsing of a valid schema raises %s" % exc_class(e), kind="oracle")
            # the same with pieces that were parsed on their own (each with its own dictionary) and are
            # registered, already parsed, in a shared dictionary that is not empty
            try:
                pw2 = pieces_of(g.r, tree, table, leaves_only=True)
            except Exception:
                pw2 = None
            if pw2 and not (refs_need_null_ns(pw2[1]) or any(refs_need_null_ns(x) for x in pw2[0])):
                try:
                    named = {}
                    parse_schema({"type": "fixed", "name": "zz.Unrelated", "size": 1}, named)
                    for pc in pw2[0]:
                        parse_schema(parse_schema(copy.deepcopy(pc)), named)
                    forms.append(("piecewise", parse_schema(copy.deepcopy(pw2[1]), named), pw2))
                    run.tag("form:registered-parsed-pieces")
                except Exception as e:  # noqa
                    run.fail(dict(case, pieces=pw2[0], parent=pw2[1], error=repr(e), tags=tags + ["piecewise", "registered-parsed"]),
                             "registering separately parsed pieces in a shared dictionary, then parsing the parent, raises %s" % exc_class(e),
                             kind="oracle")
        for fname, obj, split in forms:
            got = ops(obj, data, i)
            run.cov["evaluations"] += 1
            run.tag("form:" + fname)
            for k in base:
                if observable(k, got.get(k)) != observable(k, base[k]):
                    c2 = dict(case, form=fname, operation=k, with_raw=base[k], with_form=got.get(k), tags=tags + [fname, "op:" + k])
                    if split:
                        c2["pieces"], c2["parent"] = split
                    if run.fail(c2, "%s gives a different result with the %s schema than with the raw schema" % (k, fname), kind="oracle") != "known":
                        break
    resolution_family(run)
    failed_parse_into_shared_dictionary(run)
    named_logical_family(run)
    ambiguous_records_by_name_family(run)
    # model: piecewise parsing registers the same names and gives a schema with the same named types
    res = run_batch(reqs) if reqs else []
    for (case, canon_raw), r in zip(meta, res):
        if "ok" not in r:
            run.fail(dict(case, model=r), "correspondence: the model rejects a piecewise parse the implementation accepts", kind="correspondence")
    return run.finish()
