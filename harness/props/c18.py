"""C18 — concurrent operations on distinct streams behave as if run sequentially (DESIGN §5 C18).

Two real threads run two public operations on distinct streams (sharing parsed-schema objects where
the operations use the same schema).  A deterministic scheduler built on sys.settrace pre-empts thread
A at a chosen *line event* inside the fastavro package, lets thread B run to completion, and resumes
A — for every chosen pre-emption point of every ordered pair of operations.  Every thread's result
must be the one it produces alone.  (One context switch at every line boundary is the search that
exposes atomicity violations on shared objects; free-running threads with a tiny switch interval
complement it in the thorough tier.)  The Lean side proves the abstract statement (read-only sharing
is serialisable under every interleaving) and checks, against the effect table regenerated from the
source, that no public entry point writes a shared object."""
import copy
import decimal
import hashlib
import io
import os
import random
import sys
import threading
import zlib

import fastavro
from fastavro import parse_schema, schemaless_reader, schemaless_writer
from fastavro.schema import to_parsing_canonical_form, fingerprint
from fastavro.validation import validate
import fastavro.utils  # noqa
import fastavro.json_read  # noqa
import fastavro.json_write  # noqa

import gen
from core import Run, REPO
from wire import to_wire, canon, exc_class
from props.common import scale

THEOREMS = ["c18_table_threadsafe", "c18_interleaving_serializable", "c18_write_sharing_is_unsafe"]
TARGETS = ["Properties.C18"]

PKG = os.path.join(REPO, "fastavro") + os.sep


def outcome(fn):
    try:
        return {"ok": fn()}
    except RecursionError:
        return {"err": "fuel"}
    except Exception as e:  # noqa
        return {"err": exc_class(e)}


def make_ops(seed):
    """named zero-argument operations on private streams; schemas parsed once and shared"""
    r = random.Random(seed)
    REC = {"type": "record", "name": "Rec", "namespace": "t", "fields": [
        {"name": "id", "type": "long"}, {"name": "name", "type": "string"},
        {"name": "tags", "type": {"type": "array", "items": "string"}},
        {"name": "opt", "type": ["null", "double", {"type": "enum", "name": "Col", "symbols": ["R", "G"]}], "default": None},
        {"name": "m", "type": {"type": "map", "values": "int"}}]}
    rec = {"id": r.randint(-2 ** 40, 2 ** 40), "name": "nm%d" % r.randint(0, 99), "tags": ["a", "b"], "opt": "G", "m": {"k": 1, "l": 2}}
    REC2 = dict(REC, fields=[{"name": "name", "type": "string"}, {"name": "id", "type": "double"},
                             {"name": "extra", "type": "int", "default": 7}])
    D5 = {"type": "bytes", "logicalType": "decimal", "precision": 5, "scale": 0}
    D2 = {"type": "bytes", "logicalType": "decimal", "precision": 2, "scale": 0}
    D9 = {"type": "fixed", "name": "Fx", "size": 8, "logicalType": "decimal", "precision": 9, "scale": 2}
    LOG = {"type": "record", "name": "Log", "fields": [
        {"name": "d", "type": {"type": "int", "logicalType": "date"}},
        {"name": "ts", "type": {"type": "long", "logicalType": "timestamp-micros"}},
        {"name": "u", "type": {"type": "string", "logicalType": "uuid"}},
        {"name": "amount", "type": {"type": "bytes", "logicalType": "decimal", "precision": 12, "scale": 3}}]}
    import datetime
    import uuid
    log = {"d": datetime.date(2020, 2, 29), "ts": datetime.datetime(2001, 2, 3, 4, 5, 6, 7, tzinfo=datetime.timezone.utc),
           "u": uuid.UUID(int=r.getrandbits(128)), "amount": decimal.Decimal("123456789.125")}
    P = {k: parse_schema(copy.deepcopy(v)) for k, v in (("REC", REC), ("LOG", LOG))}

    def enc(s, v):
        fo = io.BytesIO()
        schemaless_writer(fo, s, v)
        return fo.getvalue()

    b_rec = enc(P["REC"], rec)
    b_log = enc(P["LOG"], log)
    b5 = enc(D5, decimal.Decimal("12345"))
    b2 = enc(D2, decimal.Decimal("12"))
    b9 = enc(D9, decimal.Decimal("1234567.89"))
    cont = io.BytesIO()
    fastavro.writer(cont, P["REC"], [rec, rec], codec="deflate", sync_marker=b"0123456789abcdef")
    cont = cont.getvalue()

    def container_write():
        fo = io.BytesIO()
        fastavro.writer(fo, P["REC"], [rec, rec, rec], codec="deflate", sync_marker=b"0123456789abcdef")
        return fo.getvalue().hex()

    def json_rt():
        so = io.StringIO()
        fastavro.json_writer(so, P["REC"], [rec])
        return [so.getvalue(), [canon(to_wire(x)) for x in fastavro.json_reader(io.StringIO(so.getvalue()), P["REC"])]]

    def container_write_null():
        fo = io.BytesIO()
        fastavro.writer(fo, P["REC"], [rec], codec="null", sync_marker=b"0123456789abcdef")
        return fo.getvalue().hex()

    def container_write_bzip2():
        from fastavro.write import Writer
        fo = io.BytesIO()
        w = Writer(fo, P["REC"], codec="bzip2", sync_marker=b"0123456789abcdef")
        w.write(rec)
        w.flush()
        return fo.getvalue().hex()

    def expand_parsed():
        from fastavro.schema import expand_schema
        return to_parsing_canonical_form(parse_schema(P["REC"], expand=True)) + "|" + str(len(str(expand_schema(P["REC"]))))

    ops = {
        "container-write-null": container_write_null,
        "container-write-bzip2": container_write_bzip2,
        "expand-parsed": expand_parsed,
        "write-record": lambda: enc(P["REC"], rec).hex(),
        "read-record": lambda: canon(to_wire(schemaless_reader(io.BytesIO(b_rec), P["REC"]))),
        "validate-record": lambda: validate(rec, P["REC"], raise_errors=False),
        "parse-schema": lambda: to_parsing_canonical_form(parse_schema(copy.deepcopy(REC))),
        "fingerprint": lambda: fingerprint(to_parsing_canonical_form(P["REC"]), "CRC-64-AVRO"),
        "resolve-record": lambda: canon(to_wire(schemaless_reader(io.BytesIO(b_rec), P["REC"], copy.deepcopy(REC2)))),
        "container-write": container_write,
        "container-read": lambda: [canon(to_wire(x)) for x in fastavro.reader(io.BytesIO(cont))],
        "json-roundtrip": json_rt,
        "write-logical": lambda: enc(P["LOG"], log).hex(),
        "read-logical": lambda: canon(to_wire(schemaless_reader(io.BytesIO(b_log), P["LOG"]))),
        "read-decimal-p5": lambda: str(schemaless_reader(io.BytesIO(b5), D5)),
        "read-decimal-p2": lambda: str(schemaless_reader(io.BytesIO(b2), D2)),
        "read-decimal-fixed-p9": lambda: str(schemaless_reader(io.BytesIO(b9), D9)),
    }
    # deeply nested data (a linked list of a few hundred nodes): whatever such an operation does alone — return or
    # RecursionError — it does in every schedule
    # (nesting through an array, not through a union: no branch matching, the cost stays linear in the depth)
    LIST = {"type": "record", "name": "t.Node", "fields": [{"name": "v", "type": "int"}, {"name": "next", "type": {"type": "array", "items": "t.Node"}}]}
    P["LIST"] = parse_schema(copy.deepcopy(LIST))
    deep = {"v": 0, "next": []}
    for i_ in range(1, 300):
        deep = {"v": i_, "next": [deep]}
    shallow = {"v": 1, "next": [{"v": 2, "next": []}]}
    b_shallow = enc(P["LIST"], shallow)
    ops["write-deep-list"] = lambda: hashlib.sha1(enc(P["LIST"], deep)).hexdigest()
    ops["write-read-shallow-list"] = lambda: canon(to_wire(schemaless_reader(io.BytesIO(enc(P["LIST"], shallow)), P["LIST"])))
    ops["read-shallow-list"] = lambda: canon(to_wire(schemaless_reader(io.BytesIO(b_shallow), P["LIST"])))
    # a field left out of the datum whose default is a record / an array of records: two operations then work on the very
    # same default objects of the shared parsed schema
    DEF = {"type": "record", "name": "t.Stop", "fields": [
        {"name": "n", "type": "int"},
        {"name": "depot", "type": {"type": "record", "name": "t.Place", "fields": [{"name": "x", "type": "int"}, {"name": "y", "type": "int"},
                                                                                   {"name": "label", "type": "string"}]},
         "default": {"x": 0, "y": 0, "label": "home"}},
        {"name": "via", "type": {"type": "array", "items": "t.Place"}, "default": [{"x": 1, "y": 1, "label": "a"}]},
        {"name": "alt", "type": ["t.Place", "null"], "default": {"x": 2, "y": 2, "label": "alt"}}]}
    P["DEF"] = parse_schema(copy.deepcopy(DEF))
    stop = {"n": 5}
    ops["write-defaulted-record"] = lambda: enc(P["DEF"], stop).hex()
    ops["validate-defaulted-record"] = lambda: validate(stop, P["DEF"], raise_errors=False)
    # resolution with BOTH schemas parsed once and shared
    P["REC2"] = parse_schema(copy.deepcopy(REC2))
    ops["resolve-record-shared-reader"] = lambda: canon(to_wire(schemaless_reader(io.BytesIO(b_rec), P["REC"], P["REC2"])))
    # reads that differ only in an OPTION of the call (how undecodable string bytes are treated): string values that
    # are not UTF-8, schemaless and container
    BADS = {"type": "record", "name": "t.Txt", "fields": [{"name": "s", "type": "string"}, {"name": "m", "type": {"type": "map", "values": "string"}}]}
    P["BADS"] = parse_schema(copy.deepcopy(BADS))
    bad_txt = b"ab\xff\xfecd"
    b_bads = bytes([len(bad_txt) * 2]) + bad_txt + b"\x02\x02k" + bytes([len(bad_txt) * 2]) + bad_txt + b"\x00"     # (map keys are always strict)
    cont_bads = io.BytesIO()
    fastavro.writer(cont_bads, P["BADS"], [], codec="null", sync_marker=b"0123456789abcdef")        # the header alone
    cont_bads = cont_bads.getvalue() + b"\x04" + bytes([2 * 2 * len(b_bads)]) + b_bads + b_bads + b"0123456789abcdef"   # one block of two records
    for mode in ("strict", "replace", "ignore"):
        ops["read-bad-utf8-" + mode] = (lambda mode=mode: canon(to_wire(schemaless_reader(io.BytesIO(b_bads), P["BADS"], handle_unicode_errors=mode))))
        ops["container-read-bad-utf8-" + mode] = (lambda mode=mode: [canon(to_wire(x)) for x in fastavro.reader(io.BytesIO(cont_bads), handle_unicode_errors=mode)])
    ops_shared = [P[k] for k in sorted(P)]
    raw = {"REC": REC, "LOG": LOG, "LIST": LIST, "DEF": DEF, "REC2": REC2, "BADS": BADS}

    def refresh():
        """freshly parsed schema objects (no operation has touched them yet) under the same names"""
        for k in sorted(P):
            P[k] = parse_schema(copy.deepcopy(raw[k]))
        ops_shared[:] = [P[k] for k in sorted(P)]
    return ops, ops_shared, refresh


def count_points(op):
    """number of line events inside the fastavro package while `op` runs alone"""
    n = [0]

    def tracer(frame, event, arg):
        if not frame.f_code.co_filename.startswith(PKG):
            return None

        def local(frame, event, arg):
            if event == "line":
                n[0] += 1
            return local
        n[0] += 1
        return local
    sys.settrace(tracer)
    try:
        outcome(op)
    finally:
        sys.settrace(None)
    return n[0]


_SHARED_OBJS = None
_MODULE_GLOBALS = None


def _shared_objects():
    """mutable module-level objects and mutable default arguments of every function / method of the package"""
    import types
    objs = []
    for name, mod in sorted(sys.modules.items()):
        if not (name == "fastavro" or name.startswith("fastavro.")) or mod is None:
            continue
        for k, v in sorted(vars(mod).items()):
            if k.startswith("__"):
                continue
            if isinstance(v, (dict, list, set, bytearray)):
                objs.append(v)
            elif isinstance(v, types.FunctionType):
                objs += [dv for dv in (v.__defaults__ or ()) + tuple((v.__kwdefaults__ or {}).values()) if isinstance(dv, (dict, list, set, bytearray))]
            elif isinstance(v, type) and v.__module__ == name:
                for mv in vars(v).values():
                    if isinstance(mv, types.FunctionType):
                        objs += [dv for dv in (mv.__defaults__ or ()) + tuple((mv.__kwdefaults__ or {}).values())
                                 if isinstance(dv, (dict, list, set, bytearray))]
            elif hasattr(v, "__dict__") and not isinstance(v, (types.ModuleType, type, types.FunctionType)) \
                    and type(v).__module__.split(".")[0] in ("fastavro", "decimal", "threading", "_thread"):
                objs.append(v)
    return objs


def _sig(o):
    """shallow signature: membership and identity of the members (an insertion, deletion or re-binding changes it)"""
    if isinstance(o, dict):
        return tuple((id(k), id(v)) for k, v in o.items())
    if isinstance(o, (list, bytearray)):
        return (len(o), tuple(map(id, o)) if isinstance(o, list) else bytes(o))
    if isinstance(o, set):
        return len(o)
    try:
        return tuple((k, id(v)) for k, v in vars(o).items()) or repr(o)
    except TypeError:
        return repr(o)


def shared_state_digest(shared):
    """a cheap fingerprint of everything operations could share (see _shared_objects) plus, deeply, the parsed
    schemas handed to several operations"""
    global _SHARED_OBJS, _MODULE_GLOBALS
    if _SHARED_OBJS is None:
        import types
        _SHARED_OBJS = _shared_objects()
        _MODULE_GLOBALS = [(vars(mod), [k for k, v in vars(mod).items() if not k.startswith("__")
                                        and not isinstance(v, (types.FunctionType, type, types.ModuleType))])
                           for name, mod in sorted(sys.modules.items())
                           if (name == "fastavro" or name.startswith("fastavro.")) and mod is not None]
    # re-binding of module-level names (`global X; X = ...`): identity of every non-callable global, number of globals
    mods = tuple((len(d), tuple(id(d.get(k)) for k in keys)) for d, keys in _MODULE_GLOBALS)
    # interpreter-wide settings an operation might change and put back
    interp = (sys.getrecursionlimit(), repr(decimal.getcontext()), sys.getswitchinterval())
    return hash((tuple(_sig(o) for o in _SHARED_OBJS), mods, repr(shared), interp))


def dirty_points(op, shared):
    """line events of `op` (run alone) right after which the shared state differs from what it was one line before:
    the windows in which another thread could observe — or disturb — a half-done update"""
    changes = []
    n = [0]
    last = [shared_state_digest(shared)]

    def tracer(frame, event, arg):
        if not frame.f_code.co_filename.startswith(PKG):
            return None

        def hit():
            n[0] += 1
            if n[0] > 6000:             # a long operation: its first 6000 line events are what is fingerprinted
                return
            d = shared_state_digest(shared)
            if d != last[0]:
                last[0] = d
                changes.append(n[0])

        def local(frame, event, arg):
            if event == "line":
                hit()
            return local
        hit()
        return local
    sys.settrace(tracer)
    try:
        outcome(op)
    finally:
        sys.settrace(None)
    pts = set()
    for c in changes[:12]:
        pts.update(range(c, c + 20))
    return sorted(pts), changes


def sensitive_points(op, shared):
    """line events of `op` (run alone) in frames one of whose local variables IS one of the shared parsed-schema objects:
    there the operation is working on — possibly iterating over — the very object other operations hold too"""
    pts = []
    n = [0]

    def tracer(frame, event, arg):
        if not frame.f_code.co_filename.startswith(PKG):
            return None

        def hit(frame):
            n[0] += 1
            try:
                vals = list(frame.f_locals.values())
            except Exception:  # noqa
                return
            if any(v is s_ for v in vals for s_ in shared):
                pts.append(n[0])

        def local(frame, event, arg):
            if event == "line":
                hit(frame)
            return local
        hit(frame)
        return local
    sys.settrace(tracer)
    try:
        outcome(op)
    finally:
        sys.settrace(None)
    return pts


def run_two_switches(opA, opB, k, j):
    """A is parked at its k-th line event, B starts and is parked at its j-th, A resumes and completes, then B completes:
    start(A) < start(B) < end(A) < end(B).  Returns (result A, result B)."""
    a_parked, a_resume, b_parked, b_resume = threading.Event(), threading.Event(), threading.Event(), threading.Event()
    res = {}

    def mk_tracer(at, parked, resume):
        n = [0]

        def tracer(frame, event, arg):
            if not frame.f_code.co_filename.startswith(PKG):
                return None

            def hit():
                n[0] += 1
                if n[0] == at:
                    parked.set()
                    resume.wait(20)

            def local(frame, event, arg):
                if event == "line":
                    hit()
                return local
            hit()
            return local
        return tracer

    def A():
        sys.settrace(mk_tracer(k, a_parked, a_resume))
        try:
            res["A"] = outcome(opA)
        finally:
            sys.settrace(None)
            a_parked.set()
            b_resume.set()

    def B():
        a_parked.wait(20)
        sys.settrace(mk_tracer(j, b_parked, b_resume))
        try:
            res["B"] = outcome(opB)
        finally:
            sys.settrace(None)
            b_parked.set()

    def conductor():
        a_parked.wait(20)
        b_parked.wait(20)
        a_resume.set()

    ts = [threading.Thread(target=f) for f in (A, B, conductor)]
    for t in ts:
        t.start()
    for t in ts:
        t.join(40)
    return res.get("A"), res.get("B")


def run_preempted(opA, opB, k):
    """thread A runs opA and is parked at its k-th line event inside the package; thread B then runs opB to
    completion; A resumes.  Returns (result A, result B, where A was parked)."""
    parked = threading.Event()
    resume = threading.Event()
    res = {}
    where = [None]
    n = [0]

    def tracer(frame, event, arg):
        if not frame.f_code.co_filename.startswith(PKG):
            return None

        def hit(frame):
            n[0] += 1
            if n[0] == k:
                where[0] = "%s:%d %s" % (os.path.basename(frame.f_code.co_filename), frame.f_lineno, frame.f_code.co_name)
                parked.set()
                resume.wait(20)

        def local(frame, event, arg):
            if event == "line":
                hit(frame)
            return local
        hit(frame)
        return local

    def A():
        sys.settrace(tracer)
        try:
            res["A"] = outcome(opA)
        finally:
            sys.settrace(None)
            parked.set()

    def B():
        parked.wait(20)
        res["B"] = outcome(opB)
        resume.set()

    ta = threading.Thread(target=A)
    tb = threading.Thread(target=B)
    ta.start()
    tb.start()
    ta.join(30)
    tb.join(30)
    return res.get("A"), res.get("B"), where[0]


def run(tier, seed):
    run = Run("C18", tier, seed)
    run.rule = ("ordered pairs of 14 operation kinds (write / read / validate / parse / fingerprint / resolve / container write "
                "and read / JSON / logical types / decimals of three precisions) on distinct streams sharing parsed schemas; "
                "thread A pre-empted at a line event inside the package, thread B run to completion, A resumed — for every "
                "chosen pre-emption point (quick: up to 24 evenly spaced points plus every point inside functions that touch a "
                "module-level state object; thorough: up to 400 evenly spaced points, every point of operations shorter than that); "
                "results compared with the sequential ones")
    run.lean(TARGETS, THEOREMS)
    ops, ops_shared, refresh = make_ops(seed)
    alone = {k: outcome(f) for k, f in ops.items()}
    # windows in which an operation, run alone, has changed state that operations share (found dynamically, whatever the
    # static effect table says): every point of those windows is a pre-emption point for every partner
    dirty = {}
    first_use_changes = {}
    for k_, f_ in ops.items():
        refresh()                       # what an operation does to a parsed schema the FIRST time it meets it counts too
        pts, changes = dirty_points(f_, ops_shared)
        dirty[k_] = pts
        first_use_changes[k_] = changes
        if changes:
            run.tag("shared-state-changes:" + k_, len(changes))
    alone2 = {k: outcome(f) for k, f in ops.items()}
    for k_ in ops:
        if alone2[k_] != alone[k_]:
            run.fail({"op": k_, "first": alone[k_], "again": alone2[k_], "tags": ["sequential"]},
                     "an operation run a second time (sequentially) gives another result", kind="oracle")
    names = sorted(ops)
    cap = 24 if tier == "quick" else 400      # (every point of a 20 000-event operation x 20 partners would take hours)
    # functions that touch module-level state objects (from the effect table's local summaries)
    import gen_effects
    mods, summ, entries, state_objects = gen_effects.analyse(REPO)
    touchy = {(key[0], key[1].split(".")[-1]) for key, s in summ.items() if s["writes"]}
    for a in names:
        na = count_points(ops[a])
        for b in names:
            if len(run.violations) >= 25:
                break          # a broken tree does not need every schedule
            if tier == "quick" and (zlib.crc32(("%s|%s|%d" % (a, b, seed)).encode()) % 3 != 0) and not (a.startswith("read-decimal") and b.startswith("read-decimal")) \
                    and not ("-bad-utf8-" in a and "-bad-utf8-" in b) and not dirty[a]:
                continue
            if na <= cap:
                points = list(range(1, na + 1))
            else:
                step = na / float(cap)
                points = sorted({int(1 + i * step) for i in range(cap)})
            if dirty[a]:
                if tier == "quick" and (zlib.crc32(("%s|%s|%d" % (a, b, seed)).encode()) % 3 != 0):
                    points = []          # pair not selected for the even sweep: only the dirty windows
                points = sorted(set(points) | set(p_ for p_ in dirty[a] if p_ <= na))
            # always include the points inside functions that write module-level state
            if touchy:
                extra = []
                cnt = [0]

                def tracer(frame, event, arg):
                    if not frame.f_code.co_filename.startswith(PKG):
                        return None
                    modname = os.path.basename(frame.f_code.co_filename)[:-3]
                    is_t = (modname, frame.f_code.co_name) in touchy

                    def local(frame, event, arg):
                        if event == "line":
                            cnt[0] += 1
                            if is_t:
                                extra.append(cnt[0])
                        return local
                    cnt[0] += 1
                    if is_t:
                        extra.append(cnt[0])
                    return local
                sys.settrace(tracer)
                try:
                    outcome(ops[a])
                finally:
                    sys.settrace(None)
                if len(extra) > 3 * cap:        # (a change that makes every writer frame a state-writing one: a sample of them)
                    extra = [extra[int(i * len(extra) / (3.0 * cap))] for i in range(3 * cap)]
                points = sorted(set(points) | set(extra))
            for k in points:
                if first_use_changes[a] or first_use_changes[b]:
                    refresh()
                ra, rb, where = run_preempted(ops[a], ops[b], k)
                case = {"A": a, "B": b, "preempt_at": k, "where": where, "tags": [a, b]}
                run.count(case, True, ["A:" + a])
                run.cov["traces_validated_against_impl"] += 1
                if ra != alone[a] or rb != alone[b]:
                    case["A_alone"], case["A_interleaved"], case["B_alone"], case["B_interleaved"] = alone[a], ra, alone[b], rb
                    run.fail(case, "a thread's result under an interleaving differs from its sequential result", kind="oracle")
                    break
    # ---- an operation that changes shared state (also: the first time it meets a fresh parsed schema) against partners parked
    # where THEY hold one of the shared schema objects in a local variable (iterating over it, say)
    changers = [b for b in names if first_use_changes[b]]
    if len(changers) > 6 and tier == "quick":
        changers = sorted(random.Random(seed).sample(changers, 6))
    if changers:
        for a in names:
            refresh()
            sp = sensitive_points(ops[a], ops_shared)
            if len(sp) > 40:
                step = len(sp) / 40.0
                sp = sorted({sp[int(i * step)] for i in range(40)})
            for b in changers:
                if len(run.violations) >= 25:
                    break
                for k in sp:
                    refresh()
                    ra, rb, where = run_preempted(ops[a], ops[b], k)
                    case = {"A": a, "B": b, "preempt_at": k, "where": where, "fresh_schema_objects": True, "tags": [a, b, "first-use"]}
                    run.count(case, True, ["first-use"])
                    if ra != alone[a] or rb != alone[b]:
                        case["A_alone"], case["A_interleaved"], case["B_alone"], case["B_interleaved"] = alone[a], ra, alone[b], rb
                        run.fail(case, "a thread's result under an interleaving differs from its sequential result", kind="oracle")
                        break
    # ---- two switches: A parked inside a window in which it has changed shared or interpreter-wide state, B started and
    # parked, A completes (putting things back), B completes
    for a in names:
        win = dirty[a]
        if not win:
            continue
        ks = sorted({win[int(i * len(win) / 6.0)] for i in range(6)})
        for b in names:
            if len(run.violations) >= 25:
                break
            nb = count_points(ops[b])
            if nb < 4:
                continue
            js = sorted({max(1, int(nb * f)) for f in (0.15, 0.4, 0.6, 0.85)})
            if tier == "quick" and not (b.endswith("-list") or zlib.crc32(("2s|%s|%s|%d" % (a, b, seed)).encode()) % 4 == 0):
                continue
            for k in ks:
                for j in js:
                    if first_use_changes[a] or first_use_changes[b]:
                        refresh()
                    ra, rb = run_two_switches(ops[a], ops[b], k, j)
                    case = {"A": a, "B": b, "A_parked_at": k, "B_parked_at": j, "schedule": "A parked, B parked, A completes, B completes",
                            "tags": [a, b, "two-switches"]}
                    run.count(case, True, ["two-switches"])
                    if ra != alone[a] or rb != alone[b]:
                        case["A_alone"], case["A_interleaved"], case["B_alone"], case["B_interleaved"] = alone[a], ra, alone[b], rb
                        run.fail(case, "a thread's result under an interleaving differs from its sequential result", kind="oracle")
                        break
    # ---- the same operation in both threads on schema objects neither has met (every schedule starts from freshly parsed
    # schemas): whatever an operation registers about a schema object the first time it meets it is registered by both
    for a in names:
        if len(run.violations) >= 25:
            break
        if not (a.startswith("resolve") or a.endswith("-defaulted-record") or (tier != "quick" and a in ("write-record", "read-record", "validate-record", "read-logical", "write-logical"))):
            continue
        na = count_points(ops[a])
        capf = 120 if tier == "quick" else 400
        pts = list(range(1, na + 1)) if na <= capf else sorted({int(1 + i * na / float(capf)) for i in range(capf)})
        for k in pts:
            refresh()
            ra, rb, where = run_preempted(ops[a], ops[a], k)
            case = {"A": a, "B": a, "preempt_at": k, "where": where, "fresh_schema_objects": True, "tags": [a, "same-op-fresh-objects"]}
            run.count(case, True, ["same-op-fresh-objects"])
            if ra != alone[a] or rb != alone[a]:
                case["A_alone"], case["A_interleaved"], case["B_alone"], case["B_interleaved"] = alone[a], ra, alone[a], rb
                run.fail(case, "a thread's result under an interleaving differs from its sequential result", kind="oracle")
                break
    # ---- aftermath: what the schedules left behind.  Several hundred further resolutions of schema objects never met before
    # (bounded tables kept by the package then turn over), then every operation once more, sequentially
    if len(run.violations) < 25:
        bad = None
        for i in range(400):
            refresh()
            for nm in ("resolve-record", "resolve-record-shared-reader"):
                r_ = outcome(ops[nm])
                run.cov["evaluations"] += 1
                if r_ != alone[nm] and bad is None:
                    bad = (nm, i, r_)
        run.tag("aftermath:fresh-resolutions", 800)
        if bad:
            run.fail({"op": bad[0], "alone": alone[bad[0]], "after_the_schedules": bad[2], "fresh_resolution_number": bad[1], "tags": ["aftermath", bad[0]]},
                     "after the interleaved schedules, an operation run on its own (sequentially) no longer gives its sequential result", kind="oracle")
        for nm in names:
            r_ = outcome(ops[nm])
            run.cov["evaluations"] += 1
            run.tag("aftermath:every-operation")
            if r_ != alone[nm]:
                run.fail({"op": nm, "alone": alone[nm], "after_the_schedules": r_, "tags": ["aftermath", nm]},
                         "after the interleaved schedules, an operation run on its own (sequentially) no longer gives its sequential result", kind="oracle")
    if tier != "quick":
        # free-running threads with a tiny switch interval
        old = sys.getswitchinterval()
        sys.setswitchinterval(1e-6)
        try:
            for rep in range(300):
                picks = [random.Random(seed * 31 + rep * 7 + i).choice(names) for i in range(4)]
                res = [None] * 4

                def work(i, nm):
                    res[i] = outcome(ops[nm])
                ts = [threading.Thread(target=work, args=(i, nm)) for i, nm in enumerate(picks)]
                for t in ts:
                    t.start()
                for t in ts:
                    t.join(30)
                run.cov["evaluations"] += 1
                run.tag("free-running")
                for i, nm in enumerate(picks):
                    if res[i] != alone[nm]:
                        run.fail({"ops": picks, "thread": i, "alone": alone[nm], "got": res[i], "tags": ["free-running"] + picks},
                                 "a thread's result under free-running concurrency differs from its sequential result", kind="oracle")
        finally:
            sys.setswitchinterval(old)
    return run.finish()
