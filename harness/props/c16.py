"""C16 — logical types use the specification's representation and round-trip over their whole
domain (DESIGN §5 C16)."""
import datetime
import decimal
import io
import os
import random
import time
import uuid

os.environ["TZ"] = "UTC"
time.tzset()

import fastavro

import impl
from core import Run
from driver import run_batch
from wire import to_wire, canon, exc_class
from props.common import scale, same, load_corpus

THEOREMS = ["c16_date", "c16_time_millis", "c16_time_micros", "c16_timestamp_millis", "c16_timestamp_micros",
            "c16_bytes_decimal", "c16_fixed_decimal", "c16_decimal_never_other_number", "c16_twos_complement"]
TARGETS = ["Properties.TablesLogical", "Properties.C16"]

UTC = datetime.timezone.utc
EPOCH = datetime.datetime(1970, 1, 1, tzinfo=UTC)
US = datetime.timedelta(microseconds=1)
D = decimal.Decimal


def lt(t, name, **kw):
    return dict({"type": t, "logicalType": name}, **kw)


def zz_dec(b):
    """decode one zig-zag varint"""
    n = 0
    shift = 0
    i = 0
    while True:
        c = b[i]
        n |= (c & 0x7F) << shift
        shift += 7
        i += 1
        if not c & 0x80:
            break
    return (n >> 1) ^ -(n & 1), i


def twos(n, size):
    return (n % (1 << (8 * size))).to_bytes(size, "big")


def min_twos(n):
    size = 1
    while not (-(1 << (8 * size - 1)) <= n < (1 << (8 * size - 1))):
        size += 1
    return size


def dec_expect(d, precision, scale_, size=None):
    """('bytes', b) the specification's representation, or ('err',) when the schema cannot hold d"""
    sign, digits, exp = d.as_tuple()
    mag = int("".join(map(str, digits)))
    e = exp + scale_
    if e >= 0:
        u = mag * 10 ** e
    else:
        # more fractional digits (as written, trailing zeros included) than the scale
        return ("err", "more fractional digits than the scale")
    if sign:
        u = -u
    ndig = len(str(abs(u))) if u != 0 else 1
    if ndig > precision:
        return ("err", "more significant digits than the precision")
    if size is None:
        return ("bytes", u)
    if not (-(1 << (8 * size - 1)) <= u < (1 << (8 * size - 1))):
        return ("err", "does not fit the fixed size")
    return ("bytes", u)


def gen_cases(rnd, n):
    cases = []   # (schema, value, kind, expected-raw or None)
    # ---- dates
    dates = [datetime.date(1, 1, 1), datetime.date(9999, 12, 31), datetime.date(1970, 1, 1), datetime.date(1969, 12, 31),
             datetime.date(2000, 2, 29), datetime.date(1900, 2, 28), datetime.date(1900, 3, 1), datetime.date(2100, 2, 28)]
    for y in list(range(1, 10000, 97)) + [1582, 1600, 1700, 1800, 1900, 2000, 2400, 9999]:
        for (m, d_) in ((1, 1), (12, 31), (2, 28), (3, 1)):
            dates.append(datetime.date(y, m, d_))
    dates += [datetime.date.fromordinal(rnd.randint(1, 3652059)) for _ in range(n)]
    for d_ in dates:
        cases.append((lt("int", "date"), d_, "date", (d_ - datetime.date(1970, 1, 1)).days))
    # ---- times
    times = [datetime.time(0, 0, 0, 0), datetime.time(23, 59, 59, 999999), datetime.time(0, 0, 0, 999), datetime.time(0, 0, 0, 1000),
             datetime.time(0, 0, 59, 999999), datetime.time(0, 59, 59, 999999), datetime.time(12, 0, 0, 500)]
    for _ in range(n):
        us = rnd.choice([rnd.randrange(86400 * 10 ** 6), rnd.randrange(24) * 3600 * 10 ** 6 + rnd.choice([0, 1, 999, 1000, 999999, 3599999999])])
        us %= 86400 * 10 ** 6
        times.append(datetime.time(us // 3600000000, us // 60000000 % 60, us // 1000000 % 60, us % 1000000))
    for t in times:
        us = ((t.hour * 60 + t.minute) * 60 + t.second) * 10 ** 6 + t.microsecond
        cases.append((lt("int", "time-millis"), t, "time-millis", us // 1000))
        cases.append((lt("long", "time-micros"), t, "time-micros", us))
    # ---- instants
    lo, hi = -62135596800 * 10 ** 6, 253402300799999999
    pts = [0, -1, 1, -999, -1000, -1001, 999, 1000, lo, hi, lo + 1, hi - 1, -10 ** 6, -10 ** 6 - 1, 10 ** 15, -(10 ** 15) - 1,
           -86400 * 10 ** 6, -86400 * 10 ** 6 - 1]
    pts += [rnd.randint(lo, hi) for _ in range(n)]
    pts += [rnd.randint(-10 ** 10, 10 ** 10) for _ in range(n // 2)]
    pts += [rnd.randint(2 * 10 ** 16, 4 * 10 ** 16) * 1 + rnd.choice([999, 1999, 500999]) for _ in range(n // 4)]
    for us in pts:
        us = max(lo, min(hi, us))
        naive = datetime.datetime(1970, 1, 1) + datetime.timedelta(microseconds=us)
        off = rnd.choice([0, 0, 60, -60, 330, -720, 840, 1, -1439, 1439])
        tz = datetime.timezone(datetime.timedelta(minutes=off))
        try:
            aware = (EPOCH + datetime.timedelta(microseconds=us)).astimezone(tz)
        except OverflowError:
            aware = EPOCH + datetime.timedelta(microseconds=us)
        cases.append((lt("long", "timestamp-millis"), aware, "ts-millis", us // 1000))
        cases.append((lt("long", "timestamp-micros"), aware, "ts-micros", us))
        cases.append((lt("long", "local-timestamp-millis"), naive, "lts-millis", us // 1000))
        cases.append((lt("long", "local-timestamp-micros"), naive, "lts-micros", us))
        if naive.year >= 1971 and naive.year < 3000:
            cases.append((lt("long", "timestamp-millis"), naive, "ts-millis-naive", us // 1000))
            cases.append((lt("long", "timestamp-micros"), naive, "ts-micros-naive", us))
    # ---- uuids
    for _ in range(max(20, n // 10)):
        u = uuid.UUID(int=rnd.getrandbits(128))
        cases.append((lt("string", "uuid"), u, "uuid", str(u)))
    cases.append((lt("string", "uuid"), uuid.UUID(int=0), "uuid", str(uuid.UUID(int=0))))
    cases.append((lt("string", "uuid"), uuid.UUID(int=2 ** 128 - 1), "uuid", str(uuid.UUID(int=2 ** 128 - 1))))
    # ---- decimals
    decs = []
    for _ in range(n * 2):
        precision = rnd.choice([1, 2, 3, 4, 5, 9, 10, 18, 19, 20, 38, 40])
        sc = rnd.randint(0, precision)
        ndig = rnd.randint(1, precision + rnd.choice([0, 0, 0, 1, 2]))
        digits = tuple([rnd.randint(1, 9)] + [rnd.randint(0, 9) for _ in range(ndig - 1)]) if rnd.random() < 0.95 else (0,)
        exp = -sc + rnd.choice([0, 0, 0, 1, 2, -1, -2, sc])
        sign = rnd.random() < 0.5
        d_ = D((1 if sign else 0, digits, exp))
        if rnd.random() < 0.1:
            d_ = rnd.choice([D("-0"), D("-0.0"), D("0"), D("-0E+1"), D("0E+2"), D("-1"), D("1"), D("-128"), D("127"), D("128"), D("-129"),
                             D("-12"), D("255"), D("-32768"), D("32767"), D("32768"), D("-32769")])
        decs.append((precision, sc, d_))
    for precision, sc, d_ in decs:
        cases.append((lt("bytes", "decimal", precision=precision, scale=sc), d_, "bytes-decimal", dec_expect(d_, precision, sc)))
        for size in sorted(set([1, 2, 3, 4, 8, 16, 17, min_twos(10 ** precision - 1), max(1, min_twos(10 ** precision - 1) - 1)])):
            import math
            maxp = int(math.floor(math.log10(2) * (8 * size - 1)))
            if precision > maxp:
                continue
            sch = {"type": "fixed", "name": "Dec", "size": size, "logicalType": "decimal", "precision": precision, "scale": sc}
            cases.append((sch, d_, "fixed-decimal", dec_expect(d_, precision, sc, size)))
    return cases


def plain(schema):
    s = {k: v for k, v in schema.items() if k not in ("logicalType", "precision", "scale")}
    return s if s.get("type") == "fixed" else s["type"]


def run(tier, seed):
    run = Run("C16", tier, seed)
    run.rule = ("dates: year boundaries, leap days, ±1 around centuries + random ordinals over 0001-9999; times: carries at "
                "every unit + random µs of day; instants: whole datetime range incl. pre-epoch, sub-unit remainders, random UTC "
                "offsets, naive for local variants (TZ=UTC); uuids; decimals over precisions ≤ 40, scales, fixed sizes incl. "
                "negative zero, positive exponents, unrepresentable values; non-trivial = every case (distinct by value)")
    run.lean(TARGETS, THEOREMS)
    rnd = random.Random(seed * 16061 + 16)
    cases = gen_cases(rnd, scale(tier, 400))
    for name, c in load_corpus("C16"):
        from wire import from_wire
        v = from_wire(c["value"])
        exp = dec_expect(v, c["schema"]["precision"], c["schema"].get("scale", 0), c["schema"].get("size")) \
            if c["schema"].get("logicalType") == "decimal" else None
        cases.insert(0, (c["schema"], v, "corpus:" + c["schema"].get("logicalType", "?"), exp))
    reqs = [{"op": "enc", "schema": to_wire(s), "value": to_wire(v)} for (s, v, k, e) in cases]
    menc = run_batch(reqs)
    parsed = {}
    dreqs, dmap = [], []
    results = []
    for i, (s, v, kind, exp) in enumerate(cases):
        key = repr(sorted(s.items()))
        if key not in parsed:
            parsed[key] = (fastavro.parse_schema(dict(s)), fastavro.parse_schema(plain(s) if not isinstance(plain(s), dict) else dict(plain(s))))
        ps, pp = parsed[key]
        fo = io.BytesIO()
        try:
            fastavro.schemaless_writer(fo, ps, v)
            ie = {"bytes": fo.getvalue().hex()}
        except Exception as e:  # noqa
            ie = {"err": exc_class(e), "emitted": fo.getvalue().hex()}
        results.append(ie)
        if "bytes" in ie:
            dreqs.append({"op": "dec", "schema": to_wire(s), "bytes": ie["bytes"]})
            dmap.append(i)
    mdec = dict(zip(dmap, run_batch(dreqs)))
    for i, (s, v, kind, exp) in enumerate(cases):
        ps, pp = parsed[repr(sorted(s.items()))]
        ie, me = results[i], menc[i]
        case = {"schema": s, "value": to_wire(v), "kind": kind, "tags": [kind]}
        run.count(case, True, [kind, "enc:" + ("ok" if "bytes" in ie else "err")])
        run.cov["traces_validated_against_impl"] += 1
        corr = same(ie, me)
        why = None
        # ---- the specification's representation
        if kind.endswith("decimal") or kind.startswith("corpus:decimal"):
            if exp[0] == "err":
                if "bytes" in ie:
                    # stored although the schema cannot represent it: is it stored as a different number?
                    back = read_exact(ps, ie["bytes"])
                    if back != v:
                        why = "decimal the schema cannot represent (%s) was stored as %r instead of raising" % (exp[1], back)
                    else:
                        why = None   # accepted and exact: not 'a different number'
            else:
                u = exp[1]
                if "bytes" not in ie:
                    why = "representable decimal rejected: %s" % ie
                else:
                    raw = fastavro.schemaless_reader(io.BytesIO(bytes.fromhex(ie["bytes"])), pp)
                    # fixed: sign-extended to exactly the declared size; bytes: any big-endian two's-complement
                    # representation of the unscaled integer (the property does not ask for the minimal one)
                    want = twos(u, s["size"]) if s["type"] == "fixed" else twos(u, max(len(raw), min_twos(u)))
                    if bytes(raw) != want or len(raw) == 0:
                        why = "decimal stored as %s, specification says %s (unscaled %d)" % (bytes(raw).hex(), want.hex(), u)
                    else:
                        back = read_exact(ps, ie["bytes"])
                        if back != v:
                            why = "decimal read back as %r" % (back,)
        else:
            if "bytes" not in ie:
                why = "value of the domain rejected: %s" % ie
            else:
                b = bytes.fromhex(ie["bytes"])
                raw = fastavro.schemaless_reader(io.BytesIO(b), pp)
                if raw != exp:
                    why = "stored as %r, the specification prescribes %r" % (raw, exp)
                else:
                    back = fastavro.schemaless_reader(io.BytesIO(b), ps)
                    want = truncated(v, kind)
                    if back != want or (isinstance(back, datetime.datetime) and (back.tzinfo is None) != (want.tzinfo is None)):
                        why = "read back as %r, expected %r" % (back, want)
                    elif kind.startswith("ts-") and not kind.endswith("naive") and back.utcoffset() != datetime.timedelta(0):
                        why = "aware timestamp not returned in UTC: %r" % (back,)
        if why:
            case["impl"] = ie
            run.fail(case, why, kind="oracle")
            continue
        if not corr:
            case["impl"], case["model"] = ie, me
            run.fail(case, "correspondence: encoding through the logical schema differs from the model", kind="correspondence")
            continue
        if i in mdec and "bytes" in ie:
            back = impl.dec(s, bytes.fromhex(ie["bytes"]))
            if not same(back, mdec[i]) or ("ok" in back and canon(back["ok"]) != canon(mdec[i].get("ok"))):
                case["impl"], case["model"] = back, mdec[i]
                run.fail(case, "correspondence: reading through the logical schema differs from the model", kind="correspondence")
    positions_and_reader_annotations(run, cases, results, seed, tier)
    shared_zone_family(run)
    process_zone_family(run)
    decimal_beside_floating_family(run)
    return run.finish()


class _SeasonalZone(datetime.tzinfo):
    """a zone whose offset depends on the date (one hour more from April to September), like every real zone with
    daylight saving time; many datetimes share ONE such tzinfo object"""

    def __init__(self, base_minutes):
        self._base = datetime.timedelta(minutes=base_minutes)

    def utcoffset(self, dt):
        return self._base + self.dst(dt)

    def dst(self, dt):
        return datetime.timedelta(hours=1) if dt is not None and 4 <= dt.month <= 9 else datetime.timedelta(0)

    def tzname(self, dt):
        return "SEASONAL"


def shared_zone_family(run):
    """aware datetimes that share one tzinfo object whose offset changes with the date, written one after the other (in
    one array, in consecutive records, in consecutive calls): each is stored as ITS instant"""
    import io
    import fastavro
    epoch = datetime.datetime(1970, 1, 1, tzinfo=datetime.timezone.utc)
    for base in (60, -300, 0, 330):
        zone = _SeasonalZone(base)
        stamps = [datetime.datetime(2021, 1, 15, 12, 0, 0, 250000, tzinfo=zone), datetime.datetime(2021, 7, 15, 12, 0, 0, 250000, tzinfo=zone),
                  datetime.datetime(2021, 12, 1, 0, 0, tzinfo=zone), datetime.datetime(2021, 4, 1, 0, 30, tzinfo=zone),
                  datetime.datetime(2021, 3, 31, 23, 30, tzinfo=zone)]
        for unit, div in (("timestamp-millis", 1000), ("timestamp-micros", 1)):
            t = {"type": "long", "logicalType": unit}
            want = [((x - epoch) // datetime.timedelta(microseconds=1)) // div for x in stamps]
            for shape in ("array", "records", "calls"):
                case = {"logical": unit, "zone_base_minutes": base, "shape": shape, "values": [x.isoformat() for x in stamps], "tags": ["shared-zone-object", shape]}
                run.count(case, True, ["shared-zone-object:" + shape])
                try:
                    if shape == "array":
                        fo = io.BytesIO()
                        fastavro.schemaless_writer(fo, {"type": "array", "items": t}, stamps)
                        got = fastavro.schemaless_reader(io.BytesIO(fo.getvalue()), {"type": "array", "items": "long"})
                    elif shape == "records":
                        rs = {"type": "record", "name": "Ev", "fields": [{"name": "at", "type": t}]}
                        fo = io.BytesIO()
                        fastavro.writer(fo, rs, [{"at": x} for x in stamps])
                        got = [((r_["at"] - epoch) // datetime.timedelta(microseconds=1)) // div for r_ in fastavro.reader(io.BytesIO(fo.getvalue()))]
                    else:
                        got = []
                        for x in stamps:
                            fo = io.BytesIO()
                            fastavro.schemaless_writer(fo, t, x)
                            got.append(fastavro.schemaless_reader(io.BytesIO(fo.getvalue()), "long"))
                except Exception as e:  # noqa
                    run.fail(case, "writing aware datetimes that share a tzinfo object raised %r" % (e,), kind="oracle")
                    continue
                if got != want:
                    case["stored"], case["expected"] = got, want
                    run.fail(case, "an aware datetime is not stored as its distance from the UTC epoch when the values before it carry the "
                                   "same tzinfo object with another offset", kind="oracle")


def process_zone_family(run):
    """the process's own time zone (TZ) is not UTC: an aware datetime — whatever its offset, zero included — is stored as ITS
    instant; the process zone plays no part"""
    import io
    import os
    import time
    import fastavro
    if not hasattr(time, "tzset"):
        return
    epoch = datetime.datetime(1970, 1, 1, tzinfo=datetime.timezone.utc)
    saved = os.environ.get("TZ")
    try:
        for tzname in ("America/New_York", "Asia/Kolkata", "XYZ-9:30", "UTC"):
            os.environ["TZ"] = tzname
            time.tzset()
            zones = [("utc", datetime.timezone.utc), ("zero-offset-timezone", datetime.timezone(datetime.timedelta(0), "Z")),
                     ("seasonal-zone-at-zero", _SeasonalZone(0)), ("plus-one-minute", datetime.timezone(datetime.timedelta(minutes=1))),
                     ("minus-five-hours", datetime.timezone(datetime.timedelta(hours=-5)))]
            for zlabel, zone in zones:
                stamps = [datetime.datetime(2021, 1, 15, 12, 0, 0, 250000, tzinfo=zone), datetime.datetime(2021, 7, 15, 12, 0, 0, 999000, tzinfo=zone),
                          datetime.datetime(1969, 12, 31, 23, 59, 59, tzinfo=zone), datetime.datetime(1970, 1, 1, tzinfo=zone),
                          datetime.datetime(2021, 3, 14, 2, 30, tzinfo=zone), datetime.datetime(2021, 11, 7, 1, 30, tzinfo=zone)]
                for unit, div in (("timestamp-millis", 1000), ("timestamp-micros", 1)):
                    t = {"type": "long", "logicalType": unit}
                    want = [((x - epoch) // datetime.timedelta(microseconds=1)) // div for x in stamps]
                    case = {"logical": unit, "process_TZ": tzname, "tzinfo": zlabel, "values": [x.isoformat() for x in stamps],
                            "tags": ["process-zone", zlabel]}
                    run.count(case, True, ["process-zone:" + zlabel])
                    try:
                        got = []
                        for x in stamps:
                            fo = io.BytesIO()
                            fastavro.schemaless_writer(fo, t, x)
                            got.append(fastavro.schemaless_reader(io.BytesIO(fo.getvalue()), "long"))
                        back = [fastavro.schemaless_reader(io.BytesIO(_w(t, x)), t) for x in stamps]
                    except Exception as e:  # noqa
                        run.fail(case, "writing an aware datetime raised %r under a non-UTC process time zone" % (e,), kind="oracle")
                        continue
                    if got != want:
                        case["stored"], case["expected"] = got, want
                        run.fail(case, "an aware datetime is not stored as its distance from the UTC epoch when the process time zone is not UTC",
                                 kind="oracle")
                    elif [((b - epoch) // datetime.timedelta(microseconds=1)) // div for b in back] != want:
                        case["read_back"] = [b.isoformat() for b in back]
                        run.fail(case, "an aware datetime does not read back as the same instant when the process time zone is not UTC", kind="oracle")
    finally:
        if saved is None:
            os.environ.pop("TZ", None)
        else:
            os.environ["TZ"] = saved
        time.tzset()


def _w(t, x):
    import io
    import fastavro
    fo = io.BytesIO()
    fastavro.schemaless_writer(fo, t, x)
    return fo.getvalue()


def decimal_beside_floating_family(run):
    """a decimal branch beside a float / double branch in one union: a Decimal is written under the decimal branch and comes
    back unchanged, or — when it does not fit the declared precision / scale — writing raises; it is never stored as a
    floating-point number"""
    import io
    import json
    import decimal
    import fastavro
    dec_bytes = {"type": "bytes", "logicalType": "decimal", "precision": 9, "scale": 2}
    dec_fixed = {"type": "fixed", "name": "D8", "size": 8, "logicalType": "decimal", "precision": 9, "scale": 2}
    values = {"fits": [decimal.Decimal("12.34"), decimal.Decimal("-0.5"), decimal.Decimal("0")],
              "too-precise": [decimal.Decimal("1.2345")], "too-many-digits": [decimal.Decimal("12345678901.00")]}
    for dt in (dec_bytes, dec_fixed):
        for other in ("double", "float"):
            for order in ("decimal-first", "floating-first"):
                u = [dt, other] if order == "decimal-first" else [other, dt]
                for shape in ("field", "array", "map"):
                    if shape == "field":
                        sch = {"type": "record", "name": "P", "fields": [{"name": "v", "type": u}]}
                        wrap, unwrap = (lambda x: {"v": x}), (lambda r_: r_["v"])
                    elif shape == "array":
                        sch = {"type": "array", "items": u}
                        wrap, unwrap = (lambda x: [x]), (lambda r_: r_[0])
                    else:
                        sch = {"type": "map", "values": u}
                        wrap, unwrap = (lambda x: {"k": x}), (lambda r_: r_["k"])
                    for vk, vals in values.items():
                        for v in vals:
                            case = {"schema": sch, "value": str(v), "value_kind": vk, "tags": ["decimal-beside-floating", order, shape]}
                            run.count(case, True, ["decimal-beside-floating:" + order])
                            try:
                                fo = io.BytesIO()
                                fastavro.schemaless_writer(fo, json.loads(json.dumps(sch)), wrap(v))
                                back = unwrap(fastavro.schemaless_reader(io.BytesIO(fo.getvalue()), json.loads(json.dumps(sch))))
                                res = ("ok", back)
                            except Exception as e:  # noqa
                                res = ("raised", exc_class(e))
                            if vk == "fits":
                                good = res[0] == "ok" and isinstance(res[1], decimal.Decimal) and res[1] == v
                            else:
                                good = res[0] == "raised"
                            if not good:
                                case["result"] = [res[0], repr(res[1])]
                                run.fail(case, "a Decimal written to a union of a decimal and a floating-point branch %s"
                                         % ("does not come back unchanged" if vk == "fits" else "is stored as a different number instead of raising"),
                                         kind="oracle")


def positions_and_reader_annotations(run, cases, results, seed, tier):
    """(a) the same logical type at every position of a schema — defined once and then referred to BY NAME (named fixed),
    as array items, map values, union branch, nested record field — converts exactly as it does on its own;
    (b) reading with a reader schema that differs from the writer's only in its logical annotation (other precision /
    scale, or none on the reader side... the converters are keyed by the WRITER's annotation): same value."""
    import copy
    rnd = random.Random(seed * 16127 + 3)
    per_kind = {}
    for i, (s, v, kind, exp) in enumerate(cases):
        if "bytes" in results[i]:
            per_kind.setdefault(kind, []).append(i)
    chosen = set()
    quota = max(4, scale(tier, 160) // max(1, len(per_kind)))
    for kind, idxs in sorted(per_kind.items()):
        chosen.update(rnd.sample(idxs, min(len(idxs), quota)))     # every logical type gets its share
    for i, (s, v, kind, exp) in enumerate(cases):
        if i not in chosen:
            continue
        try:
            alone = fastavro.schemaless_reader(io.BytesIO(bytes.fromhex(results[i]["bytes"])), fastavro.parse_schema(dict(s)))
        except Exception:
            continue
        named = s.get("type") == "fixed"
        first = dict(s) if not named else dict(s)
        ref = s["name"] if named else dict(s)
        wrap = {"type": "record", "name": "Pos", "fields": [
            {"name": "first", "type": first},
            {"name": "again", "type": copy.deepcopy(ref)},
            {"name": "items", "type": {"type": "array", "items": copy.deepcopy(ref)}},
            {"name": "opt", "type": ["null", copy.deepcopy(ref)]},
            {"name": "inner", "type": {"type": "record", "name": "Inner", "fields": [{"name": "x", "type": copy.deepcopy(ref)}]}},
            {"name": "m", "type": {"type": "map", "values": copy.deepcopy(ref)}}]}
        datum = {"first": v, "again": v, "items": [v, v], "opt": v, "inner": {"x": v}, "m": {"k": v}}
        case = {"schema": wrap, "value": to_wire(v), "kind": kind, "tags": [kind, "positions"]}
        run.count(case, True, ["positions"])
        try:
            fo = io.BytesIO()
            fastavro.schemaless_writer(fo, copy.deepcopy(wrap), datum)
            back = fastavro.schemaless_reader(io.BytesIO(fo.getvalue()), copy.deepcopy(wrap))
            co = io.BytesIO()
            fastavro.writer(co, copy.deepcopy(wrap), [datum])
            back2 = list(fastavro.reader(io.BytesIO(co.getvalue())))[0]
        except Exception as e:  # noqa
            run.fail(dict(case, error=repr(e)[:200]), "a value its logical type accepts on its own is rejected at another position of a schema", kind="oracle")
            continue
        want = {"first": alone, "again": alone, "items": [alone, alone], "opt": alone, "inner": {"x": alone}, "m": {"k": alone}}
        if back != want or back2 != want:
            bad = [k for k in want if back.get(k) != want[k] or back2.get(k) != want[k]]
            run.fail(dict(case, positions=bad, read=repr({k: back.get(k) for k in bad})[:300], alone=repr(alone)),
                     "a logical value reads back differently at another position of a schema (by-name reference, array, map, union, nested record)",
                     kind="oracle")
            continue
        # (b) reader schema with another annotation
        lt = s.get("logicalType")
        variants = []
        if lt == "decimal":
            for dp, ds in ((0, 2), (-1, 0), (3, -1), (0, -s.get("scale", 0))):
                r2 = dict(s)
                r2["precision"] = max(1, s["precision"] + dp)
                r2["scale"] = max(0, min(r2["precision"], s.get("scale", 0) + ds))
                if r2["type"] == "fixed":
                    continue    # precision is bounded by the size; keep the reader schema parseable
                variants.append(r2)
        plain_r = {k: x for k, x in s.items() if k not in ("logicalType", "precision", "scale")}
        if s.get("type") != "fixed":
            variants.append(plain_r["type"] if list(plain_r) == ["type"] else plain_r)
        for r2 in variants:
            if r2 == s:
                continue
            w1 = {"type": "record", "name": "One", "fields": [{"name": "v", "type": dict(s)}]}
            r1 = {"type": "record", "name": "One", "fields": [{"name": "v", "type": copy.deepcopy(r2)}]}
            try:
                fo = io.BytesIO()
                fastavro.schemaless_writer(fo, copy.deepcopy(w1), {"v": v})
                got = fastavro.schemaless_reader(io.BytesIO(fo.getvalue()), copy.deepcopy(w1), copy.deepcopy(r1))
            except Exception as e:  # noqa
                run.tag("reader-annotation:rejected")
                continue
            run.cov["evaluations"] += 1
            run.tag("reader-annotation")
            if got != {"v": alone}:
                run.fail(dict(case, schema=w1, reader_schema=r1, read=repr(got), alone=repr(alone), tags=[kind, "reader-annotation"]),
                         "reading with a reader schema that differs only in the logical annotation changes the value (converters are keyed by the writer's annotation)",
                         kind="oracle")
                break


def read_exact(ps, hexbytes):
    return fastavro.schemaless_reader(io.BytesIO(bytes.fromhex(hexbytes)), ps)


def truncated(v, kind):
    if kind in ("time-millis",):
        return v.replace(microsecond=v.microsecond // 1000 * 1000)
    if kind in ("ts-millis", "lts-millis", "ts-millis-naive"):
        if v.tzinfo is not None:
            us = (v - EPOCH) // US
            return EPOCH + datetime.timedelta(microseconds=us // 1000 * 1000)
        us = (v - datetime.datetime(1970, 1, 1)) // US
        r = datetime.datetime(1970, 1, 1) + datetime.timedelta(microseconds=us // 1000 * 1000)
        return r.replace(tzinfo=UTC) if kind == "ts-millis-naive" else r
    if kind in ("ts-micros",):
        return v.astimezone(UTC)
    if kind == "ts-micros-naive":
        return v.replace(tzinfo=UTC)
    return v
