"""C08 — reading with a reader schema yields what the specification's resolution rules prescribe
(DESIGN §5 C08).  Reader schemas are derived from the writer schema by compositions of compatible and
incompatible evolution steps at any depth; the oracle is Spec.resolveRead (lean/Spec/Resolve.lean,
written from the rule list), the correspondence partner is Resolve.readR (lean/Model/Resolve.lean)."""
import copy
import io
import json
import random

import fastavro
from fastavro import parse_schema, schemaless_reader, schemaless_writer

import gen
from core import Run
from driver import run_batch
from wire import to_wire, canon, exc_class
from props.common import scale, depth_of, schema_tags, load_corpus

THEOREMS = ["c08_resolve_eq_spec", "c08_match_eq_spec", "c08_pick_eq_spec", "c08_promotions", "c08_primitives", "c08_enum_default", "c08_field_matching",
            "Tables.resolve_tables", "Tables.resolve_dispatch"]
TARGETS = ["Properties.TablesResolve", "Properties.C08"]

PROMO = {"int": ["long", "float", "double"], "long": ["float", "double"], "float": ["double"],
         "string": ["bytes"], "bytes": ["string"]}
DIRECT_DEFAULTS = [("int", 7), ("long", -3), ("string", "dflt"), ("boolean", True), ("null", None), ("double", 1.5),
                   ({"type": "array", "items": "int"}, []), ({"type": "map", "values": "string"}, {}),
                   (["null", "int"], None), (["string", "null"], "s")]


# ------------------------------------------------------------------ schema trees
def to_tree(schema):
    """(tree, table): named definitions taken out of line. A tree node is a primitive name, a list
    (union), {"type":"array"/"map",...}, or {"$ref": fullname}; table[fullname] is the definition with
    its children as trees."""
    ns = {}
    p = parse_schema(copy.deepcopy(schema), ns)
    table = {}

    def walk(n):
        if isinstance(n, list):
            return [walk(b) for b in n]
        if isinstance(n, str):
            return {"$ref": n} if n not in gen.PRIMS else n
        t = n["type"]
        if t == "array":
            return {"type": "array", "items": walk(n["items"])}
        if t == "map":
            return {"type": "map", "values": walk(n["values"])}
        if t in ("record", "enum", "fixed"):
            full = n["name"]
            if full not in table:
                table[full] = None
                d = {"type": t, "name": full}
                if "aliases" in n:
                    d["aliases"] = list(n["aliases"])
                if t == "record":
                    d["fields"] = []
                    for f in n["fields"]:
                        g = {"name": f["name"], "type": walk(f["type"])}
                        for k in ("default", "aliases"):
                            if k in f:
                                g[k] = copy.deepcopy(f[k])
                        d["fields"].append(g)
                elif t == "enum":
                    d["symbols"] = list(n["symbols"])
                    if "default" in n:
                        d["default"] = n["default"]
                else:
                    d["size"] = n["size"]
                table[full] = d
            return {"$ref": full}
        if t in gen.PRIMS:
            return t
        raise ValueError("unsupported " + str(t))

    return walk(p), table


def emit(tree, table):
    """a raw schema again: each definition inline at its first use, by (full) name afterwards"""
    done = set()

    def go(n, ns):
        if isinstance(n, list):
            return [go(b, ns) for b in n]
        if isinstance(n, str):
            return n
        if "$ref" in n:
            full = n["$ref"]
            if full in done or full not in table:
                return full if "." in full or not ns else full      # a full name without dots inside a namespace:
            done.add(full)                                           # handled below by giving definitions a namespace
            d = table[full]
            out = {"type": d["type"]}
            if "." in full:
                out["name"] = full
                inner = full.rpartition(".")[0]
            else:
                out["name"] = full
                out["namespace"] = ""
                inner = ""
            if d.get("aliases"):
                out["aliases"] = list(d["aliases"])
            if d["type"] == "record":
                out["fields"] = []
                for f in d["fields"]:
                    g = {"name": f["name"], "type": go(f["type"], inner)}
                    for k in ("default", "aliases"):
                        if k in f:
                            g[k] = copy.deepcopy(f[k])
                    out["fields"].append(g)
            elif d["type"] == "enum":
                out["symbols"] = list(d["symbols"])
                if "default" in d:
                    out["default"] = d["default"]
            else:
                out["size"] = d["size"]
            return out
        if n["type"] == "array":
            return {"type": "array", "items": go(n["items"], ns)}
        return {"type": "map", "values": go(n["values"], ns)}

    return go(tree, "")


def refs_need_null_ns(schema, ns=""):
    """a by-name reference to a null-namespace type from inside a namespace cannot be written (an
    undotted name is re-qualified) — such reader schemas are dropped"""
    if isinstance(schema, list):
        return any(refs_need_null_ns(b, ns) for b in schema)
    if isinstance(schema, str):
        return schema not in gen.PRIMS and "." not in schema and ns != ""
    t = schema["type"]
    if t == "array":
        return refs_need_null_ns(schema["items"], ns)
    if t == "map":
        return refs_need_null_ns(schema["values"], ns)
    if t == "record":
        inner = schema["name"].rpartition(".")[0] if "." in schema["name"] else schema.get("namespace", ns)
        return any(refs_need_null_ns(f["type"], inner) for f in schema["fields"])
    return False


def slots(tree, table):
    """every position holding a type: (container, key)"""
    out = []
    seen = set()

    def go(container, key):
        out.append((container, key))
        n = container[key]
        if isinstance(n, list):
            for i in range(len(n)):
                go(n, i)
        elif isinstance(n, dict):
            if "$ref" in n:
                full = n["$ref"]
                if full in table and full not in seen:
                    seen.add(full)
                    if table[full]["type"] == "record":
                        for f in table[full]["fields"]:
                            go(f, "type")
            elif n["type"] == "array":
                go(n, "items")
            else:
                go(n, "values")

    root = {"root": tree}
    go(root, "root")
    return root, out


def kind_of(n, table):
    if isinstance(n, list):
        return "union"
    if isinstance(n, str):
        return n
    if "$ref" in n:
        return table[n["$ref"]]["type"] if n["$ref"] in table else "?"
    return n["type"]


# ------------------------------------------------------------------ evolution steps
def evolve(r, tree, table, nsteps):
    """apply `nsteps` random steps; returns (tree, table, labels)"""
    tree = copy.deepcopy(tree)
    table = copy.deepcopy(table)
    labels = []
    for _ in range(nsteps):
        root, sl = slots(tree, table)
        recs = [k for k, d in table.items() if d["type"] == "record"]
        enums = [k for k, d in table.items() if d["type"] == "enum"]
        fixeds = [k for k, d in table.items() if d["type"] == "fixed"]
        step = r.choice(["promote", "promote", "incompatible-prim", "widen", "narrow", "union-reorder", "union-drop",
                         "add-default", "add-default", "add-nodefault", "remove-field", "remove-field", "reorder-fields",
                         "rename-field-alias", "rename-field", "enum-drop", "enum-drop-default", "enum-add", "enum-reorder",
                         "fixed-size", "rename-type-alias", "rename-type-unqual-alias", "rename-type", "renamespace",
                         "change-kind", "incompatible-complex", "move-definition"])
        if step == "promote":
            c = [(a, k) for a, k in sl if isinstance(a[k], str) and a[k] in PROMO]
            if c:
                a, k = r.choice(c)
                a[k] = r.choice(PROMO[a[k]])
                labels.append(step)
        elif step == "incompatible-prim":
            c = [(a, k) for a, k in sl if isinstance(a[k], str) and a[k] in gen.PRIMS and not isinstance(a, list)]
            if c:
                a, k = r.choice(c)
                bad = [p for p in gen.PRIMS if p != a[k] and p not in PROMO.get(a[k], [])]
                a[k] = r.choice(bad)
                labels.append(step)
        elif step == "widen":
            c = [(a, k) for a, k in sl if not isinstance(a[k], list) and not isinstance(a, list)]
            if c:
                a, k = r.choice(c)
                t = a[k]
                extra = [p for p in ("null", "string", "long", "double", "bytes", "int") if kind_of(t, table) != p]
                e = r.choice(extra)
                a[k] = r.choice([[t, e], [e, t], [e, t, "boolean"] if e != "boolean" and kind_of(t, table) != "boolean" else [e, t]])
                if isinstance(a, dict) and "default" in a and a.get("name"):
                    a.pop("default", None)      # keep the reader schema valid (a default must match the first branch)
                labels.append(step)
        elif step == "narrow":
            c = [(a, k) for a, k in sl if isinstance(a[k], list) and a[k]]
            if c:
                a, k = r.choice(c)
                a[k] = r.choice(a[k])
                if isinstance(a, dict) and "default" in a and a.get("name"):
                    a.pop("default", None)
                labels.append(step)
        elif step == "union-reorder":
            c = [(a, k) for a, k in sl if isinstance(a[k], list) and len(a[k]) > 1]
            if c:
                a, k = r.choice(c)
                r.shuffle(a[k])
                if isinstance(a, dict) and "default" in a and a.get("name"):
                    a.pop("default", None)
                labels.append(step)
        elif step == "union-drop":
            c = [(a, k) for a, k in sl if isinstance(a[k], list) and len(a[k]) > 1]
            if c:
                a, k = r.choice(c)
                del a[k][r.randrange(len(a[k]))]
                if isinstance(a, dict) and "default" in a and a.get("name"):
                    a.pop("default", None)
                labels.append(step)
        elif step in ("add-default", "add-nodefault") and recs:
            d = table[r.choice(recs)]
            t, dv = r.choice(DIRECT_DEFAULTS)
            name = r.choice(["added", "extra", "zz", "n2"])
            if all(f["name"] != name for f in d["fields"]):
                f = {"name": name, "type": copy.deepcopy(t)}
                if step == "add-default":
                    f["default"] = copy.deepcopy(dv)
                d["fields"].insert(r.randrange(len(d["fields"]) + 1), f)
                labels.append(step)
        elif step == "remove-field" and recs:
            d = table[r.choice(recs)]
            if d["fields"]:
                del d["fields"][r.randrange(len(d["fields"]))]
                labels.append(step)
        elif step == "reorder-fields" and recs:
            d = table[r.choice(recs)]
            if len(d["fields"]) > 1:
                r.shuffle(d["fields"])
                labels.append(step)
        elif step in ("rename-field-alias", "rename-field") and recs:
            d = table[r.choice(recs)]
            if d["fields"]:
                f = r.choice(d["fields"])
                new = f["name"] + "_v2"
                if all(g["name"] != new for g in d["fields"]):
                    if step == "rename-field-alias":
                        f["aliases"] = list(f.get("aliases", [])) + [f["name"]]
                    else:
                        f.pop("aliases", None)
                    f["name"] = new
                    labels.append(step)
        elif step in ("enum-drop", "enum-drop-default") and enums:
            d = table[r.choice(enums)]
            if len(d["symbols"]) > 1:
                i = r.randrange(len(d["symbols"]))
                dropped = d["symbols"].pop(i)
                if step == "enum-drop-default":
                    d["default"] = d["symbols"][0]
                elif d.get("default") == dropped:
                    d.pop("default")
                labels.append(step)
        elif step == "enum-add" and enums:
            d = table[r.choice(enums)]
            if "NEWSYM" not in d["symbols"]:
                d["symbols"].insert(r.randrange(len(d["symbols"]) + 1), "NEWSYM")
                labels.append(step)
        elif step == "enum-reorder" and enums:
            d = table[r.choice(enums)]
            r.shuffle(d["symbols"])
            labels.append(step)
        elif step == "fixed-size" and fixeds:
            d = table[r.choice(fixeds)]
            d["size"] = d["size"] + r.choice([1, 2])
            labels.append(step)
        elif step in ("rename-type-alias", "rename-type-unqual-alias", "rename-type", "renamespace") and table:
            old = r.choice(sorted(table))
            ns, _, base = old.rpartition(".")
            if step == "renamespace":
                new = r.choice(["other.ns", "zz", ""]) + "." + base
                new = new.lstrip(".")
            else:
                new = (ns + "." if ns else "") + base + "Renamed"
            if new not in table and new != old:
                d = table.pop(old)
                d["name"] = new
                d.pop("aliases", None)
                if step == "rename-type-alias":
                    d["aliases"] = [old]
                elif step == "rename-type-unqual-alias":
                    d["aliases"] = [base]
                table[new] = d
                s_tree = json.dumps({"t": tree, "tab": table}).replace(json.dumps({"$ref": old}), json.dumps({"$ref": new}))
                both = json.loads(s_tree)
                tree, table = both["t"], both["tab"]
                labels.append(step)
        elif step == "change-kind" and table:
            k = r.choice(sorted(table))
            d = table[k]
            newk = r.choice([x for x in ("record", "enum", "fixed") if x != d["type"]])
            nd = {"type": newk, "name": k}
            if newk == "record":
                nd["fields"] = []
            elif newk == "enum":
                nd["symbols"] = ["A", "B"]
            else:
                nd["size"] = 4
            table[k] = nd
            labels.append(step)
        elif step == "incompatible-complex":
            c = [(a, k) for a, k in sl if not isinstance(a, list) and kind_of(a[k], table) in ("array", "map", "record", "enum", "fixed")]
            if c:
                a, k = r.choice(c)
                kd = kind_of(a[k], table)
                a[k] = r.choice([x for x in ({"type": "array", "items": "int"}, {"type": "map", "values": "int"}, "string", "int")
                                 if kind_of(x, table) != kd])
                if isinstance(a, dict) and "default" in a and a.get("name"):
                    a.pop("default", None)
                labels.append(step)
        elif step == "move-definition" and recs:
            # put a field that *uses* a named type first, so that its definition moves there
            d = table[r.choice(recs)]
            if len(d["fields"]) > 1:
                d["fields"].reverse()
                labels.append(step)
        tree = root["root"] if "root" in root and step not in ("rename-type-alias", "rename-type-unqual-alias", "rename-type", "renamespace") else tree
    return tree, table, labels


# ------------------------------------------------------------------ running both sides
def unordered(j):
    """dict entries sorted: the order of a result dict is not observable through =="""
    j = canon(j)

    def go(x):
        if isinstance(x, dict):
            if "d" in x:
                return {"d": sorted(([go(k), go(v)] for k, v in x["d"]), key=lambda kv: json.dumps(kv[0], sort_keys=True))}
            if "l" in x:
                return {"l": [go(y) for y in x["l"]]}
            if "t" in x:
                return {"t": [go(y) for y in x["t"]]}
        return x
    return go(j)


class _Timeout(Exception):
    pass


def _alarm(signum, frame):
    raise _Timeout()


def impl_resolve(w, rs, data, stream=None):
    """one call of the implementation, with a time limit: a decoder that loses alignment can loop over a huge count"""
    import signal
    fo = io.BytesIO(data) if stream is None else stream
    old = signal.signal(signal.SIGALRM, _alarm)
    signal.setitimer(signal.ITIMER_REAL, 20)
    try:
        v = schemaless_reader(fo, copy.deepcopy(w), copy.deepcopy(rs) if rs is not None else None)
    except _Timeout:
        return {"err": "timeout"}
    except MemoryError:
        return {"err": "memory"}
    except RecursionError:
        return {"err": "fuel"}
    except Exception as e:  # noqa
        return {"err": exc_class(e)}
    finally:
        signal.setitimer(signal.ITIMER_REAL, 0)
        signal.signal(signal.SIGALRM, old)
        import impl as _impl
        if _impl._WD["on"]:          # hand the timer back to the watchdog
            signal.signal(signal.SIGALRM, _impl._wd_alarm)
            signal.setitimer(signal.ITIMER_REAL, _impl._WD["period"], _impl._WD["period"])
    return {"ok": to_wire(v), "rest": (len(data) - fo.tell()) if stream is None else None}


def impl_container(w, rs, values):
    fo = io.BytesIO()
    fastavro.writer(fo, copy.deepcopy(w), values)
    fo.seek(0)
    out = []
    try:
        for rec in fastavro.reader(fo, reader_schema=copy.deepcopy(rs)):
            out.append(to_wire(rec))
    except RecursionError:
        return out, "fuel"
    except Exception as e:  # noqa
        return out, exc_class(e)
    return out, None


def run(tier, seed):
    run = Run("C08", tier, seed)
    run.rule = ("(writer schema, reader schema, datum): writer from the type-directed generator, reader derived from it by "
                "1-4 random evolution steps (promote, incompatible change, widen to / narrow from / reorder / drop union, add "
                "field with/without default, remove / reorder / rename field with/without alias, enum drop/add/reorder symbol "
                "with/without default, fixed size, rename type with full / unqualified / no alias, change namespace, change "
                "kind, move a definition) at random positions; reader == writer as a separate object and after cosmetic "
                "rewriting; schemaless and container readers; non-trivial = at least one step applied below the top level "
                "or the schema has depth >= 2")
    run.lean(TARGETS, THEOREMS)
    cases = []
    for name, c in load_corpus("C08"):
        cases.append((c["writer"], c["reader"], [gen_from(c["value"])], ["corpus:" + name]))
    n = scale(tier, 1500)
    for i in range(n):
        g = gen.Gen(seed * 8000009 + i, logical=False, bytes_defaults=False, hints=False, tuple_seq=False, big=False)
        try:
            w, ctx = g.top_schema()
            data = [g.datum(w, ctx, hint_ok=False) for _ in range(2)]
            tree, table = to_tree(w)
        except Exception:
            continue
        r = g.r
        variants = [(copy.deepcopy(w), ["identity"])]
        try:
            variants.append((gen.cosmetic(g, w), ["identity-cosmetic"]))
        except Exception:
            pass
        for _ in range(3):
            try:
                t2, tab2, labels = evolve(r, tree, table, r.choice([1, 1, 2, 3, 4]))
                rs = emit(t2, tab2)
                if refs_need_null_ns(rs):
                    continue
                parse_schema(copy.deepcopy(rs))
            except Exception:
                continue
            if labels:
                variants.append((rs, labels))
        for rs, labels in variants:
            cases.append((w, rs, data, labels))
    cases += merged_family(seed, scale(tier, 60))
    cases += writer_alias_family()
    cases += promotion_order_family()
    # ---- encode with the implementation, resolve on all three sides
    reqs, meta = [], []
    for ci, (w, rs, data, labels) in enumerate(cases):
        for v in data:
            fo = io.BytesIO()
            try:
                schemaless_writer(fo, copy.deepcopy(w), v)
            except Exception:
                continue
            b = fo.getvalue()
            reqs.append({"writer": to_wire(w), "reader": to_wire(rs), "bytes": b.hex()})
            meta.append((ci, v, b))
    spec = run_batch([dict(q, op="spec.resolve") for q in reqs])
    model = run_batch([dict(q, op="resolve") for q in reqs])
    plain = run_batch([dict(q, op="resolve", reader=None) for q in reqs])
    # which runs lie inside the domain of the theorem `c08_resolve_eq_spec` (its hypotheses evaluated by the driver)
    hyp = run_batch([dict(q, op="c08.hyp") for q in reqs])
    for k, (ci, v, b) in enumerate(meta):
        w, rs, data, labels = cases[ci]
        ir = impl_resolve(w, rs, b)
        case = {"writer": w, "reader": rs, "value": to_wire(v), "bytes": b.hex(), "steps": labels, "tags": list(labels)}
        sp, mo = spec[k], model[k]
        outcome = "ok" if "ok" in sp else "err:" + str(sp.get("err", sp))
        run.count(case, depth_of(w) >= 2 or len(labels) > 1, sorted(set(labels)) + ["spec:" + outcome])
        run.cov["traces_validated_against_impl"] += 1
        if "perr" in sp or "rperr" in sp or "perr" in mo or "rperr" in mo:
            run.tag("model-parse-skip")
            continue
        run.tag("theorem-domain:" + ("inside" if hyp[k].get("fails") == "" else "outside:" + str(hyp[k].get("fails"))))
        why = None
        if labels and labels[0].startswith("identity"):
            pl = plain[k]
            if "ok" in pl and ("ok" not in ir or unordered(ir["ok"]) != unordered(pl["ok"])):
                case["impl"], case["plain"] = ir, pl
                why = "reader schema equal to the writer schema: result differs from reading without one"
        if why is None:
            if "ok" in sp:
                if "ok" not in ir:
                    why = "the rules define a value but the implementation raised %s" % ir.get("err")
                elif unordered(ir["ok"]) != unordered(sp["ok"]) or ir["rest"] != sp["rest"]:
                    why = "value differs from the one the resolution rules define"
            elif sp.get("err") == "resolution":
                if "ok" in ir:
                    why = "the rules give no result (schema-resolution error) but a value was returned"
                elif ir["err"] != "resolution":
                    why = "the rules give no result but the implementation raised %s, not a schema-resolution error" % ir["err"]
            else:
                if "ok" in ir:
                    why = "specification-level decoding fails (%s) but a value was returned" % sp.get("err")
        if why:
            case["impl"], case["spec"] = ir, sp
            run.fail(case, why, kind="oracle")
            continue
        # the same read from other kinds of input stream (an object with read() only; a buffered reader over a
        # forward-only io stream, which HAS a seek attribute but cannot seek): same value / same kind of outcome
        if k % 4 == 0:
            from props.streams import ReadOnly as _RO, RawForward as _RF
            for kind, st in (("read-only-object", _RO(b)), ("buffered-over-forward-only", io.BufferedReader(_RF(b)))):
                ir2 = impl_resolve(w, rs, b, stream=st)
                run.cov["evaluations"] += 1
                if ("ok" in ir) != ("ok" in ir2) or ("ok" in ir and canon(ir["ok"]) != canon(ir2["ok"])):
                    run.fail(dict(case, impl=ir, impl_other_stream=ir2, stream=kind, tags=list(labels) + ["stream"]),
                             "resolution gives another result when the input is a %s" % kind, kind="oracle")
                    break
            run.tag("streams")
        # correspondence with the model (error class matters for resolution errors)
        if ("ok" in ir) != ("ok" in mo) or ("ok" in ir and (canon(ir["ok"]) != canon(mo["ok"]) or ir["rest"] != mo["rest"])) \
                or ("err" in ir and (ir["err"] == "resolution") != (mo.get("err") == "resolution")):
            case["impl"], case["model"] = ir, mo
            run.fail(case, "correspondence: resolution differs between implementation and model", kind="correspondence")
    unknown_logical_family(run)
    # ---- reader-only fields whose default is not its own Python datum (bytes / fixed / nested record)
    for wtype, dflt, expect in [("bytes", "\u00ff", {"b": "ff"}), ({"type": "fixed", "name": "Fx", "size": 1}, "\u00ff", {"b": "ff"}),
                                ({"type": "record", "name": "In", "fields": [{"name": "x", "type": "int", "default": 3}]}, {},
                                 {"d": [[{"s": "78"}, {"i": "3"}]]})]:
        w = {"type": "record", "name": "R", "fields": [{"name": "a", "type": "int"}]}
        rs = {"type": "record", "name": "R", "fields": [{"name": "a", "type": "int"}, {"name": "dflt", "type": wtype, "default": dflt}]}
        ir = impl_resolve(w, rs, _enc(w, {"a": 1}))
        run.cov["evaluations"] += 1
        got = None
        if "ok" in ir:
            got = dict((json.dumps(k), v) for k, v in canon(ir["ok"])["d"]).get(json.dumps({"s": "64666c74"}))
        if got != canon(expect):
            run.fail({"writer": w, "reader": rs, "impl": ir, "expected_default": expect, "tags": ["default-conversion"]},
                     "reader-only field: the default is returned as the raw JSON value, not as a datum of the field's type",
                     kind="oracle")
    # ---- container reader on a sample of the cases
    step = max(1, len(cases) // scale(tier, 250))
    for ci in range(0, len(cases), step):
        w, rs, data, labels = cases[ci]
        vals = []
        for v in data:
            try:
                schemaless_writer(io.BytesIO(), copy.deepcopy(w), v)
                vals.append(v)
            except Exception:
                pass
        if not vals or not isinstance(w, dict):
            continue
        try:
            got, err = impl_container(w, rs, vals)
        except Exception:
            continue
        exp = []
        experr = None
        for v in vals:
            ir = impl_resolve(w, rs, _enc(w, v))
            if "ok" in ir:
                exp.append(ir["ok"])
            else:
                experr = ir["err"]
                break
        run.cov["evaluations"] += 1
        run.tag("container")
        if [canon(x) for x in got] != [canon(x) for x in exp] or (err == "resolution") != (experr == "resolution") or (err is None) != (experr is None):
            run.fail({"writer": w, "reader": rs, "values": [to_wire(v) for v in vals], "container": [got, err],
                      "schemaless": [exp, experr], "tags": list(labels) + ["container"]},
                     "container reader and schemaless reader resolve differently", kind="oracle")
    return run.finish()


def promotion_order_family():
    """a writer primitive with SEVERAL promotion targets in the reader union, in every order, with and without the exact type:
    the first branch in declared order that the writer type matches (exactly first, else by promotion) is the one read"""
    import itertools
    out = []
    targets = {"int": (["long", "float", "double"], 5), "long": (["float", "double"], 7), "float": (["double"], 1.5), "string": (["bytes"], "hi"),
               "bytes": (["string"], b"hi")}
    for wt, (ts, val) in targets.items():
        pool = ts + ["null", "boolean"]
        for n in (2, 3):
            for combo in itertools.permutations(pool, n):
                if not any(t in ts for t in combo):
                    continue
                for with_exact in (False, True):
                    ru = list(combo) + ([wt] if with_exact else [])
                    out.append((wt, ru, [val], ["directed:promotion-order", wt, "top"]))
                    if n == 2 and not with_exact:
                        wf = {"type": "record", "name": "P", "fields": [{"name": "v", "type": wt}, {"name": "vs", "type": {"type": "array", "items": wt}},
                                                                       {"name": "u", "type": ["null", wt]}]}
                        rf = {"type": "record", "name": "P", "fields": [{"name": "v", "type": ru}, {"name": "vs", "type": {"type": "array", "items": ru}},
                                                                       {"name": "u", "type": ["null"] + [t for t in ru if t != "null"]}]}
                        out.append((wf, rf, [{"v": val, "vs": [val, val], "u": val}], ["directed:promotion-order", wt, "record"]))
    return out


def writer_alias_family():
    """aliases belong to the READER's side of resolution: a writer type's own aliases say nothing about which reader type
    it matches.  Writer types that carry aliases (a later version that kept its former name) against reader types named
    like one of those aliases — no match by the rules — alone, in a field, and as one branch of a reader union"""
    out = []
    kinds = {
        "record": (lambda n, al: {"type": "record", "name": n, **({"aliases": al} if al else {}), "fields": [{"name": "v", "type": "double"}, {"name": "unit", "type": "string"}]},
                   {"v": 21.0, "unit": "C"}),
        "enum": (lambda n, al: {"type": "enum", "name": n, **({"aliases": al} if al else {}), "symbols": ["A", "B"]}, "B"),
        "fixed": (lambda n, al: {"type": "fixed", "name": n, **({"aliases": al} if al else {}), "size": 2}, b"xy"),
    }
    for kind, (mk, val) in kinds.items():
        w = mk("ns.ReadingV2", ["ns.Reading", "Old"])
        for rname, ral in (("ns.Reading", None), ("ns.Other", ["ns.Reading"]), ("ns.Old", None), ("ns.ReadingV2", None), ("ns.New", ["ns.ReadingV2"])):
            r = mk(rname, ral)
            out.append((w, r, [val], ["directed:writer-alias", kind, "top"]))
            wf = {"type": "record", "name": "Env", "fields": [{"name": "entry", "type": w}, {"name": "n", "type": "int"}]}
            none_rec = {"type": "record", "name": "ns.NoneYet", "fields": [{"name": "label", "type": "string", "default": "none"}]}
            rf = {"type": "record", "name": "Env", "fields": [{"name": "entry", "type": [none_rec, r]}, {"name": "n", "type": "int"}]}
            out.append((wf, rf, [{"entry": val, "n": 3}], ["directed:writer-alias", kind, "reader-union"]))
            rf2 = {"type": "record", "name": "Env", "fields": [{"name": "entry", "type": [r, none_rec]}, {"name": "n", "type": "int"}]}
            out.append((wf, rf2, [{"entry": val, "n": 3}], ["directed:writer-alias", kind, "reader-union-first"]))
    return out


def unknown_logical_family(run):
    """a logicalType the library has no conversion for (home-made, from a newer specification, or a known one on the wrong
    underlying type) is ignored: resolution gives exactly what it gives for the bare underlying type — also when the reader
    promotes at that position.  Compared type-strictly (5 and 5.0 are different results)."""
    marks = [{"logicalType": "customer-id"}, {"logicalType": "timestamp-nanos"}, {"logicalType": "json"}]
    promos = [("int", 5, ["long", "float", "double"]), ("long", 2 ** 40, ["float", "double"]), ("float", 1.5, ["double"]),
              ("string", "x", ["bytes"]), ("bytes", b"y", ["string"]), ("int", 7, ["int"])]
    wrong_base = [({"type": "int", "logicalType": "timestamp-millis"}, "int", 9), ({"type": "string", "logicalType": "decimal", "precision": 4, "scale": 2}, "string", "12")]
    shapes = {
        "top": (lambda t: t, lambda v: v),
        "field": (lambda t: {"type": "record", "name": "R", "fields": [{"name": "a", "type": t}, {"name": "z", "type": "int"}]}, lambda v: {"a": v, "z": 1}),
        "array": (lambda t: {"type": "array", "items": t}, lambda v: [v, v]),
        "map": (lambda t: {"type": "map", "values": t}, lambda v: {"k": v}),
        "union": (lambda t: ["null", t], lambda v: v),
    }
    todo = []
    for base, val, targets in promos:
        for mark in marks:
            for tgt in targets:
                todo.append((dict({"type": base}, **mark), base, val, tgt))
    for wt, base, val in wrong_base:
        for tgt in {"int": ["long", "double"], "string": ["bytes"]}[base]:
            todo.append((wt, base, val, tgt))
    for wt, base, val, tgt in todo:
        for sname, (wrap, wrapv) in shapes.items():
            w_marked, w_plain, rs = wrap(wt), wrap(base), wrap(tgt)
            case = {"writer": w_marked, "reader": rs, "value": to_wire(wrapv(val)), "tags": ["unknown-logical-type", "shape:" + sname, "%s->%s" % (base, tgt)]}
            run.count(case, True, ["unknown-logical-type:" + sname])
            try:
                b = _enc(w_plain, wrapv(val))
            except Exception:
                continue
            a, bref = impl_resolve(w_marked, rs, b), impl_resolve(w_plain, rs, b)
            if ("ok" in a) != ("ok" in bref) or ("ok" in a and canon(a["ok"]) != canon(bref["ok"])):
                case["impl"], case["with_bare_type"] = a, bref
                run.fail(case, "a writer type annotated with a logicalType that has no conversion resolves differently from the bare type "
                               "(the annotation must be ignored)", kind="oracle")


def merged_family(seed, n):
    """two different writer record types that resolve against ONE reader record type (same unqualified name in two
    namespaces, or a reader alias), both occurring in one datum / one file, in either order: field matching, skipping
    and default filling depend on the (writer record, reader record) pair, not on the reader record alone"""
    import random
    out = []
    FT = [("int", lambda r: r.randint(-5, 5)), ("string", lambda r: r.choice(["", "a", "xyz"])), ("long", lambda r: r.randint(-2 ** 40, 2 ** 40)),
          ("boolean", lambda r: r.random() < 0.5), ("double", lambda r: r.choice([0.5, -2.0, 1e10])), ("bytes", lambda r: bytes([r.randint(0, 255)]))]
    for i in range(n):
        r = random.Random(seed * 8191 + i)
        names = ["x", "y", "z", "w", "v"]
        types = {nm: r.choice(FT) for nm in names}

        def rec(full, fnames):
            ns, _, base = full.rpartition(".")
            d = {"type": "record", "name": base, "fields": [{"name": f, "type": types[f][0]} for f in fnames]}
            if ns:
                d["namespace"] = ns
            return d
        f1 = r.sample(names, r.randint(1, 4))
        f2 = r.sample(names, r.randint(1, 4))
        style = r.choice(["two-namespaces", "alias"])
        n1, n2 = ("a.Point", "b.Point") if style == "two-namespaces" else ("a.Point", "a.Dot")
        w1, w2 = rec(n1, f1), rec(n2, f2)
        rf = r.sample(names, r.randint(1, 5))
        rfields = []
        for f in rf:
            fd = {"name": f, "type": types[f][0]}
            if r.random() < 0.8:
                v = types[f][1](r)
                fd["default"] = v.decode("iso-8859-1") if isinstance(v, bytes) else v
            rfields.append(fd)
        rrec = {"type": "record", "name": "Point", "namespace": "a", "fields": rfields}
        if style == "alias":
            rrec["aliases"] = ["a.Dot"]
        shape = r.choice(["fields", "array-of-union", "map-then-field", "reader-union-two-matching"])
        order = r.random() < 0.5
        if shape == "fields":
            wa, wb = (w1, w2) if order else (w2, w1)
            w = {"type": "record", "name": "Top", "fields": [{"name": "p", "type": wa}, {"name": "q", "type": wb}]}
            rs = {"type": "record", "name": "Top", "fields": [{"name": "p", "type": rrec}, {"name": "q", "type": "a.Point"}]}
            mk = lambda: {"p": {f["name"]: types[f["name"]][1](r) for f in wa["fields"]}, "q": {f["name"]: types[f["name"]][1](r) for f in wb["fields"]}}
        elif shape == "array-of-union":
            w = {"type": "array", "items": [w1, w2]}
            rs = {"type": "array", "items": [rrec]}
            def mk():
                xs = []
                for _ in range(r.randint(2, 5)):
                    ww = r.choice([w1, w2])
                    full = (ww.get("namespace", "") + "." + ww["name"]).lstrip(".")
                    xs.append((full, {f["name"]: types[f["name"]][1](r) for f in ww["fields"]}))
                return xs
        elif shape == "reader-union-two-matching":
            # a reader union with TWO named branches that both match the writer's record by unqualified name / alias:
            # the first one is resolved — also when resolution then fails inside the value (no second try)
            if r.random() < 0.6:
                # the first candidate fails INSIDE the value: a reader-only field without a default, or an enum symbol it lacks
                extra = [nm for nm in names if nm not in f1]
                if extra:
                    rrec = copy.deepcopy(rrec)
                    rrec["fields"] = [f for f in rrec["fields"] if f["name"] != extra[0]] + [{"name": extra[0], "type": types[extra[0]][0]}]
            rrec2 = copy.deepcopy(rrec)
            rrec2["namespace"] = "v2"
            rrec2["fields"] = [dict(f, default=(f["default"] if "default" in f else
                                               (types[f["name"]][1](r).decode("iso-8859-1") if types[f["name"]][0] == "bytes" else types[f["name"]][1](r))))
                               for f in rrec2["fields"]]
            if style == "alias":
                rrec2["aliases"] = ["a.Dot", "a.Point"]
            first_second = [rrec, rrec2] if r.random() < 0.7 else [rrec2, rrec]
            # the writer's side is a plain record or itself a union (two different code paths in the reader)
            wp = r.choice([w1, w1, ["null", w1], [w1, "string"]])
            w = {"type": "record", "name": "Top", "fields": [{"name": "p", "type": wp}, {"name": "n", "type": "long"}, {"name": "q", "type": ["null", w2]}]}
            rs = {"type": "record", "name": "Top", "fields": [{"name": "p", "type": first_second}, {"name": "n", "type": "long"},
                                                              {"name": "q", "type": ["null", "a.Point" if first_second[0] is rrec else "v2.Point"]}]}
            mk = lambda: {"p": {f["name"]: types[f["name"]][1](r) for f in w1["fields"]}, "n": r.randint(-9, 9),
                          "q": r.choice([None, {f["name"]: types[f["name"]][1](r) for f in w2["fields"]}])}
        else:
            w = {"type": "record", "name": "Top", "fields": [{"name": "m", "type": {"type": "map", "values": w1}}, {"name": "q", "type": w2}]}
            rs = {"type": "record", "name": "Top", "fields": [{"name": "m", "type": {"type": "map", "values": rrec}}, {"name": "q", "type": "a.Point"}]}
            mk = lambda: {"m": {k: {f["name"]: types[f["name"]][1](r) for f in w1["fields"]} for k in ["k1", "k2"][: r.randint(0, 2)]},
                          "q": {f["name"]: types[f["name"]][1](r) for f in w2["fields"]}}
        try:
            parse_schema(copy.deepcopy(w))
            parse_schema(copy.deepcopy(rs))
            data = [mk() for _ in range(2)]
        except Exception:
            continue
        out.append((w, rs, data, ["merged-record:" + style, "shape:" + shape]))
    return out


def _enc(w, v):
    fo = io.BytesIO()
    schemaless_writer(fo, copy.deepcopy(w), v)
    return fo.getvalue()


def gen_from(wv):
    from wire import from_wire
    return from_wire(wv)
