"""C10 — validate accepts exactly conforming data and agrees with what the writers accept
(DESIGN §5 C10)."""
import copy
import io
import json
import struct

import fastavro
from fastavro.validation import validate, validate_many
from fastavro.write import Writer

import gen
import impl
from core import Run
from driver import run_batch
from wire import to_wire, canon, exc_class
from props.common import scale, depth_of, schema_tags, same

THEOREMS = ["c10_raise_iff", "c10_gate", "c10_strict", "c10_validate_eq_conforms"]
TARGETS = ["Properties.TablesValidate", "Properties.C10"]


def f32_ok(v):
    """float leaves restricted to values representable in the target width (property's quantifier)"""
    if isinstance(v, float):
        try:
            struct.pack("<f", v)
        except OverflowError:
            return False
    if isinstance(v, int) and not isinstance(v, bool) and abs(v) > 2 ** 1000:
        return False
    if isinstance(v, dict):
        return all(f32_ok(x) for x in v.values())
    if isinstance(v, (list, tuple)):
        return all(f32_ok(x) for x in v)
    return True


def run(tier, seed):
    run = Run("C10", tier, seed)
    run.rule = ("conforming data from the schema/datum generator and data made non-conforming by ONE mutation at a random "
                "position (wrong Python type, out-of-range int, bool for int, wrong fixed size, unknown symbol, non-string map "
                "key, missing required field, wrong hint) x raise_errors x strict x disable_tuple_notation; validate, "
                "validate_many, the validating Writer; non-trivial = schema depth >= 2 or mutated datum")
    run.lean(TARGETS, THEOREMS)
    cases = []
    from props.common import load_corpus
    from wire import from_wire
    for name, c in load_corpus("C10"):
        cases.append((c["schema"], from_wire(c["value"]), "corpus:" + name, False, False))
    n = scale(tier, 900)
    for i in range(n):
        # with disable_tuple_notation tuples are plain sequences, also under unions; without it a tuple
        # under a union is a (name, value) hint, so tuple-valued arrays are generated only with the option on
        dtn_case = (i % 6 == 3)
        g = gen.Gen(seed * 10000019 + i, bytes_defaults=False, logical=False, float_int=True, tuple_seq=dtn_case,
                    hints=not dtn_case, tuple_rate=0.5)
        try:
            if dtn_case and i % 12 == 3:
                # a tuple used as a plain sequence below a union that itself sits inside a union branch: the
                # option has to reach the validation of nested branches
                r_ = g.r
                inner_items = r_.choice(["string", ["string", "long"], "long"])
                inner = {"type": "array", "items": inner_items}
                U = r_.choice([["long", inner], [inner, "null"], ["string", inner]])
                outer_kind = r_.choice(["array", "record", "map"])
                if outer_kind == "array":
                    s = ["null", {"type": "array", "items": U}]
                elif outer_kind == "map":
                    s = ["null", {"type": "map", "values": U}]
                else:
                    s = ["null", {"type": "record", "name": "Body", "fields": [{"name": "payload", "type": U}]}]
                def item():
                    if inner_items == "long":
                        return r_.randint(0, 9)
                    if inner_items == "string":
                        return r_.choice(["a", "b", "long", "string"])
                    return r_.choice(["a", 1, "string", 2])
                tup = (item(), item())
                v = [tup, tup] if outer_kind == "array" else ({"k": tup} if outer_kind == "map" else {"payload": tup})
                ctx = None
            elif i % 5 == 4:
                s, data = gen.ambiguous_union_case(g)
                ctx = None
                v = g.r.choice(data)
            else:
                s, ctx = g.top_schema()
                v = g.datum(s, ctx)
        except Exception:
            continue
        strict = g.r.random() < 0.3
        dtn = dtn_case
        cases.append((s, v, "conforming", strict, dtn))
        if ctx is not None:
            for _ in range(2):
                try:
                    m = gen.mutate(g, s, v, ctx)
                except Exception:
                    m = None
                if m is not None:
                    cases.append((s, m[1], "mut:" + m[0], strict, dtn))
    # typed arrays (array.array) as data of array schemas: conformance is decided by the items' values, not by the
    # typecode's width (an unsigned 32-bit item can exceed the range of "int", an unsigned 64-bit one that of "long")
    import array as _array
    import random as _random
    r_ = _random.Random(seed * 101 + 10)
    RANGES = {"b": (-2 ** 7, 2 ** 7 - 1), "B": (0, 2 ** 8 - 1), "h": (-2 ** 15, 2 ** 15 - 1), "H": (0, 2 ** 16 - 1),
              "i": (-2 ** 31, 2 ** 31 - 1), "I": (0, 2 ** 32 - 1), "l": (-2 ** 63, 2 ** 63 - 1), "L": (0, 2 ** 64 - 1),
              "q": (-2 ** 63, 2 ** 63 - 1), "Q": (0, 2 ** 64 - 1)}
    for tc in sorted(RANGES):
        lo, hi = RANGES[tc]
        for T in ("int", "long", "float", "double"):
            tlo, thi = (-2 ** 31, 2 ** 31 - 1) if T == "int" else (-2 ** 63, 2 ** 63 - 1)
            inside = [x for x in (lo, hi, 0, 1, tlo, thi) if lo <= x <= hi and tlo <= x <= thi]
            outside = [x for x in (lo, hi, thi + 1, tlo - 1) if lo <= x <= hi and not tlo <= x <= thi]
            variants = [[], [r_.choice(inside)], [r_.choice(inside) for _ in range(3)]]
            if outside:
                variants += [[r_.choice(outside)], [r_.choice(inside), r_.choice(outside)], [r_.choice(outside), r_.choice(inside), r_.choice(inside)]]
            for vals in variants:
                try:
                    arr = _array.array(tc, vals)
                except OverflowError:
                    continue
                base = {"type": "array", "items": T}
                wrap = r_.random()
                if wrap < 0.5:
                    s, v = base, arr
                elif wrap < 0.75:
                    s, v = {"type": "record", "name": "TA", "fields": [{"name": "xs", "type": base}, {"name": "n", "type": "int"}]}, {"xs": arr, "n": 1}
                else:
                    s, v = ["null", base, "string"], arr
                cases.append((s, v, "typed-array:" + tc + "/" + T, False, False))
    for k in range(scale(tier, 12)):
        tc = r_.choice(["f", "d"])
        arr = _array.array(tc, [r_.choice([0.5, -1.25, 1e10, 3.0]) for _ in range(r_.randint(0, 3))])
        T = r_.choice(["int", "long", "float", "double"])
        cases.append(({"type": "array", "items": T}, arr, "typed-array:" + tc + "/" + T, False, False))
    # absent fields whose default passes parse_schema's (shallow) check but is not a datum of the field's type — and, as
    # controls, defaults that are: an absent field conforms iff its default does
    sub = {"type": "record", "name": "Sub", "fields": [{"name": "x", "type": "int"}, {"name": "y", "type": "string"}]}
    for ftype, dflt in (({"type": "array", "items": "int"}, ["x"]), ({"type": "array", "items": "int"}, [1, 2]), ({"type": "array", "items": "int"}, []),
                        ({"type": "map", "values": "long"}, {"k": "v"}), ({"type": "map", "values": "long"}, {"k": 1}),
                        ({"type": "array", "items": {"type": "array", "items": "int"}}, [[1, "x"]]), ({"type": "array", "items": "string"}, [1]),
                        (sub, {"x": 1}), (sub, {"x": 1, "y": "s"}), (sub, {"x": "no", "y": "s"}), (sub, {}),
                        ({"type": "array", "items": sub}, [{"x": 1}]), ({"type": "map", "values": {"type": "array", "items": "int"}}, {"k": [None]}),
                        ({"type": "array", "items": ["null", "int"]}, ["x"]), ({"type": "array", "items": ["null", "int"]}, [None, 3])):
        for pos in ("top", "nested", "array"):
            rec_ = {"type": "record", "name": "HasDefault", "fields": [{"name": "id", "type": "long"}, {"name": "d", "type": copy.deepcopy(ftype), "default": copy.deepcopy(dflt)},
                                                                      {"name": "z", "type": "string"}]}
            datum = {"id": 1, "z": "z"}
            if pos == "nested":
                rec_, datum = {"type": "record", "name": "Outer", "fields": [{"name": "o", "type": rec_}]}, {"o": datum}
            elif pos == "array":
                rec_, datum = {"type": "array", "items": rec_}, [datum, dict(datum, id=2)]
            for strict in (False, True):
                cases.append((rec_, datum, "absent-field-default", strict, False))
    reqs = []
    for (s, v, kind, strict, dtn) in cases:
        ws, wv = to_wire(s), to_wire(v)
        for raise_ in (False, True):
            reqs.append({"op": "validate", "schema": ws, "value": wv, "raise": raise_, "strict": strict, "dtn": dtn, "field": ""})
        reqs.append({"op": "spec.conforms", "schema": ws, "value": wv, "strict": strict, "dtn": dtn})
        reqs.append({"op": "enc", "schema": ws, "value": wv, "opts": {"dtn": dtn}})
    outs = run_batch(reqs)
    for k, (s, v, kind, strict, dtn) in enumerate(cases):
        m_no, m_raise, sp, m_enc = outs[4 * k: 4 * k + 4]
        case = {"schema": s, "value": to_wire(v), "kind": kind, "strict": strict, "dtn": dtn,
                "tags": [kind] + (["has-type-hint"] if "2d74797065" in json.dumps(to_wire(v)) else [])}
        run.count(case, depth_of(s) >= 2 or kind != "conforming", [kind, "strict" if strict else "lenient"])
        run.cov["traces_validated_against_impl"] += 1
        i_no = impl.val(s, v, raise_errors=False, strict=strict, dtn=dtn)
        i_raise = impl.val(s, v, raise_errors=True, strict=strict, dtn=dtn)
        if "perr" in i_no:
            continue
        conf = sp.get("ok")
        why = None
        if conf is True:
            if i_no.get("ok") is not True:
                why = "validate rejects conforming data: %s" % i_no
            elif i_raise.get("ok") is not True:
                why = "validate(raise_errors=True) raises on conforming data: %s" % i_raise
        elif conf is False:
            if i_no.get("ok") is not False:
                why = "validate does not return False for non-conforming data: %s" % i_no
            elif i_raise.get("err") != "validation":
                why = "validate(raise_errors=True) does not raise ValidationError for non-conforming data: %s" % i_raise
        if why is None and i_no.get("ok") is True and not strict and f32_ok(v):
            # everything validate accepts the writers encode and round-trip
            ie = impl.enc(s, v, {"dtn": dtn})
            if "bytes" not in ie:
                why = "validate accepts a datum the writer does not encode: %s" % ie
            else:
                back = impl.dec(s, bytes.fromhex(ie["bytes"]))
                if "ok" not in back or back["rest"] != 0:
                    why = "validate accepts a datum that does not round-trip: %s" % back
        if why:
            run.fail(case, why, kind="oracle")
            continue
        if not same(i_no, m_no, err_class_matters=False) or not same(i_raise, m_raise, err_class_matters=False):
            case["impl"], case["model"] = [i_no, i_raise], [m_no, m_raise]
            run.fail(case, "correspondence: validate differs between implementation and model", kind="correspondence")
    # ---- validate_many
    for k in range(0, len(cases) - 3, 97):
        s = cases[k][0]
        same_schema = [c for c in cases[k:k + 12] if c[0] is s or c[0] == s]
        vals = [c[1] for c in same_schema]
        try:
            each = [validate(v, s, raise_errors=False) for v in vals]
            many = validate_many(vals, s, raise_errors=False)
            run.cov["evaluations"] += 1
            if many != all(each):
                run.fail({"schema": s, "values": [to_wire(v) for v in vals]}, "validate_many disagrees with validate", kind="oracle")
        except Exception:
            pass
    # ---- the validating writer rejects before emitting any byte of that record
    for (s, v, kind, strict, dtn) in cases[:scale(tier, 400)]:
        if strict or dtn:
            continue
        try:
            ps = fastavro.parse_schema(json.loads(json.dumps(s)))
            ok = validate(v, ps, raise_errors=False)
        except Exception:
            continue
        fo = io.BytesIO()
        w = Writer(fo, ps, validator=True, sync_interval=1, sync_marker=b"\x09" * 16)
        before = fo.getvalue()
        raised = None
        try:
            w.write(v)
        except Exception as e:  # noqa
            raised = e
        run.cov["evaluations"] += 1
        run.tag("validating-writer")
        if not ok:
            w.flush()
            if fo.getvalue() != before or w.block_count != 0:
                run.fail({"schema": s, "value": to_wire(v), "tags": ["validating-writer"]},
                         "validating writer emitted bytes for a record validate rejects", kind="oracle")
            elif raised is None or exc_class(raised) != "validation":
                run.fail({"schema": s, "value": to_wire(v), "raised": repr(raised), "tags": ["validating-writer"]},
                         "validating writer did not raise ValidationError for a record validate rejects", kind="oracle")
    # ---- the validating writer when APPENDING: the file's own schema (its named types included) is the one the
    # gate validates against, whatever schema argument is handed over (None, another version of the types)
    import random as _random2
    for i in range(scale(tier, 30)):
        rr = _random2.Random(seed * 733 + i)
        item_t = rr.choice(["int", "long"])
        file_schema = {"type": "record", "name": "Order", "fields": [
            {"name": "first", "type": {"type": "record", "name": "Item", "fields": [{"name": "qty", "type": item_t}]}},
            {"name": "second", "type": "Item"},
            {"name": "more", "type": {"type": "array", "items": "Item"}}]}
        other = copy.deepcopy(file_schema)
        other["fields"][0]["type"]["fields"][0]["type"] = rr.choice(["string", "long", "int", "boolean"])
        arg = rr.choice([None, other, file_schema])
        good = {"first": {"qty": 1}, "second": {"qty": 2}, "more": [{"qty": 3}]}
        too_big = 2 ** 40 if item_t == "int" else 2 ** 70
        bad = rr.choice([{"first": {"qty": 1}, "second": {"qty": too_big}, "more": []},
                         {"first": {"qty": 1}, "second": {"qty": 2}, "more": [{"qty": "x"}]}])
        fo = io.BytesIO()
        fastavro.writer(fo, copy.deepcopy(file_schema), [good], sync_marker=b"\x07" * 16)
        try:
            w = Writer(fo, copy.deepcopy(arg) if arg is not None else None, validator=True, sync_interval=1)
        except Exception as e:  # noqa
            run.fail({"file_schema": file_schema, "argument": arg, "tags": ["validating-writer", "append"]},
                     "opening a validating writer for append raised %r" % (e,), kind="oracle")
            continue
        run.cov["evaluations"] += 1
        run.tag("validating-writer:append")
        size0 = len(fo.getvalue())
        why = None
        try:
            w.write(copy.deepcopy(good))
            w.flush()
        except Exception as e:  # noqa
            why = "validating writer (append) refused a record that conforms to the file's schema: %r" % (e,)
        if why is None:
            size1 = len(fo.getvalue())
            try:
                w.write(copy.deepcopy(bad))
                w.flush()
                why = "validating writer (append) accepted a record that does not conform to the file's schema"
            except Exception as e:  # noqa
                w.flush()
                if exc_class(e) != "validation":
                    why = "validating writer (append) raised %s, not ValidationError" % exc_class(e)
                elif len(fo.getvalue()) != size1:
                    why = "validating writer (append) emitted bytes for a rejected record"
        if why is None:
            try:
                back = list(fastavro.reader(io.BytesIO(fo.getvalue())))
                if back != [good, good]:
                    why = "file after a validating append does not read back"
            except Exception as e:  # noqa
                why = "file after a validating append is unreadable: %r" % (e,)
        if why:
            run.fail({"file_schema": file_schema, "argument": arg, "bad": to_wire(bad), "tags": ["validating-writer", "append"]}, why, kind="oracle")
    # ---- one unparsed schema OBJECT validated against, edited in place, validated against again
    for i in range(scale(tier, 30)):
        rr = _random2.Random(seed * 877 + i)
        obj = {"type": "record", "name": "Meas", "fields": [{"name": "value", "type": "long"}, {"name": "tag", "type": "string"}]}
        data = [{"value": 2 ** 40, "tag": "t"}, {"value": 5, "tag": "t"}, {"value": 5, "tag": 7}, {"value": 5, "tag": "t", "extra": 1},
                {"value": 5}, {"value": True, "tag": "t"}]
        for step in range(3):
            fresh = copy.deepcopy(obj)
            for d in data:
                try:
                    got = validate(d, obj, raise_errors=False)
                except Exception as e:  # noqa
                    got = "raises " + exc_class(e)
                try:
                    exp = validate(d, copy.deepcopy(fresh), raise_errors=False)
                except Exception as e:  # noqa
                    exp = "raises " + exc_class(e)
                try:
                    gotm = validate_many([d, d], obj, raise_errors=False)
                except Exception as e:  # noqa
                    gotm = "raises " + exc_class(e)
                run.cov["evaluations"] += 1
                if got != exp or (gotm is not exp and gotm != exp):
                    run.fail({"schema_now": copy.deepcopy(obj), "value": to_wire(d), "same_object": got, "validate_many": gotm, "fresh_copy": exp,
                              "step": step, "tags": ["same-object-edited"]},
                             "validate against a schema object edited in place differs from validate against a fresh copy of it", kind="oracle")
                    break
            run.tag("same-object-edited")
            f = rr.choice(obj["fields"])
            f["type"] = rr.choice([t for t in ("int", "long", "string", "boolean", ["null", "string"]) if t != f["type"]])
            if rr.random() < 0.4:
                obj["fields"].append({"name": "n%d" % step, "type": "int", "default": 0})
    # ---- directed probes outside the generator's reach
    import io as _io
    import datetime as _dt
    from fastavro.validation import validate as _validate
    date_union = [{"type": "int", "logicalType": "date"}, "string"]
    for val, branch in (("hello", 1), ("2020-01-02", 0), (_dt.date(2020, 1, 2), 0)):
        run.cov["evaluations"] += 1
        run.tag("date-union")
        try:
            ok1 = _validate(val, date_union, raise_errors=False)
            fo = _io.BytesIO()
            fastavro.schemaless_writer(fo, date_union, val)
            okv = ok1 is True and fo.getvalue()[0] == 2 * branch
            got = "validate=%r first byte=%r" % (ok1, fo.getvalue()[:1])
        except Exception as e:  # noqa
            okv, got = False, repr(e)
        if not okv:
            run.fail({"schema": date_union, "value": repr(val), "got": got[:200], "tags": ["date-union"]},
                     "a datum conforming to a branch of a union with a date type is not accepted under that branch", kind="oracle")
    # a named type that carries a logical type (fixed + decimal), defined once and used again BY NAME: the logical datum
    # (a Decimal) conforms at the by-name positions exactly as at the definition site; validate agrees with the writers
    import decimal as _dec
    money = {"type": "fixed", "name": "demo.Money", "size": 8, "logicalType": "decimal", "precision": 12, "scale": 2}
    amt = _dec.Decimal("12.34")
    probes = {
        "field-by-name": ({"type": "record", "name": "T", "fields": [{"name": "a", "type": money}, {"name": "b", "type": "demo.Money"}]}, {"a": amt, "b": amt}),
        "array-by-name": ({"type": "record", "name": "T", "fields": [{"name": "a", "type": money}, {"name": "bs", "type": {"type": "array", "items": "demo.Money"}}]}, {"a": amt, "bs": [amt, amt]}),
        "union-by-name": ({"type": "record", "name": "T", "fields": [{"name": "a", "type": money}, {"name": "b", "type": ["null", "demo.Money"]}]}, {"a": amt, "b": amt}),
        "map-of-union-by-name": ({"type": "record", "name": "T", "fields": [{"name": "a", "type": money}, {"name": "m", "type": {"type": "map", "values": ["string", "demo.Money"]}}]}, {"a": amt, "m": {"k": amt, "l": "s"}}),
        "raw-bytes-by-name": ({"type": "record", "name": "T", "fields": [{"name": "a", "type": money}, {"name": "b", "type": "demo.Money"}]}, {"a": amt, "b": b"\x00" * 8}),
    }
    for pname, (sch, datum) in probes.items():
        for parsed_ in (False, True):
            obj = fastavro.parse_schema(copy.deepcopy(sch)) if parsed_ else copy.deepcopy(sch)
            run.cov["evaluations"] += 1
            run.tag("named-logical-by-name")
            res = {}
            try:
                res["validate"] = _validate(datum, obj, raise_errors=False)
            except Exception as e:  # noqa
                res["validate"] = "raises " + exc_class(e)
            for wname, vflag in (("writer", False), ("writer(validator=True)", True)):
                try:
                    fo = _io.BytesIO()
                    fastavro.writer(fo, obj, [datum], validator=vflag)
                    back = list(fastavro.reader(_io.BytesIO(fo.getvalue())))
                    res[wname] = "ok" if len(back) == 1 and back[0]["a"] == amt else "read back %r" % (back,)
                except Exception as e:  # noqa
                    res[wname] = "raises " + exc_class(e)
            try:
                fastavro.schemaless_writer(_io.BytesIO(), obj, datum)
                res["schemaless_writer"] = "ok"
            except Exception as e:  # noqa
                res["schemaless_writer"] = "raises " + exc_class(e)
            if res != {"validate": True, "writer": "ok", "writer(validator=True)": "ok", "schemaless_writer": "ok"}:
                run.fail({"schema": sch, "value": repr(datum), "parsed_schema": parsed_, "results": res, "tags": ["named-logical-by-name", pname]},
                         "a conforming datum at a position that refers by name to a named type with a logical type is not accepted "
                         "by validate and all writers alike", kind="oracle")
    # strict modes: a record lacking a field that has no default is refused even when the field's type accepts null —
    # by validate(strict=True) and by every writer alike (strict and strict_allow_default)
    for nt in ("null", {"type": "null"}, ["null", "int"], ["int", "null"]):
        for pos in ("last", "first", "nested"):
            flds = [{"name": "a", "type": "int"}, {"name": "n", "type": nt}]
            if pos == "first":
                flds.reverse()
            sch = {"type": "record", "name": "StrictR", "fields": flds}
            datum = {"a": 1}
            if pos == "nested":
                sch = {"type": "record", "name": "StrictOuter", "fields": [{"name": "inner", "type": sch}, {"name": "z", "type": "string"}]}
                datum = {"inner": {"a": 1}, "z": "s"}
            res = {}
            try:
                res["validate(strict)"] = _validate(datum, copy.deepcopy(sch), raise_errors=False, strict=True)
            except Exception as e:  # noqa
                res["validate(strict)"] = "raises " + exc_class(e)
            for mode in ("strict", "strict_allow_default"):
                kw = {mode: True}
                for wname, fn in (("schemaless_writer", lambda: fastavro.schemaless_writer(_io.BytesIO(), copy.deepcopy(sch), datum, **kw)),
                                  ("writer", lambda: fastavro.writer(_io.BytesIO(), copy.deepcopy(sch), [datum], **kw)),
                                  ("json_writer", lambda: fastavro.json_writer(_io.StringIO(), copy.deepcopy(sch), [datum], **kw))):
                    try:
                        fn()
                        res["%s(%s)" % (wname, mode)] = "accepted"
                    except Exception as e:  # noqa
                        res["%s(%s)" % (wname, mode)] = "refused"
            run.cov["evaluations"] += 1
            run.tag("strict-missing-nullable")
            if res["validate(strict)"] is not False or any(v != "refused" for k, v in res.items() if k != "validate(strict)"):
                run.fail({"schema": sch, "value": datum, "results": res, "tags": ["strict-missing-nullable", pos]},
                         "strict mode: a record lacking a field without a default (its type accepts null) is not refused by validate and "
                         "every writer alike", kind="oracle")
    for ftype, dflt in (("bytes", "ab"), ({"type": "fixed", "name": "Fx", "size": 2}, "ab")):
        sch = {"type": "record", "name": "R", "fields": [{"name": "i", "type": "int"}, {"name": "b", "type": ftype, "default": dflt}]}
        run.cov["evaluations"] += 1
        run.tag("bytes-default-omitted")
        try:
            okv = _validate({"i": 1}, sch, raise_errors=False) is True
            got = "validate False"
        except Exception as e:  # noqa
            okv, got = False, repr(e)
        if not okv:
            run.fail({"schema": sch, "value": {"i": 1}, "got": got[:200], "tags": ["bytes-default-omitted"]},
                     "omitted bytes/fixed field with a schema default: the datum does not validate", kind="oracle")
    return run.finish()
