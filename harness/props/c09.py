"""C09 — union branch choice is deterministic, honours hints, closed under read/write (DESIGN §5 C09)."""
import io
import json

import fastavro

import gen
import impl
from core import Run
from driver import run_batch
from wire import to_wire, from_wire, canon, exc_class
from props.common import scale, depth_of, schema_tags, same

THEOREMS = ["c09_hint", "c09_choose_eq_spec", "c09_closure_branch", "c09_closure_union_level"]
TARGETS = ["Properties.TablesCodec", "Properties.C09"]

ROPTS = [{}, {"rnt": True}, {"rrn": True}, {"rnt": True, "rnto": True}, {"rrn": True, "rrno": True}]


def union_cases(seed, n):
    out = []
    for i in range(n):
        g = gen.Gen(seed * 9000011 + i, bytes_defaults=False, logical=False, tuple_seq=False)
        r = g.r
        try:
            k = r.random()
            if i % 15 == 7:
                # ambiguous *named* branches (two enums sharing a symbol, two fixed of one size) inside a type that
                # is reached again through a by-name reference: only the (name, value) form pins the branch
                ns = r.choice(["", "demo"])
                q = (ns + ".") if ns else ""
                amb = r.choice([
                    [{"type": "enum", "name": q + "Color", "symbols": ["RED", "OTHER"]}, {"type": "enum", "name": q + "Shape", "symbols": ["SQUARE", "OTHER"]}],
                    [{"type": "fixed", "name": q + "FA", "size": 2}, {"type": "fixed", "name": q + "FB", "size": 2}]])
                s = {"type": "record", "name": q + "Node", "fields": [
                    {"name": "tag", "type": ["null"] + amb},
                    {"name": "children", "type": {"type": "array", "items": q + "Node"}},
                    {"name": "next", "type": ["null", q + "Node"]}]}
                val = "OTHER" if amb[0]["type"] == "enum" else b"ab"

                def node(depth):
                    which = r.choice([0, 1])
                    return {"tag": r.choice([None, (amb[which]["name"], val)]),
                            "children": [node(depth - 1) for _ in range(r.randint(0, 2))] if depth > 0 else [],
                            "next": node(depth - 1) if depth > 0 and r.random() < 0.5 else None}
                data = [node(2) for _ in range(3)]
                out.append((s, data, {"dtn": False, "strict": False}))
                continue
            if i % 15 == 13:
                # an earlier named branch carries an ALIAS equal to the name (or short name) of a later branch: a
                # (name, value) hint still selects exactly the branch NAMED so
                ns = r.choice(["", "demo"])
                q = (ns + ".") if ns else ""
                kindk = r.choice(["record", "enum", "fixed"])
                later_alias = r.choice([q + "Event", "Event"])
                if kindk == "record":
                    first = {"type": "record", "name": q + "LegacyEvent", "aliases": [later_alias], "fields": [{"name": "id", "type": "int"}]}
                    later = {"type": "record", "name": q + "Event", "fields": [{"name": "id", "type": "int"}, {"name": "src", "type": "string", "default": "web"}]}
                    val = lambda: {"id": r.randint(0, 9), "src": r.choice(["a", "web"])}
                    val0 = lambda: {"id": r.randint(0, 9)}
                elif kindk == "enum":
                    first = {"type": "enum", "name": q + "LegacyEvent", "aliases": [later_alias], "symbols": ["A", "B"]}
                    later = {"type": "enum", "name": q + "Event", "symbols": ["B", "A", "C"]}
                    val = lambda: r.choice(["A", "B", "C"])
                    val0 = lambda: r.choice(["A", "B"])
                else:
                    first = {"type": "fixed", "name": q + "LegacyEvent", "aliases": [later_alias], "size": 2}
                    later = {"type": "fixed", "name": q + "Event", "size": 2}
                    val = lambda: bytes([r.randint(0, 255), 1])
                    val0 = val
                u = ["null", first, later]
                s = u if r.random() < 0.5 else {"type": "record", "name": "Env", "fields": [{"name": "e", "type": u}, {"name": "es", "type": {"type": "array", "items": ["null", q + "LegacyEvent", q + "Event"]}}]}
                items = [(q + "Event", val()), (q + "LegacyEvent", val0()), None, (q + "Event", val())]
                data = items if s is u else [{"e": x, "es": [x, items[(k + 1) % 4]]} for k, x in enumerate(items)]
                out.append((s, data, {"dtn": False, "strict": False}))
                continue
            if i % 15 == 1:
                # unions of 70-140 branches: positions around 63/64 and 127/128 (where the index's varint grows), with tuple
                # hints, '-type' hints and no hint at all
                nb = r.choice([70, 100, 130, 140])
                if r.random() < 0.5:
                    u = [{"type": "fixed", "name": "Fx%d" % k, "size": k + 1} for k in range(nb)]
                    mkv = lambda k, hint: (("Fx%d" % k, bytes([k % 256]) * (k + 1)) if hint else bytes([k % 256]) * (k + 1))
                else:
                    u = [{"type": "record", "name": "R%d" % k, "fields": [{"name": "f%d" % k, "type": "int"}]} for k in range(nb)]
                    mkv = lambda k, hint: (("R%d" % k, {"f%d" % k: k}) if hint == "tuple" else ({"-type": "R%d" % k, "f%d" % k: k} if hint else {"f%d" % k: k}))
                pos = [p_ for p_ in (0, 62, 63, 64, 65, 100, 126, 127, 128, 129, nb - 1) if p_ < nb]
                shape = r.random()
                if shape < 0.5:
                    s, wrapv = u, (lambda x: x)
                elif shape < 0.8:
                    s, wrapv = {"type": "array", "items": u}, (lambda x: [x, x])
                else:
                    s, wrapv = {"type": "record", "name": "Wb", "fields": [{"name": "u", "type": u}, {"name": "z", "type": "int"}]}, (lambda x: {"u": x, "z": 1})
                data = [wrapv(mkv(k, r.choice([None, "tuple", "type"]))) for k in r.sample(pos, min(6, len(pos)))]
                out.append((s, data, {"dtn": False, "strict": False}))
                continue
            if i % 15 == 3:
                # the ends of the int and long ranges under unions whose branches differ only in range
                ints = [-2 ** 31, 2 ** 31 - 1, -2 ** 31 - 1, 2 ** 31, -2 ** 63, 2 ** 63 - 1, 0, -1, 1]
                u = r.choice([["int", "long"], ["null", "int"], ["long", "double"], ["int", "double", "long"], ["null", "long", "string"],
                              ["long", "int"], ["int", "string"], ["null", "int", "long", "double"]])
                shape = r.random()
                if shape < 0.35:
                    s, mk = u, (lambda x: x)
                elif shape < 0.6:
                    s = {"type": "record", "name": "Wi", "fields": [{"name": "u", "type": u}, {"name": "us", "type": {"type": "array", "items": u}}]}
                    mk = lambda x: {"u": x, "us": [x, 0, x]}
                elif shape < 0.8:
                    s, mk = {"type": "map", "values": u}, (lambda x: {"k": x})
                else:
                    s = [{"type": "record", "name": "Small", "fields": [{"name": "v", "type": "int"}]},
                         {"type": "record", "name": "Big", "fields": [{"name": "v", "type": "long"}]},
                         {"type": "record", "name": "Huge", "fields": [{"name": "v", "type": "double"}]}]
                    mk = lambda x: {"v": x}
                out.append((s, [mk(x) for x in r.sample(ints, 5)], {"dtn": False, "strict": False}))
                continue
            if i % 15 == 5:
                # equal values of different Python types side by side in one container of unions
                u = r.choice([["boolean", "int"], ["int", "boolean"], ["long", "double"], ["double", "long"], ["boolean", "double"],
                              ["null", "float", "int"], ["boolean", "long", "double"]])
                pool = [True, False, 1, 0, 2, 1.0, 0.0, 2.0]
                pool = [x for x in pool if (isinstance(x, bool) and "boolean" in u) or (type(x) is int and ("int" in u or "long" in u))
                        or (isinstance(x, float) and ("float" in u or "double" in u))]
                r.shuffle(pool)
                s = r.choice([{"type": "array", "items": u}, {"type": "map", "values": u}])
                v = list(pool) if s["type"] == "array" else {"k%d" % j: x for j, x in enumerate(pool)}
                out.append((s, [v], {"dtn": False, "strict": False}))
                continue
            if i % 15 == 9:
                # a '-type' hint below an un-hinted union of records: it names a branch only some of the candidates have
                q = r.choice(["", "demo."])
                circle = {"type": "record", "name": q + "Circle", "fields": [{"name": "r", "type": "double"}]}
                square = {"type": "record", "name": q + "Square", "fields": [{"name": "r", "type": "double"}]}
                inner_pos = r.choice(["field", "array", "map"])

                def place(u):
                    if inner_pos == "field":
                        return u
                    if inner_pos == "array":
                        return {"type": "array", "items": u}
                    return {"type": "map", "values": u}
                legacy = {"type": "record", "name": q + "Legacy", "fields": [{"name": "shape", "type": place(["null", circle])}]}
                modern = {"type": "record", "name": q + "Modern", "fields": [{"name": "shape", "type": place(["null", q + "Circle", square])}]}
                s = [legacy, modern] if r.random() < 0.8 else ["null", legacy, modern]

                def inner(h):
                    d = {"r": 1.5}
                    if h:
                        d["-type"] = h
                    if inner_pos == "field":
                        return d
                    if inner_pos == "array":
                        return [d, None]
                    return {"k": d}
                hints = [q + "Square", q + "Circle", None, q + "Nope"]
                out.append((s, [{"shape": inner(h)} for h in hints], {"dtn": False, "strict": False}))
                continue
            if i % 15 == 11:
                # the float -> double deferral under every spelling of the two branches (bare name, {"type": ...},
                # {"type": ..., other attributes}), any position, any nesting
                def spell(t):
                    c = r.random()
                    if c < 0.4:
                        return t
                    if c < 0.7:
                        return {"type": t}
                    return {"type": t, r.choice(["doc", "custom", "comment"]): "x"}
                others = r.sample(["null", "string", "boolean", "bytes", {"type": "array", "items": "int"},
                                   {"type": "enum", "name": "En", "symbols": ["A"]}], r.randint(0, 3))
                br = [spell("float")] + ([spell("double")] if r.random() < 0.8 else []) + others
                if r.random() < 0.3:
                    br.insert(0, spell(r.choice(["int", "long"])))
                first_float = next(j for j, b in enumerate(br) if b == "float" or (isinstance(b, dict) and b.get("type") == "float"))
                rest = br[:first_float] + br[first_float:]
                # float stays before double in half of the cases
                if r.random() < 0.5:
                    r.shuffle(br)
                u = br
                wrap = r.random()
                if wrap < 0.4:
                    s = u
                    mk = lambda x: x
                elif wrap < 0.7:
                    s = {"type": "record", "name": "Wf", "fields": [{"name": "a", "type": "int"}, {"name": "u", "type": u}]}
                    mk = lambda x: {"a": 1, "u": x}
                else:
                    s = {"type": "array", "items": u}
                    mk = lambda x: [x, x]
                pool = [0.1, 1e200, -2.5, 1.0, 3.4028234663852886e+38, 1e-50, float("inf"), 16777217.0, 5, 2 ** 40, 0.5]
                data = [mk(r.choice(pool)) for _ in range(4)]
                out.append((s, data, {"dtn": False, "strict": False}))
                continue
            if k < 0.35:
                s, data = gen.ambiguous_union_case(g)
            elif k < 0.7:
                ctx = gen.Ctx()
                u = g.union_schema(ctx, "", 3)
                if r.random() < 0.5:
                    s = u
                else:
                    s = {"type": "record", "name": "W", "fields": [{"name": "pre", "type": "string"}, {"name": "u", "type": u},
                                                                   {"name": "us", "type": {"type": "array", "items": u}}]}
                data = [g.datum(s, ctx) for _ in range(3)]
            else:
                s, ctx = g.top_schema()
                data = [g.datum(s, ctx) for _ in range(3)]
        except Exception:
            continue
        out.append((s, data, {"dtn": r.random() < 0.1, "strict": False}))
    return out


def has_unnamed_hint(v):
    """a (name, value) hint that names an unnamed branch (primitive, array, map): such a branch is read
    back as a bare value, so the closure clause (which is about named branches) does not apply"""
    if isinstance(v, tuple):
        if len(v) == 2 and isinstance(v[0], str) and (v[0] in gen.PRIMS or v[0] in ("array", "map")):
            return True
        return any(has_unnamed_hint(x) for x in v)
    if isinstance(v, dict):
        return any(has_unnamed_hint(x) for x in v.values())
    if isinstance(v, list):
        return any(has_unnamed_hint(x) for x in v)
    return False


def run(tier, seed):
    run = Run("C09", tier, seed)
    run.rule = ("unions of primitive mixes, several records with overlapping optional fields (inline and by name), enums, "
                "fixed, arrays/maps, nested at any depth; data with and without (name, value) / '-type' hints, unknown hint "
                "names; reader options return_record_name / return_named_type and *_override; disable_tuple_notation; "
                "non-trivial = schema with a union of >= 2 branches")
    run.lean(TARGETS, THEOREMS)
    all_cases = union_cases(seed, scale(tier, 900))
    # in slices: the requests of a slice (big unions are megabytes on the wire) are dropped before the next slice is built
    for lo in range(0, len(all_cases), 400):
        _run_slice(run, all_cases[lo:lo + 400])
    cases = all_cases
    _after_slices(run, tier, cases)
    return run.finish()


def _run_slice(run, cases):
    reqs, idx = [], []
    wss = {}
    for ci, (s, data, opts) in enumerate(cases):
        ws = wss[ci] = to_wire(s)
        for di, v in enumerate(data):
            reqs.append({"op": "spec.enc.rule", "schema": ws, "value": to_wire(v), "opts": opts})
            idx.append((ci, di))
    rule = run_batch(reqs)
    model = run_batch([dict(r, op="enc") for r in reqs])
    norm = run_batch([dict(r, op="normalize") for r in reqs])
    dreqs, dmeta = [], []
    import collections as _collections

    def as_mapping(x, kind):
        """the same datum with its dicts replaced by another mapping type"""
        if isinstance(x, dict):
            items = [(k_, as_mapping(y, kind)) for k_, y in x.items()]
            if kind == "ordered":
                return _collections.OrderedDict(items)
            d = _collections.defaultdict(list)
            d.update(items)
            return d
        if isinstance(x, list):
            return [as_mapping(y, kind) for y in x]
        if isinstance(x, tuple):
            return tuple(as_mapping(y, kind) for y in x)
        return x
    for k, (ci, di) in enumerate(idx):
        s, data, opts = cases[ci]
        v = data[di]
        ie = impl.enc(s, v, opts)
        if k % 5 == 0 and "bytes" in ie:
            # the same items held in another kind of mapping, and the same datum object written a second time:
            # the choice is a function of schema and datum alone
            for kind in ("ordered", "defaultdict", "again"):
                v2 = v if kind == "again" else as_mapping(v, kind)
                before = to_wire(v2)
                ie2 = impl.enc(s, v2, opts)
                run.cov["evaluations"] += 1
                if ie2.get("bytes") != ie["bytes"]:
                    run.fail({"schema": s, "value": to_wire(v), "opts": opts, "variant": kind, "first": ie, "second": ie2, "tags": ["mapping-kind"]},
                             "the same datum (%s) is written differently" % ("written a second time" if kind == "again" else "held in a " + kind), kind="oracle")
                    break
                if to_wire(v2) != before:
                    run.fail({"schema": s, "value": before, "after": to_wire(v2), "opts": opts, "variant": kind, "tags": ["mapping-kind"]},
                             "writing changed the datum handed to the writer", kind="oracle")
                    break
            run.tag("mapping-kinds")
        case = {"schema": s, "value": to_wire(v), "opts": opts}
        tags = sorted(t for t in schema_tags(s) if t in ("union", "record", "ref", "enum", "fixed"))
        inside = "ok" in norm[k] and "bytes" in model[k]
        run.count(case, "union" in tags, tags + ["guard:" + ("inside" if inside else "outside")])
        run.cov["traces_validated_against_impl"] += 1
        if inside and "bytes" in rule[k]:
            if "bytes" not in ie:
                run.fail(case, "writer rejected a conforming datum: %s" % ie, kind="oracle")
                continue
            if ie["bytes"] != rule[k]["bytes"]:
                case["impl_bytes"], case["rule_bytes"] = ie["bytes"], rule[k]["bytes"]
                run.fail(case, "the branch written is not the one the documented rule selects", kind="oracle")
                continue
        if not same(ie, model[k]):
            case["impl"], case["model"] = ie, model[k]
            run.fail(case, "correspondence: enc differs between implementation and model", kind="correspondence")
            continue
        if "bytes" in ie:
            for ro in ROPTS:
                dreqs.append({"op": "dec", "schema": wss[ci], "bytes": ie["bytes"], "ropts": ro})
                dmeta.append((ci, di, ie["bytes"], ro))
    douts = run_batch(dreqs)
    for (ci, di, hx, ro), mo in zip(dmeta, douts):
        s, data, opts = cases[ci]
        io_ = impl.dec(s, bytes.fromhex(hx), ro)
        run.cov["evaluations"] += 1
        run.tag("read-opts:" + ("+".join(sorted(ro)) or "none"))
        case = {"schema": s, "value": to_wire(data[di]), "ropts": ro, "bytes": hx}
        # closure (property oracle, evaluated first): (name, value) pairs read with named-type reporting,
        # written back, give the identical bytes
        if ro == {"rnt": True} and "ok" in io_ and not opts.get("dtn") and not has_unnamed_hint(data[di]):
            back = from_wire(io_["ok"])
            again = impl.enc(s, back, opts)
            if again.get("bytes") != hx:
                case["read"], case["rewritten"] = io_["ok"], again
                run.fail(case, "value read with return_named_type does not reproduce the identical bytes when written back",
                         kind="oracle")
                continue
        if not same(io_, mo) or ("ok" in io_ and canon(io_["ok"]) != canon(mo["ok"])):
            case["impl"], case["model"] = io_, mo
            run.fail(case, "correspondence: reading with %s differs from the model" % ro, kind="correspondence")
            continue


def _after_slices(run, tier, cases):
    # ---- unknown hint names are errors — also when another branch could take the whole tuple as a datum (an array branch
    # whose items accept both elements, a map / record branch never can)
    for u, hint in (((["null", "string", {"type": "array", "items": "string"}]), ("strng", "hello")),
                    ((["null", {"type": "array", "items": ["string", "long"]}, "long"]), ("lng", 5)),
                    (([{"type": "array", "items": "string"}, {"type": "record", "name": "ns.Rec", "fields": [{"name": "a", "type": "string"}]}]), ("Rec", "x")),
                    ((["int", {"type": "array", "items": ["null", "string", {"type": "map", "values": "int"}]}]), ("integer", None)),
                    ((["null", {"type": "array", "items": "string"}]), ("a", "b"))):
        for place in ("top", "field", "array", "map"):
            if place == "top":
                s, v = u, hint
            elif place == "field":
                s, v = {"type": "record", "name": "HoldsU", "fields": [{"name": "u", "type": u}]}, {"u": hint}
            elif place == "array":
                s, v = {"type": "array", "items": u}, [hint]
            else:
                s, v = {"type": "map", "values": u}, {"k": hint}
            ie = impl.enc(s, v, {"dtn": False, "strict": False})
            run.cov["evaluations"] += 1
            run.tag("unknown-hint-beside-array-branch")
            if "bytes" in ie:
                run.fail({"schema": s, "value": to_wire(v), "written": ie, "tags": ["unknown-hint", place]},
                         "a (name, value) hint naming no branch was written instead of raising", kind="oracle")
    # the same tuples with tuple notation disabled are ordinary sequences and go to the array branch
    ie = impl.enc(["null", "string", {"type": "array", "items": "string"}], ("strng", "hello"), {"dtn": True, "strict": False})
    if "bytes" not in ie:
        run.fail({"schema": ["null", "string", {"type": "array", "items": "string"}], "value": to_wire(("strng", "hello")), "opts": {"dtn": True}, "impl": ie},
                 "with disable_tuple_notation a tuple of strings is not written as an array", kind="oracle")
    for (s, data, opts) in cases[:scale(tier, 200)]:
        if isinstance(s, list) and not opts.get("dtn"):
            ie = impl.enc(s, ("No.Such.Branch", data[0]), opts)
            run.cov["evaluations"] += 1
            if "bytes" in ie:
                run.fail({"schema": s, "value": to_wire(("No.Such.Branch", data[0]))},
                         "a (name, value) hint naming no branch was written instead of raising", kind="oracle")
