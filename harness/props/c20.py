"""C20 — generate_one / generate_many always produce data that conforms to the schema (DESIGN §5 C20).
For schemas of the generator (logical types, by-name references, recursive types included), counts n >= 0
and many states of the library's random source: exactly n values; each validates, is accepted by the
schemaless and container writers and reads back.  Model tie: every generated value must lie in the image
of the model generator (Generate.inImage) and conform by Spec.conforms."""
import copy
import io
import json
import random
import signal

import fastavro
from fastavro import parse_schema, schemaless_reader, schemaless_writer
from fastavro.utils import generate_many, generate_one
from fastavro.validation import validate

import gen
from core import Run
from driver import run_batch
from wire import to_wire, canon, exc_class
from props.common import scale, depth_of, schema_tags

THEOREMS = ["c20_generated_conforms", "c20_generated_validates", "c20_exact_count", "c20_terminates_tree", "c20_nontermination_counterexample",
            "Tables.generate_ranges"]
TARGETS = ["Properties.TablesGenerate", "Properties.C20"]


def recursion_kind(s):
    """'array-or-map' when some type refers to itself through an array or map (ten children each, always),
    'union' when only directly / through unions, None when not recursive"""
    try:
        named = {}
        parse_schema(copy.deepcopy(s), named)
    except Exception:
        return None
    edges = {}

    def targets(n, coll, out):
        if isinstance(n, list):
            for b in n:
                targets(b, coll, out)
        elif isinstance(n, str):
            if n in named:
                out.add((n, coll))
        elif isinstance(n, dict):
            t = n.get("type")
            if t in ("record", "enum", "fixed"):
                out.add((n["name"], coll))
            elif t == "array":
                targets(n["items"], True, out)
            elif t == "map":
                targets(n["values"], True, out)
    for name, d in named.items():
        out = set()
        if isinstance(d, dict) and d.get("type") == "record":
            for f in d["fields"]:
                targets(f["type"], False, out)
        edges[name] = out
    kinds = set()
    for start in edges:
        # states: (node, coll-edge used)
        seen = set()
        stack = [(t, c) for t, c in edges[start]]
        while stack:
            node, c = stack.pop()
            if (node, c) in seen:
                continue
            seen.add((node, c))
            if node == start:
                kinds.add("array-or-map" if c else "union")
            for t2, c2 in edges.get(node, ()):
                stack.append((t2, c or c2))
    if not kinds:
        return None
    # a recursive type whose values are finite with probability one and shallow with overwhelming probability: the mean
    # number of records of type j generated directly inside one record of type i (a union branch is drawn uniformly, an
    # array / a map always has ten children) forms a matrix M; when some power of M has all row sums <= 0.75^k the
    # expected size of a value is finite and P(depth > d) falls like 0.75^d — a RecursionError there is not finding F6
    rho = mean_offspring_bound(named)
    if rho is not None and rho <= 0.75:
        return "subcritical"
    if "array-or-map" in kinds:
        return "array-or-map"
    return "union"


def mean_offspring_bound(named):
    """an upper bound of the spectral radius of the mean-offspring matrix of the record types in `named`
    (max row sum of M^32, 32nd root); None when there are no records"""
    recs = sorted(n for n, d in named.items() if isinstance(d, dict) and d.get("type") in ("record", "error"))
    if not recs:
        return None
    idx = {n: i for i, n in enumerate(recs)}
    M = [[0.0] * len(recs) for _ in recs]

    def add(n, w, row):
        if isinstance(n, list):
            for b in n:
                add(b, w / float(len(n)), row)
        elif isinstance(n, str):
            if n in idx:
                row[idx[n]] += w
        elif isinstance(n, dict):
            t = n.get("type")
            if t in ("record", "error"):
                if n.get("name") in idx:
                    row[idx[n["name"]]] += w
            elif t == "array":
                add(n["items"], w * 10.0, row)
            elif t == "map":
                add(n["values"], w * 10.0, row)
            elif isinstance(t, (dict, list)):
                add(t, w, row)
    for n in recs:
        for f in named[n]["fields"]:
            add(f["type"], 1.0, M[idx[n]])

    def mul(A, B):
        return [[sum(A[i][k] * B[k][j] for k in range(len(B))) for j in range(len(B))] for i in range(len(A))]
    Pw = M
    for _ in range(5):          # M^32
        Pw = mul(Pw, Pw)
        if max(sum(r) for r in Pw) > 1e30:
            return float("inf")
    return max(sum(r) for r in Pw) ** (1.0 / 32)


class Timeout(Exception):
    pass


def with_timeout(fn, seconds=3):
    def handler(signum, frame):
        raise Timeout()
    # processor time of this process, not wall-clock time: a loaded machine must not turn a slow call into "does not return"
    old = signal.signal(signal.SIGVTALRM, handler)
    signal.setitimer(signal.ITIMER_VIRTUAL, seconds)
    try:
        return fn()
    finally:
        signal.setitimer(signal.ITIMER_VIRTUAL, 0)
        signal.signal(signal.SIGVTALRM, old)


def run(tier, seed):
    run = Run("C20", tier, seed)
    run.rule = ("schemas of the generator (all kinds, logical types on a third of them, by-name references, recursive types) x "
                "n in {0, 1, 3} x several seeds of the library's random source; exactly n values; each validates, is written "
                "by the schemaless and container writers and read back; every value lies in the image of the model generator")
    run.lean(TARGETS, THEOREMS)
    reqs, meta = [], []
    # every logicalType annotation on every underlying type (an annotation that does not belong to the type is
    # ignored by the codec, so the value must be an ordinary datum of the underlying type), bare / as a field / in a union
    LOGICALS = ["date", "time-millis", "time-micros", "timestamp-millis", "timestamp-micros", "local-timestamp-millis",
                "local-timestamp-micros", "uuid", "decimal", "no-such-logical-type"]
    directed = []
    for under in ("int", "long", "string", "bytes"):
        for lt in LOGICALS:
            base = {"type": under, "logicalType": lt}
            if lt == "decimal":
                base.update(precision=5, scale=2)
            directed += [base, {"type": "record", "name": "LT", "fields": [{"name": "v", "type": base}]}, ["null", base]]
    nd = len(directed) if tier != "quick" else 40
    rsel = random.Random(seed * 31 + 20)
    directed = rsel.sample(directed, nd)
    # long chains of types referring to each other by name (6-9 deep), every record with fields whose default is
    # spelled differently in JSON than as a datum (bytes, fixed, a record default, NaN is not used): whatever the
    # generator does at depth, its values are data, not JSON defaults
    for depth in (6, 7, 9):
        fields_last = [{"name": "raw", "type": "bytes", "default": "\u00ff\u0001"}, {"name": "n", "type": "int", "default": 3}]
        chain = {"type": "record", "name": "L%d" % depth, "fields": fields_last}
        types = [chain]
        for lvl in range(depth - 1, -1, -1):
            types.append({"type": "record", "name": "L%d" % lvl, "fields": [
                {"name": "raw", "type": "bytes", "default": "\u00fe"},
                {"name": "sig", "type": {"type": "fixed", "name": "Sig%d" % lvl, "size": 2}, "default": "ab"},
                {"name": "next", "type": "L%d" % (lvl + 1)}]})
        # definitions first (deepest first), then the root refers to L0 by name
        root = {"type": "record", "name": "ChainRoot%d" % depth, "fields": [{"name": "defs", "type": ["null"] + types, "default": None},
                                                                            {"name": "head", "type": "L0"}]}
        directed.append(root)
    directed.append({"type": "array", "items": {"type": "record", "name": "Node", "fields": [
        {"name": "raw", "type": "bytes", "default": "\u00ff"}, {"name": "next", "type": ["null", "Node"], "default": None}]}})
    # records of kind "error" (the specification's other record kind) at every position
    err = {"type": "error", "name": "ns.Failure", "fields": [{"name": "code", "type": "int"}, {"name": "msg", "type": "string"}]}
    directed += [err, {"type": "record", "name": "Resp", "fields": [{"name": "f", "type": err}, {"name": "again", "type": "ns.Failure"}]},
                 {"type": "array", "items": err}, {"type": "map", "values": err}, ["null", err],
                 {"type": "record", "name": "Resp2", "fields": [{"name": "fs", "type": {"type": "array", "items": err}}, {"name": "one", "type": ["ns.Failure", "string"]}]}]
    # recursive types with further choice points per level (an optional payload, an enum tag, several optional texts, a
    # three-branch union, mutual recursion, the "error" kind): every recursive union has a way out and is drawn uniformly, so
    # values are finite with probability one and shallow
    def node(name, extra, nxt=None, kind="record"):
        return {"type": kind, "name": name, "fields": extra + [{"name": "next", "type": nxt or ["null", name]}]}
    directed += [
        node("ListP", [{"name": "value", "type": ["null", "int"]}]),
        node("ListE", [{"name": "tag", "type": {"type": "enum", "name": "Tag3", "symbols": ["A", "B", "C"]}}]),
        {"type": "record", "name": "RefFirst", "fields": [{"name": "next", "type": ["RefFirst", "null"]}, {"name": "value", "type": ["null", "int"]}]},
        node("Frame", [{"name": "a", "type": ["null", "string"]}, {"name": "b", "type": ["null", "string"]}], ["null", "string", "Frame"]),
        {"type": "record", "name": "geo.Tree", "fields": [{"name": "l", "type": ["null", "int", "string", "geo.Tree"]}, {"name": "r", "type": ["null", "int", "string", "Tree"]},
                                                        {"name": "k", "type": {"type": "enum", "name": "geo.K", "symbols": ["X", "Y"]}}]},
        {"type": "record", "name": "Dir", "fields": [{"name": "kind", "type": {"type": "enum", "name": "DK", "symbols": ["A", "B"]}},
                                                    {"name": "link", "type": ["null", {"type": "record", "name": "Link", "fields": [
                                                        {"name": "payload", "type": ["null", "bytes"]}, {"name": "target", "type": ["null", "Dir"]}]}]}]},
        node("ns.Fail", [{"name": "detail", "type": ["null", "string"]}], ["null", "ns.Fail"], kind="error"),
        node("ListP4", [{"name": "v1", "type": ["null", "int"]}, {"name": "v2", "type": ["null", "int"]}, {"name": "v3", "type": ["int", "null", "string"]}]),
    ]
    # decimals of every size: precisions beyond the 28 digits of Python's default decimal context, scales 0 / middle / = precision,
    # bytes and fixed, bare / field / union / array
    for prec, sc in ((1, 0), (9, 9), (18, 4), (28, 10), (29, 0), (30, 15), (38, 10), (38, 38), (60, 7)):
        dec_b = {"type": "bytes", "logicalType": "decimal", "precision": prec, "scale": sc}
        size = 1
        while 10 ** prec > 2 ** (8 * size - 1):
            size += 1
        dec_f = {"type": "fixed", "name": "Dec%d_%d" % (prec, sc), "size": size, "logicalType": "decimal", "precision": prec, "scale": sc}
        directed += [dec_b, dec_f, {"type": "record", "name": "HasDec%d_%d" % (prec, sc), "fields": [{"name": "d", "type": dec_b}, {"name": "u", "type": ["null", dec_f]},
                                                                                                  {"name": "xs", "type": {"type": "array", "items": dec_b}}]}]
    for i in range(scale(tier, 500) + len(directed)):
        g = gen.Gen(seed * 20000003 + i, logical=(i % 3 == 0), bytes_defaults=False, max_depth=2 if i % 2 else 3)
        try:
            if i < len(directed):
                s, ctx = copy.deepcopy(directed[i]), gen.Ctx()
            else:
                s, ctx = g.top_schema()
            parse_schema(copy.deepcopy(s))
        except Exception:
            continue
        rk = recursion_kind(s)
        tags = sorted(t for t in schema_tags(s) if t.startswith("logical") or t in ("record", "union", "ref", "array", "map"))
        if rk:
            tags.append("recursive:" + rk)
        case = {"schema": s, "tags": tags}
        run.count(case, depth_of(s) >= 2, tags)
        for n in (0, 1, 3):
            random.seed(seed * 977 + i * 13 + n)
            try:
                vals = with_timeout(lambda: list(generate_many(copy.deepcopy(s), n)))
            except Timeout:
                run.fail(dict(case, n=n), "generate_many does not return", kind="oracle")
                break
            except RecursionError:
                run.fail(dict(case, n=n), "generate_many raises RecursionError on a valid schema", kind="oracle")
                break
            except Exception as e:  # noqa
                run.fail(dict(case, n=n, error=repr(e)[:200]), "generate_many raises %s on a valid schema" % exc_class(e), kind="oracle")
                break
            run.cov["traces_validated_against_impl"] += 1
            if len(vals) != n:
                run.fail(dict(case, n=n, got=len(vals)), "generate_many(schema, n) does not yield exactly n values", kind="oracle")
                break
            bad = False
            for v in vals:
                c2 = dict(case, n=n, value=to_wire(v))
                try:
                    ok = validate(v, copy.deepcopy(s), raise_errors=False)
                except Exception as e:  # noqa
                    ok = "raises " + exc_class(e)
                if ok is not True:
                    run.fail(c2, "a generated value does not validate against the schema (%s)" % ok, kind="oracle")
                    bad = True
                    break
                try:
                    fo = io.BytesIO()
                    schemaless_writer(fo, copy.deepcopy(s), v)
                    back = schemaless_reader(io.BytesIO(fo.getvalue()), copy.deepcopy(s))
                    if isinstance(s, dict) and s.get("type") == "record":
                        co = io.BytesIO()
                        fastavro.writer(co, copy.deepcopy(s), [v])
                        cb = list(fastavro.reader(io.BytesIO(co.getvalue())))
                        if len(cb) != 1 or canon(to_wire(cb[0])) != canon(to_wire(back)):
                            run.fail(c2, "a generated value reads back differently from a container file", kind="oracle")
                            bad = True
                            break
                except Exception as e:  # noqa
                    run.fail(dict(c2, error=repr(e)[:200]), "a generated value is not accepted by the writers / cannot be read back (%s)" % exc_class(e),
                             kind="oracle")
                    bad = True
                    break
                # (values of recursive types can be deeper than the driver's depth bound: not sent to the model)
                # (the model has one record kind; "error" records are checked on the implementation only)
                if not any(t.startswith("logical") for t in tags) and rk is None and len(reqs) < scale(tier, 1500) \
                        and '"type": "error"' not in json.dumps(s):
                    reqs.append({"schema": to_wire(s), "value": to_wire(v)})
                    meta.append(c2)
            if bad:
                break
        # generate_one
        try:
            random.seed(i)
            with_timeout(lambda: generate_one(copy.deepcopy(s)))
            run.cov["evaluations"] += 1
        except Exception:
            pass
        # the schema handed over is the object parse_schema returned; the same object then goes to the container writer
        if isinstance(s, dict) and s.get("type") == "record" and rk in (None, "subcritical") and (i < len(directed) or i % 3 == 0):
            try:
                ps = parse_schema(copy.deepcopy(s))
                random.seed(seed * 31 + i)
                vals = with_timeout(lambda: list(generate_many(ps, 2)) + [generate_one(ps)])
                if len(repr(vals)) < 200000:
                    co = io.BytesIO()
                    fastavro.writer(co, ps, vals)
                    cb = list(fastavro.reader(io.BytesIO(co.getvalue())))
                    run.cov["evaluations"] += 1
                    run.tag("parsed-schema-object-reused")
                    if len(cb) != 3:
                        run.fail(dict(case, tags=tags + ["parsed-schema-object-reused"]), "values generated for a parsed schema object: the container file "
                                 "written with that object holds another number of records", kind="oracle")
            except Timeout:
                pass
            except Exception as e:  # noqa
                run.fail(dict(case, error=repr(e)[:200], tags=tags + ["parsed-schema-object-reused"]),
                         "values generated for a parsed schema object are not accepted by the container writer given the same object, or "
                         "the file cannot be read back (%s)" % exc_class(e), kind="oracle")
    # ---- several generators alive at once (generate_many is lazy): schemas that define a type of the same name differently;
    # consumed alternately, each generator's values conform to ITS schema
    v1 = {"type": "record", "name": "app.Msg", "fields": [
        {"name": "level", "type": {"type": "enum", "name": "app.Level", "symbols": ["LOW", "HIGH"]}},
        {"name": "key", "type": {"type": "fixed", "name": "app.Key", "size": 2}},
        {"name": "again", "type": "app.Level"}, {"name": "keys", "type": {"type": "array", "items": "app.Key"}},
        {"name": "body", "type": {"type": "record", "name": "app.Body", "fields": [{"name": "x", "type": "int"}]}}, {"name": "body2", "type": "app.Body"}]}
    v2 = {"type": "record", "name": "app.Msg", "fields": [
        {"name": "level", "type": {"type": "enum", "name": "app.Level", "symbols": ["DEBUG", "INFO", "WARN"]}},
        {"name": "key", "type": {"type": "fixed", "name": "app.Key", "size": 5}},
        {"name": "again", "type": "app.Level"}, {"name": "keys", "type": {"type": "array", "items": "app.Key"}},
        {"name": "body", "type": {"type": "record", "name": "app.Body", "fields": [{"name": "y", "type": "string"}, {"name": "z", "type": "long"}]}},
        {"name": "body2", "type": "app.Body"}]}
    for pattern in ("zip", "round-robin", "second-started-late", "sequential"):
        random.seed(seed * 7 + len(pattern))
        try:
            if pattern == "zip":
                pairs = list(zip(generate_many(copy.deepcopy(v1), 4), generate_many(copy.deepcopy(v2), 4)))
                got = [[a for a, _ in pairs], [b for _, b in pairs]]
            elif pattern == "round-robin":
                g1, g2 = generate_many(copy.deepcopy(v1), 4), generate_many(copy.deepcopy(v2), 4)
                got = [[], []]
                for _ in range(4):
                    got[1].append(next(g2))
                    got[0].append(next(g1))
            elif pattern == "second-started-late":
                g1 = generate_many(copy.deepcopy(v1), 4)
                got = [[next(g1)], []]
                g2 = generate_many(copy.deepcopy(v2), 4)
                got[1].append(next(g2))
                got[0] += list(g1)
                got[1] += list(g2)
            else:
                got = [list(generate_many(copy.deepcopy(v1), 4)), list(generate_many(copy.deepcopy(v2), 4))]
        except Exception as e:  # noqa
            run.fail({"schemas": [v1, v2], "pattern": pattern, "error": repr(e)[:200], "tags": ["generators-alive-together"]},
                     "generate_many raises %s when two generators are consumed alternately" % exc_class(e), kind="oracle")
            continue
        for which, (sch, vals) in enumerate(zip((v1, v2), got)):
            run.cov["evaluations"] += 1
            run.tag("generators-alive-together:" + pattern)
            bad = [v for v in vals if validate(v, copy.deepcopy(sch), raise_errors=False) is not True]
            if len(vals) != 4 or bad:
                run.fail({"schemas": [v1, v2], "pattern": pattern, "generator": which, "n_values": len(vals), "value": to_wire(bad[0]) if bad else None,
                          "tags": ["generators-alive-together"]},
                         "a value of one generate_many generator does not validate against its schema when another generator (same type "
                         "names, other definitions) is alive", kind="oracle")
                break
    # ---- extreme states of the random source: randint returns the lowest / the highest value of its range
    import fastavro.utils as _fu

    class _Extreme:
        def __init__(self, high):
            self.high = high

        def randint(self, a, b):
            return b if self.high else a

        def __getattr__(self, name):
            return getattr(random, name)
    LOGICALS = [{"type": "int", "logicalType": "date"}, {"type": "int", "logicalType": "time-millis"},
                {"type": "long", "logicalType": "time-micros"}, {"type": "long", "logicalType": "timestamp-millis"},
                {"type": "long", "logicalType": "timestamp-micros"}, {"type": "long", "logicalType": "local-timestamp-millis"},
                {"type": "long", "logicalType": "local-timestamp-micros"}, "int", "long",
                {"type": "enum", "name": "E", "symbols": ["A", "B", "C"]}, ["null", "int", "string"]]
    for sch in LOGICALS:
        for high in (False, True):
            saved = _fu.random
            _fu.random = _Extreme(high)
            try:
                v = generate_one(copy.deepcopy(sch))
            except Exception as e:  # noqa
                v = e
            finally:
                _fu.random = saved
            run.cov["evaluations"] += 1
            run.tag("extreme-random-state")
            c2 = {"schema": sch, "random_source": "randint returns the %s end of its range" % ("high" if high else "low"), "tags": ["extreme"]}
            if isinstance(v, Exception):
                run.fail(dict(c2, error=repr(v)[:200]), "generate_one raises %s in an extreme state of the random source" % exc_class(v), kind="oracle")
                continue
            try:
                ok = validate(v, copy.deepcopy(sch), raise_errors=False)
                fo = io.BytesIO()
                schemaless_writer(fo, copy.deepcopy(sch), v)
                schemaless_reader(io.BytesIO(fo.getvalue()), copy.deepcopy(sch))
            except Exception as e:  # noqa
                ok = "raises " + exc_class(e) + ": " + repr(e)[:80]
            if ok is not True:
                run.fail(dict(c2, value=repr(v)), "a value generated in an extreme state of the random source does not validate / "
                         "cannot be written and read back (%s)" % ok, kind="oracle")
    # ---- the same schema object, modified in place between calls: every value must conform to the schema
    # as it is at the time of the call
    for h in range(scale(tier, 60)):
        rr = random.Random(seed * 424243 + h)
        obj = {"type": "record", "name": "Same", "fields": [{"name": "a", "type": rr.choice(["int", "string", "boolean"])}]}
        for step in range(3):
            try:
                v = generate_one(obj)
                ok = validate(v, copy.deepcopy(obj), raise_errors=False)
            except Exception as e:  # noqa
                ok = "raises " + exc_class(e)
            run.cov["evaluations"] += 1
            run.tag("same-object")
            if ok is not True:
                run.fail({"schema": copy.deepcopy(obj), "step": step, "tags": ["same-object"]},
                         "a value generated for a schema object modified in place does not conform to its current content (%s)" % ok,
                         kind="oracle")
                break
            f = rr.choice(obj["fields"])
            f["type"] = rr.choice([t for t in ("int", "string", "boolean", "long", "double", "bytes") if t != f["type"]])
            obj["fields"].append({"name": "n%d" % step, "type": rr.choice(["int", "string"])})
    img = run_batch([dict(q, op="gen.image") for q in reqs]) if reqs else []
    cf = run_batch([dict(q, op="spec.conforms") for q in reqs]) if reqs else []
    for c2, a, b in zip(meta, img, cf):
        if a.get("ok") is not True:
            run.fail(dict(c2, model=a), "correspondence: a generated value is outside the image of the model generator", kind="correspondence")
        elif b.get("ok") is not True:
            run.fail(dict(c2, spec=b), "a generated value does not conform to the schema (Spec.conforms)", kind="oracle")
    return run.finish()
