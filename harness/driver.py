"""Batch access to the Lean driver: all requests of a run are written to its stdin, one JSON
object per line, and the responses are read back in order."""
import json
import os
import subprocess
import sys

HERE = os.path.dirname(os.path.abspath(__file__))
LEAN_DIR = os.path.join(os.path.dirname(HERE), "lean")
DRIVER_BIN = os.path.join(LEAN_DIR, ".lake", "build", "bin", "driver")


class DriverError(Exception):
    pass


def driver_cmd():
    if os.path.exists(DRIVER_BIN):
        return [DRIVER_BIN]
    return ["lake", "env", "lean", "--run", "Driver/Main.lean"]


def run_batch(requests, chunk=20000):
    """requests: list of dicts -> list of dicts (same length)."""
    out = []
    for i in range(0, len(requests), chunk):
        part = requests[i:i + chunk]
        data = "".join(json.dumps(r, separators=(",", ":")) + "\n" for r in part)
        p = subprocess.run(driver_cmd(), input=data.encode(), cwd=LEAN_DIR,
                           stdout=subprocess.PIPE, stderr=subprocess.PIPE)
        if p.returncode != 0:
            raise DriverError("driver exited %d: %s" % (p.returncode, p.stderr.decode()[-2000:]))
        # one answer per line: split on LF only (str.splitlines also splits on U+2028, CR, FF … inside JSON strings)
        lines = p.stdout.decode().split("\n")
        if lines and lines[-1] == "":
            lines.pop()
        if len(lines) != len(part):
            raise DriverError("driver answered %d lines for %d requests; stderr: %s"
                              % (len(lines), len(part), p.stderr.decode()[-2000:]))
        out.extend(json.loads(l) for l in lines)
    return out


_PROC = None


def run_one(request):
    """one request through a driver process kept open for the whole run (for the occasional single question;
    batches go through run_batch)"""
    global _PROC
    if _PROC is None or _PROC.poll() is not None:
        _PROC = subprocess.Popen(driver_cmd(), cwd=LEAN_DIR, stdin=subprocess.PIPE, stdout=subprocess.PIPE,
                                 stderr=subprocess.DEVNULL, bufsize=0)
    _PROC.stdin.write((json.dumps(request, separators=(",", ":")) + "\n").encode())
    _PROC.stdin.flush()
    line = _PROC.stdout.readline()
    if not line:
        raise DriverError("driver closed its output")
    return json.loads(line)
