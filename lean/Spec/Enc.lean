/-
  Spec/Enc.lean — the relation "`bs` is a specification-valid binary encoding of value `v` under
  schema `s`" (property C03).  Unlike `Spec.encode`, which produces the one layout fastavro's writer
  emits, the relation admits **every** partition of an array or map into blocks, each block in the
  positive-count form or in the negative-count-plus-byte-size form, nested to any depth.
  Values are decoded values (what any decoder returns): lists, dicts, floats widened to double.
-/
import Spec.Varint
import Spec.Encode
import Model.Binary

namespace Spec

def I64 (n : Int) : Prop := -(2:Int)^63 ≤ n ∧ n < 2^63

/-- Python dict built by successive assignment (a repeated key keeps its first position and takes the
    last value) — what a decoder returns for a map or record -/
def assignAll (acc : List (Val × Val)) (es : List (String × Val)) : List (Val × Val) :=
  es.foldl (fun a e => Binary.valDictSet a e.1 e.2) acc

inductive EncPrim : Prim → Val → Bytes → Prop
  | null : EncPrim .null .none []
  | boolean (b : Bool) : EncPrim .boolean (.bool b) [if b then 1 else 0]
  | int (n : Int) (h : -(2:Int)^31 ≤ n ∧ n < 2^31) : EncPrim .int (.int n) (encodeLong n)
  | long (n : Int) (h : I64 n) : EncPrim .long (.int n) (encodeLong n)
  | float (f : UInt32) : EncPrim .float (.float (Fl.f32ToF64 f)) (leBytes 4 f.toNat)
  | double (d : UInt64) : EncPrim .double (.float d) (leBytes 8 d.toNat)
  | bytes (b : Bytes) (h : b.length < LIM) : EncPrim .bytes (.bytes b) (encodeLong b.length ++ b)
  | string (s : String) (h : (utf8Enc s).length < LIM) :
      EncPrim .string (.str s) (encodeLong (utf8Enc s).length ++ utf8Enc s)

mutual
inductive Enc (env : Env) : Schema → Val → Bytes → Prop
  | prim {p df v bs} : EncPrim p v bs → Enc env (.prim p df none) v bs
  | fixed {name size al} (b : Bytes) : b.length = size → Enc env (.fixed name size none al) (.bytes b) b
  | enum {name syms d al} (i : Nat) (h : i < syms.length) (hl : i < LIM) :
      Enc env (.enum name syms d al) (.str syms[i]) (encodeLong i)
  | array {items c xs bs} : I64 c → Blocks env items c xs bs →
      Enc env (.array items) (.list xs) (encodeLong c ++ bs)
  | map {values c es bs} : I64 c → MapBlocks env values c es bs →
      Enc env (.map values) (.dict (assignAll [] es)) (encodeLong c ++ bs)
  | union {branches b v bs} (i : Nat) : branches[i]? = some b → i < LIM → Enc env b v bs →
      Enc env (.union branches) v (encodeLong i ++ bs)
  | record {name fields al es bs} : Fields env fields es bs →
      Enc env (.record name fields al) (.dict (assignAll [] es)) bs
  | ref {n s v bs} : env.get? n = some s → Enc env s v bs → Enc env (.ref n) v bs
/-- the blocks that follow a count `c` that has just been read -/
inductive Blocks (env : Env) : Schema → Int → List Val → Bytes → Prop
  | done {s} : Blocks env s 0 [] []
  | pos {s xs ys b1 c' b2} : xs ≠ [] → xs.length < LIM → Items env s xs b1 → I64 c' → Blocks env s c' ys b2 →
      Blocks env s (xs.length : Int) (xs ++ ys) (b1 ++ (encodeLong c' ++ b2))
  | neg {s xs ys b1 c' b2} (sz : Int) : I64 sz → xs ≠ [] → xs.length < LIM → Items env s xs b1 → I64 c' →
      Blocks env s c' ys b2 →
      Blocks env s (-(xs.length : Int)) (xs ++ ys) (encodeLong sz ++ (b1 ++ (encodeLong c' ++ b2)))
inductive Items (env : Env) : Schema → List Val → Bytes → Prop
  | nil {s} : Items env s [] []
  | cons {s x xs b1 b2} : Enc env s x b1 → Items env s xs b2 → Items env s (x :: xs) (b1 ++ b2)
inductive MapBlocks (env : Env) : Schema → Int → List (String × Val) → Bytes → Prop
  | done {s} : MapBlocks env s 0 [] []
  | pos {s es fs b1 c' b2} : es ≠ [] → es.length < LIM → Entries env s es b1 → I64 c' → MapBlocks env s c' fs b2 →
      MapBlocks env s (es.length : Int) (es ++ fs) (b1 ++ (encodeLong c' ++ b2))
  | neg {s es fs b1 c' b2} (sz : Int) : I64 sz → es ≠ [] → es.length < LIM → Entries env s es b1 → I64 c' →
      MapBlocks env s c' fs b2 →
      MapBlocks env s (-(es.length : Int)) (es ++ fs) (encodeLong sz ++ (b1 ++ (encodeLong c' ++ b2)))
inductive Entries (env : Env) : Schema → List (String × Val) → Bytes → Prop
  | nil {s} : Entries env s [] []
  | cons {s k v es b1 b2} : (utf8Enc k).length < LIM → Enc env s v b1 → Entries env s es b2 →
      Entries env s ((k, v) :: es) ((encodeLong (utf8Enc k).length ++ utf8Enc k) ++ (b1 ++ b2))
inductive Fields (env : Env) : List Field → List (String × Val) → Bytes → Prop
  | nil : Fields env [] [] []
  | cons {f fs v es b1 b2} : Enc env f.type v b1 → Fields env fs es b2 →
      Fields env (f :: fs) ((f.name, v) :: es) (b1 ++ b2)
end

end Spec
