/-
  Spec/Encode.lean — the Avro specification's binary encoding, written from the specification text
  (and the clause list of property C02), not from `_write_py.py` / `binary_encoder.py`:

    * int / long / enum index / union index / counts / lengths : zig-zag, base-128 varint (Spec/Varint)
    * float / double : 4 / 8 bytes, little-endian IEEE-754
    * bytes / string : length prefix, then the bytes / the UTF-8 bytes;   fixed : the raw bytes
    * array / map : one counted block followed by the terminator `0`; the terminator alone when empty
    * record : concatenation of the fields in schema order (an absent field takes its default)
    * union : branch index, then the value under that branch.  Which branch is *selected* is a
      parameter (`pick`): C02 speaks about "the branches the writer selected"; C09 is the property
      about the selection itself.
  `none` = the datum does not conform.
-/
import Spec.Varint
import Model.Schema
import Model.Py

namespace Spec

/-- `n` bytes of `x`, least significant first -/
def leBytes (n x : Nat) : Bytes := (List.range n).map fun i => UInt8.ofNat (x / 256 ^ i % 256)

def LIM : Nat := 2 ^ 63

def encLen (n : Nat) : Option Bytes := if n < LIM then some (encodeLong (n : Int)) else none

def encPrim (p : Prim) (v : Val) : Option Bytes :=
  match p, v with
  | .null, .none => some []
  | .boolean, .bool b => some [if b then 1 else 0]
  | .int, .int n => if -(2:Int)^31 ≤ n ∧ n < 2^31 then some (encodeLong n) else none
  | .long, .int n => if -(2:Int)^63 ≤ n ∧ n < 2^63 then some (encodeLong n) else none
  | .float, .float b => (Fl.f64ToF32 b).map fun f => leBytes 4 f.toNat
  | .float, .int n => (Fl.ofInt n).bind fun d => (Fl.f64ToF32 d).map fun f => leBytes 4 f.toNat
  | .double, .float b => some (leBytes 8 b.toNat)
  | .double, .int n => (Fl.ofInt n).map fun d => leBytes 8 d.toNat
  | .bytes, .bytes b => (encLen b.length).map (· ++ b)
  | .bytes, .bytearray b => (encLen b.length).map (· ++ b)
  | .string, .str s => (encLen (utf8Enc s).length).map (· ++ utf8Enc s)
  | _, _ => none

def concatM (f : Val → Option Bytes) : List Val → Option Bytes
  | [] => some []
  | x :: xs => do let a ← f x; let b ← concatM f xs; some (a ++ b)

def entriesM (f : Val → Option Bytes) : List (Val × Val) → Option Bytes
  | [] => some []
  | (k, x) :: rest => do
    let kb ← (match k with | .str s => encPrim .string (.str s) | _ => none)
    let a ← f x
    let b ← entriesM f rest
    some (kb ++ a ++ b)

def dictGet (kv : List (Val × Val)) (key : String) : Option Val :=
  (kv.find? fun (k, _) => match k with | .str s => s == key | _ => false).map (·.2)

def fieldsM (f : Schema → Val → Option Bytes) : List Field → List (Val × Val) → Option Bytes
  | [], _ => some []
  | fld :: rest, kv => do
    let dv := (dictGet kv fld.name).getD (fld.default.getD .none)
    let a ← f fld.type dv
    let b ← fieldsM f rest kv
    some (a ++ b)

/-- one counted block + terminator; the terminator alone for an empty collection -/
def block (count : Nat) (body : Bytes) : Option Bytes :=
  if count = 0 then some [0] else (encLen count).map fun c => c ++ body ++ [0]

def encode (pick : Nat → List Schema → Val → Option (Nat × Val)) (fuel : Nat) (env : Env) (s : Schema) (v : Val) :
    Option Bytes :=
  match fuel with
  | 0 => none
  | fuel+1 =>
  match s with
  | .prim p _ none => encPrim p v
  | .prim _ _ (some _) => none
  | .fixed _ size none _ =>
    match v with
    | .bytes b => if b.length = size then some b else none
    | _ => none
  | .fixed _ _ (some _) _ => none
  | .enum _ syms _ _ =>
    match v with
    | .str x =>
      let i := syms.findIdx (· == x)
      if i < syms.length then encLen i else none
    | _ => none
  | .array items =>
    match v with
    | .list xs => (concatM (encode pick fuel env items) xs).bind (block xs.length)
    | .tuple xs => (concatM (encode pick fuel env items) xs).bind (block xs.length)
    | _ => none
  | .map values =>
    match v with
    | .dict kv => (entriesM (encode pick fuel env values) kv).bind (block kv.length)
    | _ => none
  | .union bs =>
    match pick fuel bs v with
    | some (i, v') =>
      match bs[i]? with
      | some b => do
        let ib ← encLen i
        let body ← encode pick fuel env b v'
        some (ib ++ body)
      | none => none
    | none => none
  | .record _ fields _ =>
    match v with
    | .dict kv => fieldsM (encode pick fuel env) fields kv
    | _ => none
  | .ref n =>
    match env.get? n with
    | some s' => encode pick fuel env s' v
    | none => none

end Spec
