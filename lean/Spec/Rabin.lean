/-
  Spec/Rabin.lean — the specification's 64-bit Rabin fingerprint (CRC-64-AVRO) in Java semantics
  (64-bit words, logical shift), table-driven as the specification prints it, and the bit-serial
  definition (one shift-and-conditional-xor per bit with the polynomial 0xC15D213AA4D7A795).
-/
import Model.Basic

namespace Spec

def P64 : BitVec 64 := 0xC15D213AA4D7A795#64

/-- `fp = (fp >>> 1) ^ (EMPTY & -(fp & 1L))` -/
def bitStep (x : BitVec 64) : BitVec 64 := (x >>> 1) ^^^ (if x.getLsbD 0 then P64 else 0#64)

def bitStepN : Nat → BitVec 64 → BitVec 64
  | 0, x => x
  | n+1, x => bitStepN n (bitStep x)

/-- `FP_TABLE[i]` -/
def tableEntry (i : Nat) : BitVec 64 := bitStepN 8 (BitVec.ofNat 64 i)

def byteBV (b : UInt8) : BitVec 64 := BitVec.ofNat 64 b.toNat

/-- `fingerprint64`: `fp = (fp >>> 8) ^ FP_TABLE[(int)(fp ^ buf[i]) & 0xff]`, starting from EMPTY -/
def fingerprint64 (bs : Bytes) : BitVec 64 :=
  bs.foldl (fun fp b => (fp >>> 8) ^^^ tableEntry (((fp ^^^ byteBV b) &&& 0xFF#64).toNat)) P64

/-- bit-serial: xor the byte in, then eight single-bit steps -/
def bitSerial (bs : Bytes) : BitVec 64 :=
  bs.foldl (fun fp b => bitStepN 8 (fp ^^^ byteBV b)) P64

end Spec
