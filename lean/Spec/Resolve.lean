/-
  Spec/Resolve.lean — schema resolution as the specification states it (property C08), written
  from the rule list and independently of `match_types` / `match_schemas` / `read_record`:

    * two schemas *match* when: both are arrays whose item types match; both are maps whose value
      types match; both are enums / fixed (same size) / records whose unqualified names agree or
      whose writer name is an alias of the reader's; either is a union; both are the same primitive;
      or the writer's primitive promotes to the reader's (int → long, float, double; long → float,
      double; float → double; string ↔ bytes).  A name stands for its definition, whether the type
      appears inline or by reference.  It is an error if the schemas do not match.
    * writer union: the branch that was written is resolved against the reader schema;
      reader union: the first branch of the writer's own type (the one carrying the writer's full
      name first, so that a schema resolves against itself), otherwise the first the writer's
      type promotes to; no such branch: error.
    * records: writer fields in order; a field is matched with the reader field of the same name,
      else with the reader field that lists the name as an alias; unmatched writer fields are
      skipped; reader fields nothing was matched with take their default, and it is an error if
      there is none.
    * enums: a symbol the reader does not have is replaced by the reader's default symbol; error
      if there is none.

  The function decodes the writer's bytes (any block partition) and returns the reader's view.
  Byte-level primitives are those of Model/Binary.lean (their correctness is C01–C03).
-/
import Model.Binary

namespace Spec
open Binary

def promotable : Prim → Prim → Bool
  | .int, .long | .int, .float | .int, .double => true
  | .long, .float | .long, .double => true
  | .float, .double => true
  | .string, .bytes | .bytes, .string => true
  | _, _ => false

/-- a name stands for its definition -/
def deref (env : Env) (s : Schema) : Option Schema :=
  match s with
  | .ref n => env.get? n
  | s => some s

def unqualified (n : String) : String := (n.splitOn ".").getLast?.getD n

/-- writer name `wn` agrees with reader name `rn` (aliases `ral`) -/
def sameName (wn rn : String) (ral : List String) : Bool :=
  unqualified wn == unqualified rn || ral.contains wn || ral.contains (unqualified wn)

/-- two dereferenced schemas that are not both arrays / both maps -/
def matchFlat (exact : Bool) (w r : Schema) : Bool :=
  match w, r with
  | .union _, _ => true
  | _, .union _ => true
  | .record wn _ _, .record rn _ ral => sameName wn rn ral
  | .enum wn _ _ _, .enum rn _ _ ral => sameName wn rn ral
  | .fixed wn ws _ _, .fixed rn rs _ ral => ws == rs && sameName wn rn ral
  | .prim wp _ _, .prim rp _ _ => wp == rp || (!exact && promotable wp rp)
  | _, _ => false

/-- the specification's "schemas match" (structural in the writer schema: arrays and maps descend into
    their item / value types, everything else is decided on the two definitions); `exact` forbids a
    promotion at the top level -/
def matchesX (exact : Bool) (wenv renv : Env) : Schema → Schema → Bool
  | .array wi, r =>
    (match deref renv r with
     | some (.array ri) => matchesX false wenv renv wi ri
     | some (.union _) => true
     | _ => false)
  | .map wv, r =>
    (match deref renv r with
     | some (.map rv) => matchesX false wenv renv wv rv
     | some (.union _) => true
     | _ => false)
  | w, r =>
    (match deref wenv w, deref renv r with
     | some wd, some rd => matchFlat exact wd rd
     | _, _ => false)

def matchesS := matchesX false
def sameType := matchesX true

/-- both denote a named type with the same full name -/
def fullNameEq (wenv renv : Env) (w r : Schema) : Bool :=
  match deref wenv w, deref renv r with
  | some wd, some rd => wd.defName?.isSome && rd.defName? == wd.defName?
  | _, _ => false

/-- reader union: the first branch of the writer's own type — a named type with the writer's full
    name before one that only agrees on the unqualified name or an alias —, else the first the
    writer's type promotes to -/
def pickBranch (wenv renv : Env) (w : Schema) (rs : List Schema) : Option Schema :=
  match rs.find? (fun b => fullNameEq wenv renv w b && sameType wenv renv w b) with
  | some b => some b
  | none =>
    match rs.find? (sameType wenv renv w) with
    | some b => some b
    | none => rs.find? (matchesS wenv renv w)

/-- the promoted value -/
def promote (wp rp : Prim) (v : Val) : R Val :=
  match wp, rp with
  | .int, .float | .int, .double | .long, .float | .long, .double => pyFloat v
  | .string, .bytes => (match v with | .str s => pure (.bytes (utf8Enc s)) | _ => throw .type)
  | .bytes, .string =>
    (match v with
     | .bytes b => (match utf8Dec b with | some s => pure (.str s) | none => throw .value)
     | _ => throw .type)
  | _, _ => pure v

/-- the reader field a writer field of name `wname` is matched with -/
def readerFieldFor (rfs : List Field) (wname : String) : Option Field :=
  match rfs.find? (fun f => f.name == wname) with
  | some f => some f
  | none => rfs.find? (fun f => f.aliases.contains wname)

/-- writer fields in order: matched ones resolved and stored under the reader's name, the others skipped -/
def fieldsWith (rd : Schema → Schema → Bytes → R (Val × Bytes)) (sk : Schema → Bytes → R Bytes)
    (rfs : List Field) : List Field → Bytes → List (Val × Val) → R (List (Val × Val) × Bytes)
  | [], bs, acc => pure (acc, bs)
  | f :: rest, bs, acc =>
    match readerFieldFor rfs f.name with
    | some rf => do
      let (x, bs) ← rd f.type rf.type bs
      fieldsWith rd sk rfs rest bs (valDictSet acc rf.name x)
    | none => do
      let bs ← sk f.type bs
      fieldsWith rd sk rfs rest bs acc

/-- reader fields nothing was matched with take their default -/
def defaultsFor (wfs : List Field) (rfs : List Field) : List Field → List (Val × Val) → R (List (Val × Val))
  | [], acc => pure acc
  | rf :: rest, acc =>
    if wfs.any (fun wf => (readerFieldFor rfs wf.name).map Field.name == some rf.name) then defaultsFor wfs rfs rest acc
    else match rf.default with
      | some d => defaultsFor wfs rfs rest (valDictSet acc rf.name d)
      | none => throw .resolution

/-- decode data written under `w` into the view of reader schema `r` -/
def resolveRead (fuel : Nat) (wenv renv : Env) (w r : Schema) (bs : Bytes) : R (Val × Bytes) :=
  match fuel with
  | 0 => .error .fuel
  | fuel+1 =>
  if !matchesS wenv renv w r then .error .resolution else
  match deref wenv w, deref renv r with
  | some w, some r =>
    match w, r with
    | .union wbs, _ => do
      let (i, rest) ← decodeLong bs
      match indexChecked wbs i with
      | none => throw .index
      | some b => resolveRead fuel wenv renv b r rest
    | _, .union rbs =>
      match pickBranch wenv renv w rbs with
      | some b => resolveRead fuel wenv renv w b bs
      | none => throw .resolution
    | .prim wp _ _, .prim rp _ _ => do
      let (v, rest) ← readPrim wp bs
      let v ← promote wp rp v
      pure (v, rest)
    | .fixed _ size _ _, .fixed .. => decFixed size bs
    | .enum _ wsyms _ _, .enum _ rsyms rdef _ => do
      let (i, rest) ← decodeLong bs
      match indexChecked wsyms i with
      | none => throw .index
      | some sym =>
        if rsyms.contains sym then pure (.str sym, rest)
        else match rdef with
          | some d => if d.truthy then pure (d, rest) else throw .resolution   -- a default symbol is a non-empty name
          | none => throw .resolution
    | .array wi, .array ri => do
      let (c, rest) ← decodeLong bs
      let (xs, rest) ← readBlocksWith (resolveRead fuel wenv renv wi ri) (rest.length + 1) c rest
      pure (.list xs, rest)
    | .map wv, .map rv => do
      let (c, rest) ← decodeLong bs
      let (kv, rest) ← readMapBlocksWith (resolveRead fuel wenv renv wv rv) (rest.length + 1) c rest []
      pure (.dict kv, rest)
    | .record _ wfs _, .record _ rfs _ => do
      let (acc, rest) ← fieldsWith (resolveRead fuel wenv renv) (skipData fuel wenv) rfs wfs bs []
      let acc ← defaultsFor wfs rfs rfs acc
      pure (.dict acc, rest)
    | _, _ => throw .resolution
  | _, _ => throw .index

end Spec
