/-
  Spec/Conforms.lean — "datum conforms to schema" under the documented Python mapping (property C10),
  written from the documentation, not from `_validation_py.py`:

    null: None · boolean: bool · int/long: non-bool int in the 32/64-bit range · float/double: non-bool
    int or float · bytes: bytes or bytearray · string: str · fixed: bytes of the declared size ·
    enum: a declared symbol · array: a non-string sequence of conforming items · map: a mapping with
    str keys and conforming values · record: a mapping whose present fields conform and whose absent
    fields have a (conforming) default or accept None — in strict mode an absent field must have a
    default —, with an optional `-type` key naming the record · union: a `(name, value)` tuple selects
    the branch of that name and `value` must conform to it; otherwise some branch conforms.
  Logical-type annotations are outside this definition (C16).
-/
import Model.Schema
import Model.Binary

namespace Spec

def conformsPrim (p : Prim) (v : Val) : Bool :=
  match p, v with
  | .null, .none => true
  | .boolean, .bool _ => true
  | .int, .int n => decide (-(2:Int)^31 ≤ n ∧ n < 2^31)
  | .long, .int n => decide (-(2:Int)^63 ≤ n ∧ n < 2^63)
  | .float, .int _ => true
  | .float, .float _ => true
  | .double, .int _ => true
  | .double, .float _ => true
  | .bytes, .bytes _ => true
  | .bytes, .bytearray _ => true
  | .string, .str _ => true
  | _, _ => false

/-- the name by which a `(name, value)` tuple designates a union branch: the full name of a named
    type, else the type name -/
def branchName (b : Schema) : String := b.hintName

/-- the items of a non-string sequence (`bytes` / `bytearray` are sequences of ints in Python) -/
def seqItems? : Val → Option (List Val)
  | .list xs => some xs
  | .tuple xs => some xs
  | .bytes b => some (b.map fun x => .int x.toNat)
  | .bytearray b => some (b.map fun x => .int x.toNat)
  | _ => none

/-- one level of the conformance relation; `cf` is conformance of the parts -/
def conformsNode (cf : Schema → Val → Bool) (env : Env) (strict dtn : Bool) (s : Schema) (v : Val) : Bool :=
  match s with
  | .prim p _ none => conformsPrim p v
  | .prim _ _ (some _) => false
  | .fixed _ size none _ => (match v with | .bytes b => b.length == size | _ => false)
  | .fixed _ _ (some _) _ => false
  | .enum _ syms _ _ => (match v with | .str x => syms.contains x | _ => false)
  | .array items =>
    (match seqItems? v with
     | some xs => xs.all fun x => cf items x
     | none => false)
  | .map values =>
    (match v with
     | .dict kv => (kv.all fun e => e.1.isStr) && (kv.all fun e => cf values e.2)
     | _ => false)
  | .record name fields _ =>
    (match v with
     | .dict kv =>
       typeHintOk kv name &&
       fields.all fun f =>
         (match dictGetV kv f.name with
          | some x => cf f.type x
          | none =>
            -- an absent field takes its default; without one it reads as None unless strict
            match f.default with
            | some dv => cf f.type dv
            | none => !strict && cf f.type .none)
     | _ => false)
  | .union bs =>
    (match v, dtn with
     | .tuple [nameV, inner], false =>
       (match bs.find? fun b => nameV.strEq (branchName b) with
        | some b => cf b inner
        | none => false)
     | .tuple _, false => false
     | _, _ => bs.any fun b => cf b v)
  | .ref n =>
    (match env.get? n with
     | some s' => cf s' v
     | none => false)

/-- the conformance relation (the fuel bounds the nesting depth) -/
def conforms (fuel : Nat) (env : Env) (strict dtn : Bool) (s : Schema) (v : Val) : Bool :=
  match fuel with
  | 0 => false
  | fuel+1 => conformsNode (conforms fuel env strict dtn) env strict dtn s v

end Spec
