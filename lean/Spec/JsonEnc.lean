/-
  Spec/JsonEnc.lean — the specification's JSON encoding of a datum (section "JSON Encoding"), written
  from the specification text and the clause list of property C15:
    null → null; boolean → true/false; int, long → integer; float, double → number;
    bytes, fixed → string whose characters are the code points 0–255 of the bytes; string → string;
    enum → the symbol as a string; array → array; map → object; record → object with the fields in
    schema order (an absent field takes its default);
    union → null for the null branch, otherwise the one-member object {branch name: value}, the
    branch name being the type name, and the *full name* for named types.
  Which union branch a datum is written under is a parameter (`pick`), as in Spec/Encode.lean.
  `none` = the datum does not conform.  JSON values are `Val`s (none/bool/int/float/str/list/dict).
-/
import Model.Schema
import Model.Py

namespace Spec

/-- the characters with the code points of the bytes -/
def codePoints (b : Bytes) : String := String.ofList (b.map fun x => Char.ofNat x.toNat)

def jsonPrim (p : Prim) (v : Val) : Option Val :=
  match p, v with
  | .null, .none => some .none
  | .boolean, .bool b => some (.bool b)
  | .int, .int n => some (.int n)
  | .long, .int n => some (.int n)
  | .float, .float b => some (.float b)
  | .float, .int n => (Fl.ofInt n).map .float        -- the number, as a floating-point value
  | .double, .float b => some (.float b)
  | .double, .int n => (Fl.ofInt n).map .float
  | .bytes, .bytes b => some (.str (codePoints b))
  | .bytes, .bytearray b => some (.str (codePoints b))
  | .string, .str s => some (.str s)
  | _, _ => none

/-- the name a union branch is written under: the type name; the full name of a named type
    (a reference is spelled with the full name already) -/
def jsonBranchName : Schema → String
  | .record n _ _ => n
  | .enum n _ _ _ => n
  | .fixed n _ _ _ => n
  | .prim p _ _ => p.name
  | .array _ => "array"
  | .map _ => "map"
  | .union _ => "union"
  | .ref n => n

def isNull (env : Env) (b : Schema) : Bool :=
  match unwrapRef env b with
  | .prim .null _ _ => true
  | _ => false

def jItemsM (f : Val → Option Val) : List Val → Option (List Val)
  | [] => some []
  | x :: xs => do let a ← f x; let b ← jItemsM f xs; some (a :: b)

def jEntriesM (kok : String → Bool) (f : Val → Option Val) : List (Val × Val) → Option (List (Val × Val))
  | [] => some []
  | (k, x) :: rest => do
    match k with
    | .str s =>
      if !kok s then none
      let a ← f x
      let b ← jEntriesM kok f rest
      some ((.str s, a) :: b)
    | _ => none

def jFieldsM (f : Schema → Val → Option Val) : List Field → List (Val × Val) → Option (List (Val × Val))
  | [], _ => some []
  | fld :: rest, kv => do
    let dv := presentOrDefault kv fld
    let a ← f fld.type dv
    let b ← jFieldsM f rest kv
    some ((.str fld.name, a) :: b)

/-- the same, for data whose floating-point fields hold floating-point values (no integers there) -/
def jsonPrimFloats (p : Prim) (v : Val) : Option Val :=
  match p, v with
  | .float, .int _ => none
  | .double, .int _ => none
  | p, v => jsonPrim p v

def jsonEncodeWith (jp : Prim → Val → Option Val) (kok : String → Bool) (pick : Nat → List Schema → Val → Option (Nat × Val)) (fuel : Nat)
    (env : Env) (s : Schema) (v : Val) : Option Val :=
  match fuel with
  | 0 => none
  | fuel+1 =>
  match s with
  | .prim p _ none => jp p v
  | .prim _ _ (some _) => none
  | .fixed _ size none _ =>
    match v with
    | .bytes b => if b.length = size then some (.str (codePoints b)) else none
    | _ => none
  | .fixed _ _ (some _) _ => none
  | .enum _ syms _ _ =>
    match v with
    | .str x => if syms.contains x then some (.str x) else none
    | _ => none
  | .array items =>
    match v with
    | .list xs => (jItemsM (jsonEncodeWith jp kok pick fuel env items) xs).map .list
    | .tuple xs => (jItemsM (jsonEncodeWith jp kok pick fuel env items) xs).map .list
    | _ => none
  | .map values =>
    match v with
    | .dict kv => (jEntriesM kok (jsonEncodeWith jp kok pick fuel env values) kv).map .dict
    | _ => none
  | .union bs =>
    match pick fuel bs v with
    | some (i, v') =>
      match bs[i]? with
      | some b => do
        let j ← jsonEncodeWith jp kok pick fuel env b v'
        if isNull env b then some j else some (.dict [(.str (jsonBranchName b), j)])
      | none => none
    | none => none
  | .record _ fields _ =>
    match v with
    | .dict kv => (jFieldsM (jsonEncodeWith jp kok pick fuel env) fields kv).map .dict
    | _ => none
  | .ref n =>
    match env.get? n with
    | some s' => jsonEncodeWith jp kok pick fuel env s' v
    | none => none

/-- the specification's JSON encoding -/
def jsonEncode := jsonEncodeWith jsonPrim (fun _ => true)
/-- the same on the fragment: floating-point fields hold floating-point values, map keys are not empty -/
def jsonEncodeCore := jsonEncodeWith jsonPrimFloats (fun s => !s.isEmpty)

/-! ### the record as written (what reading the text back has to return)

  The datum itself, in the form readers return data: absent fields replaced by their defaults, a
  union value as the value of the branch it was written under (`pick`), sequences as lists,
  `bytearray` as `bytes`; numbers, strings, symbols, keys as given.  `none` = outside the fragment the
  read-back theorem speaks about: non-conforming datum, logical type, duplicate dict keys or field
  names, two union branches of one name (the specification forbids them). -/

def writtenPrim (p : Prim) (v : Val) : Option Val :=
  match p, v with
  | .null, .none => some .none
  | .boolean, .bool b => some (.bool b)
  | .int, .int n => some (.int n)
  | .long, .int n => some (.int n)
  | .float, .float b => some (.float b)
  | .double, .float b => some (.float b)
  | .bytes, .bytes b => some (.bytes b)
  | .bytes, .bytearray b => some (.bytes b)
  | .string, .str s => some (.str s)
  | _, _ => none

def wEntriesM (f : Val → Option Val) : List (Val × Val) → Option (List (Val × Val))
  | [] => some []
  | (k, x) :: rest => do
    let a ← f x
    let b ← wEntriesM f rest
    some ((k, a) :: b)

/-- keys of a Python dict are pairwise distinct strings -/
def dictKeysOk (kv : List (Val × Val)) : Bool :=
  kv.all (fun (k, _) => match k with | .str _ => true | _ => false) && (dictKeys kv).Nodup

def written (pick : Nat → List Schema → Val → Option (Nat × Val)) (fuel : Nat) (env : Env) (s : Schema) (v : Val) : Option Val :=
  match fuel with
  | 0 => none
  | fuel+1 =>
  match s with
  | .prim p _ none => writtenPrim p v
  | .prim _ _ (some _) => none
  | .fixed _ size none _ =>
    match v with
    | .bytes b => if b.length = size then some (.bytes b) else none
    | _ => none
  | .fixed _ _ (some _) _ => none
  | .enum _ syms _ _ =>
    match v with
    | .str x => if syms.contains x then some (.str x) else none
    | _ => none
  | .array items =>
    match v with
    | .list xs => (jItemsM (written pick fuel env items) xs).map .list
    | .tuple xs => (jItemsM (written pick fuel env items) xs).map .list
    | _ => none
  | .map values =>
    match v with
    | .dict kv => if dictKeysOk kv then (wEntriesM (written pick fuel env values) kv).map .dict else none
    | _ => none
  | .union bs =>
    if (bs.map jsonBranchName).Nodup then
      match pick fuel bs v with
      | some (i, v') =>
        match bs[i]? with
        | some b => written pick fuel env b v'
        | none => none
      | none => none
    else none
  | .record _ fields _ =>
    match v with
    | .dict kv =>
      if (fields.map Field.name).Nodup then (jFieldsM (written pick fuel env) fields kv).map .dict else none
    | _ => none
  | .ref n =>
    match env.get? n with
    | some s' => written pick fuel env s' v
    | none => none

end Spec
