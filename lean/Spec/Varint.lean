/-
  Spec/Varint.lean — the Avro specification's integer encoding, written arithmetically and with no
  reference to binary_encoder.py: zig-zag, then base-128 little-endian groups with continuation bits.
-/
import Model.Basic

namespace Spec

/-- zig-zag: 0, -1, 1, -2, 2 … ↦ 0, 1, 2, 3, 4 … -/
def zigzag (n : Int) : Nat := if 0 ≤ n then (2 * n).toNat else (-2 * n - 1).toNat

def unzigzag (m : Nat) : Int := if m % 2 = 0 then (m / 2 : Nat) else -((m / 2 : Nat) : Int) - 1

/-- the 7-bit groups of `m`, least significant first (at least one group) -/
def groups (m : Nat) : List Nat :=
  if m < 128 then [m] else (m % 128) :: groups (m / 128)
termination_by m
decreasing_by omega

/-- set the continuation bit on every group but the last -/
def withContinuation : List Nat → Bytes
  | [] => []
  | [g] => [UInt8.ofNat g]
  | g :: rest => UInt8.ofNat (g + 128) :: withContinuation rest

def varint (m : Nat) : Bytes := withContinuation (groups m)

/-- the specification's encoding of an `int` / `long` -/
def encodeLong (n : Int) : Bytes := varint (zigzag n)

theorem unzigzag_zigzag (n : Int) : unzigzag (zigzag n) = n := by
  unfold unzigzag zigzag
  split <;> split <;> omega

end Spec
