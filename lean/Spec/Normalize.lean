/-
  Spec/Normalize.lean — the documented normal form of a conforming datum (property C01):
  omitted fields replaced by their defaults, union hints stripped, sequences returned as lists,
  numbers under float/double returned as floats, `float` values rounded to single precision,
  `bytearray` returned as `bytes`.  Defined on data and schema only — no bytes are involved.

  `normalize … = none` means "outside the fragment the theorem speaks about" (non-conforming datum,
  logical-type annotation — those are C16 —, duplicate dict keys / field names, sizes ≥ 2^63).
  The union case takes the branch from `Binary.choose`; that this is the branch the documented
  rule prescribes is property C09.
-/
import Model.Binary

namespace Spec

def LIMIT : Nat := 2 ^ 63

def mapM' {α β} (f : α → Option β) : List α → Option (List β)
  | [] => some []
  | x :: xs => do let y ← f x; let ys ← mapM' f xs; some (y :: ys)

/-- keys of a Python dict are pairwise distinct -/
def keysOk (kv : List (Val × Val)) : Bool :=
  kv.all (fun (k, _) => match k with | .str _ => true | _ => false) && (dictKeys kv).Nodup

def normPrim (p : Prim) (v : Val) : Option Val :=
  match p, v with
  | .null, .none => some .none
  | .boolean, .bool b => some (.bool b)
  | .int, .int n => if Validate.INT_MIN ≤ n ∧ n ≤ Validate.INT_MAX then some (.int n) else none
  | .long, .int n => if Validate.LONG_MIN ≤ n ∧ n ≤ Validate.LONG_MAX then some (.int n) else none
  | .float, .float b => (Fl.f64ToF32 b).map fun f => .float (Fl.f32ToF64 f)
  | .float, .int n => (Fl.ofInt n).bind fun d => (Fl.f64ToF32 d).map fun f => .float (Fl.f32ToF64 f)
  | .double, .float b => some (.float b)
  | .double, .int n => (Fl.ofInt n).map .float
  | .bytes, .bytes b => if b.length < LIMIT then some (.bytes b) else none
  | .bytes, .bytearray b => if b.length < LIMIT then some (.bytes b) else none
  | .string, .str s => if (utf8Enc s).length < LIMIT then some (.str s) else none
  | _, _ => none

/-- record normal form: the fields in schema order, absent ones replaced by the default (or None) -/
def normFieldsWith (nm : Schema → Val → Option Val) : List Field → List (Val × Val) → Option (List (Val × Val))
  | [], _ => some []
  | f :: rest, kv => do
    let dv := match dictGetV kv f.name with
      | some x => x
      | none => f.default.getD .none
    let x ← nm f.type dv
    let xs ← normFieldsWith nm rest kv
    some ((.str f.name, x) :: xs)

def normEntriesWith (nm : Val → Option Val) : List (Val × Val) → Option (List (Val × Val))
  | [] => some []
  | (k, x) :: rest => do
    let y ← nm x
    let ys ← normEntriesWith nm rest
    some ((k, y) :: ys)

def normalize (fuel : Nat) (env : Env) (o : WOpts) (s : Schema) (v : Val) : Option Val :=
  match fuel with
  | 0 => none
  | fuel+1 =>
  match s with
  | .prim p _ none => normPrim p v
  | .prim _ _ (some _) => none
  | .fixed _ size none _ =>
    match v with
    | .bytes b => if b.length = size then some (.bytes b) else none
    | _ => none
  | .fixed _ _ (some _) _ => none
  | .enum _ syms _ _ =>
    match v with
    | .str x => if syms.contains x ∧ syms.length < LIMIT then some (.str x) else none
    | _ => none
  | .array items =>
    match v with
    | .list xs => if xs.length < LIMIT then (mapM' (normalize fuel env o items) xs).map .list else none
    | .tuple xs => if xs.length < LIMIT then (mapM' (normalize fuel env o items) xs).map .list else none
    | _ => none
  | .map values =>
    match v with
    | .dict kv =>
      if keysOk kv ∧ kv.length < LIMIT ∧ (kv.all fun (k, _) => match k with
          | .str s => decide ((utf8Enc s).length < LIMIT) | _ => false)
      then (normEntriesWith (normalize fuel env o values) kv).map .dict else none
    | _ => none
  | .union bs =>
    match Binary.choose fuel env o bs v with
    | .ok (i, v') =>
      match bs[i]? with
      | some b => if bs.length < LIMIT then normalize fuel env o b v' else none
      | none => none
    | .error _ => none
  | .record _ fields _ =>
    match v with
    | .dict kv =>
      if (fields.map Field.name).Nodup then (normFieldsWith (normalize fuel env o) fields kv).map .dict else none
    | _ => none
  | .ref n =>
    match env.get? n with
    | some s' => normalize fuel env o s' v
    | none => none

end Spec
