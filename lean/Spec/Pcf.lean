/-
  Spec/Pcf.lean — the specification's Parsing Canonical Form, applied to the *raw* schema (a JSON
  value) and written from the specification's rule list, independently of `parse_schema`:
    [PRIMITIVES] primitives in simple form · [FULLNAMES] names replaced by full names, namespace
    attributes dropped · [STRIP] only type, name, fields, symbols, items, values, size kept ·
    [ORDER] in that order (name first, then type, …) · [STRINGS]/[INTEGERS]/[WHITESPACE] plain rendering.
  Full names follow the specification's namespace rules: a dotted name is already full; otherwise the
  explicit `namespace` attribute, else the namespace of the enclosing named type, is prepended.
-/
import Model.Basic
import Model.Schema

namespace Spec

def PRIMS : List String := ["null", "boolean", "int", "long", "float", "double", "bytes", "string"]

/-- (namespace in effect inside the type, full name) of a named-type definition -/
def fullNameOf (kv : List (Val × Val)) (enclosingNs : String) : Option (String × String) :=
  match dictGetV kv "name" with
  | some (.str name) =>
    if name.contains '.' then
      some (".".intercalate (name.splitOn ".").dropLast, name)
    else
      let ns := match dictGetV kv "namespace" with
        | some (.str n) => n
        | some .none => ""
        | some _ => ""
        | none => enclosingNs
      if ns != "" then some (ns, ns ++ "." ++ name) else some ("", name)
  | _ => none

/-- the full name a by-name reference denotes -/
def refName (name enclosingNs : String) : String :=
  if !name.contains '.' && enclosingNs != "" then enclosingNs ++ "." ++ name else name

def q (s : String) : String := "\"" ++ s ++ "\""

def commaSep : List String → String
  | [] => ""
  | [x] => x
  | x :: rest => x ++ "," ++ commaSep rest

def mapM? {α β} (f : α → Option β) : List α → Option (List β)
  | [] => some []
  | x :: xs => do let y ← f x; let ys ← mapM? f xs; some (y :: ys)

/-- text of an enum symbol -/
def symText : Val → Option String
  | .str x => some (q x)
  | _ => none

/-- text of a record field, its type rendered by `f` -/
def fieldTextWith (f : Val → Option String) : Val → Option String
  | .dict fkv => do
    let fname ← (match dictGetV fkv "name" with | some (.str n) => some n | _ => none)
    let ftype ← dictGetV fkv "type"
    let t ← f ftype
    some ("{\"name\":" ++ q fname ++ ",\"type\":" ++ t ++ "}")
  | _ => none

/-- canonical text of a raw schema in namespace `ns` (the fuel bounds the nesting depth) -/
def pcf (fuel : Nat) (raw : Val) (ns : String) : Option String :=
  match fuel with
  | 0 => none
  | fuel+1 =>
  match raw with
  | .str name => if PRIMS.contains name then some (q name) else some (q (refName name ns))
  | .list bs => do
      let parts ← mapM? (fun b => pcf fuel b ns) bs
      some ("[" ++ commaSep parts ++ "]")
  | .dict kv =>
    match dictGetV kv "type" with
    | some (.str t) =>
      if PRIMS.contains t then some (q t)
      else if t == "array" then do
        let items ← dictGetV kv "items"
        let i ← pcf fuel items ns
        some ("{\"type\":\"array\",\"items\":" ++ i ++ "}")
      else if t == "map" then do
        let values ← dictGetV kv "values"
        let v ← pcf fuel values ns
        some ("{\"type\":\"map\",\"values\":" ++ v ++ "}")
      else if t == "enum" then do
        let (_, full) ← fullNameOf kv ns
        match dictGetV kv "symbols" with
        | some (.list syms) =>
          let names ← mapM? symText syms
          some ("{\"name\":" ++ q full ++ ",\"type\":\"enum\",\"symbols\":[" ++ commaSep names ++ "]}")
        | _ => none
      else if t == "fixed" then do
        let (_, full) ← fullNameOf kv ns
        match dictGetV kv "size" with
        | some (.int n) => some ("{\"name\":" ++ q full ++ ",\"type\":\"fixed\",\"size\":" ++ toString n ++ "}")
        | _ => none
      else if t == "record" || t == "error" then do
        let (ns', full) ← fullNameOf kv ns
        let fields := dictListOr kv "fields"
        let parts ← mapM? (fieldTextWith fun ty => pcf fuel ty ns') fields
        some ("{\"name\":" ++ q full ++ ",\"type\":\"record\",\"fields\":[" ++ commaSep parts ++ "]}")
      else none
    | _ => none
  | _ => none

end Spec
