/-
  Spec/Choose.lean — which union branch a datum is written to (property C09), from the statement:

    * a `(name, value)` tuple selects exactly the first branch of that name (full name for named
      types, type name otherwise); no such branch is an error;
    * without a hint: among the conforming non-record branches the first in schema order — except that
      a value conforming to `float` goes to the first later `double` branch when there is one;
    * when no non-record branch conforms: among the conforming record branches the one sharing most
      field names with the datum, the first on ties;
    * nothing conforms: an error.
  `cf b` is "the datum conforms to branch b" (`Spec.conforms`).
-/
import Model.Schema
import Spec.Conforms

namespace Spec

def isRecordBranch (env : Env) (b : Schema) : Bool :=
  match unwrapRef env b with
  | .record .. => true
  | _ => false

/-- number of the branch's field names that are keys of the datum -/
def sharedWith (env : Env) (b : Schema) (v : Val) : Int :=
  match unwrapRef env b with
  | .record _ fs _ => sharedCount fs v
  | _ => 0

def firstFrom (p : Schema → Bool) (i : Nat) : List Schema → Option Nat
  | [] => none
  | b :: bs => if p b then some i else firstFrom p (i + 1) bs

/-- un-hinted choice over the remaining branches; `best`/`most` = the best conforming record seen so far -/
def chooseFrom (cf : Schema → Bool) (env : Env) (v : Val) (best : Option Nat) (most : Int) (i : Nat) :
    List Schema → Option Nat
  | [] => best
  | b :: bs =>
    if cf b && !isRecordBranch env b then
      -- the first conforming non-record branch decides
      if (unwrapRef env b).typeName == "float" then
        match firstFrom (fun d => d.typeName == "double") (i + 1) bs with
        | some k => some k
        | none => some i
      else some i
    else if cf b && sharedWith env b v > most then chooseFrom cf env v (some i) (sharedWith env b v) (i + 1) bs
    else chooseFrom cf env v best most (i + 1) bs

def choose (fuel : Nat) (env : Env) (strict dtn : Bool) (bs : List Schema) (v : Val) : Option (Nat × Val) :=
  match v, dtn with
  | .tuple [nameV, inner], false =>
    let i := bs.findIdx fun b => nameV.strEq (branchName b)
    if i < bs.length then some (i, inner) else none
  | .tuple _, false => none
  | _, _ => (chooseFrom (fun b => conforms fuel env strict dtn b v) env v none (-1) 0 bs).map (·, v)

end Spec
