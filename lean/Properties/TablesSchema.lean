/-
  Properties/TablesSchema.lean — obligations against the generated tables (Gen/Tables.lean), closed by evaluation.
-/
import Properties.TablesCommon

namespace Tables

theorem name_sets :
    strSet? "_schema_common.PRIMITIVES" = some ["boolean", "bytes", "double", "float", "int", "long", "null", "string"] ∧
    strSet? "const.NAMED_TYPES" = some ["enum", "error", "fixed", "record"] ∧
    Gen.strConsts.lookup "_schema_py.SYMBOL_REGEX" = some "[A-Za-z_][A-Za-z0-9_]*" ∧
    Gen.strConsts.lookup "_schema_common.RABIN_64" = some "CRC-64-AVRO" ∧
    Gen.strMaps.lookup "_schema_common.JAVA_FINGERPRINT_MAPPING" = some [("MD5", "md5"), ("SHA-256", "sha256")] := by
  decide

end Tables
