/-
  Properties/TablesContainer.lean — obligations against the generated tables (Gen/Tables.lean), closed by evaluation.
-/
import Properties.TablesCommon
import Model.Container

namespace Tables

theorem container_constants :
    Gen.byteConsts.lookup "_read_common.MAGIC" = some [0x4F, 0x62, 0x6A, 1] ∧
    int? "_read_common.SYNC_SIZE" = some 16 := by decide

theorem block_codecs_dispatch :
    disp? "_write_py.BLOCK_WRITERS" "null" = some "null_write_block" ∧
    disp? "_write_py.BLOCK_WRITERS" "deflate" = some "deflate_write_block" ∧
    disp? "_write_py.BLOCK_WRITERS" "bzip2" = some "bzip2_write_block" ∧
    disp? "_write_py.BLOCK_WRITERS" "xz" = some "xz_write_block" ∧
    disp? "_read_py.BLOCK_READERS" "null" = some "null_read_block" ∧
    disp? "_read_py.BLOCK_READERS" "deflate" = some "deflate_read_block" ∧
    disp? "_read_py.BLOCK_READERS" "bzip2" = some "bzip2_read_block" ∧
    disp? "_read_py.BLOCK_READERS" "xz" = some "xz_read_block" := by
  decide

/-- `_is_appendable` of the current source, run in isolation over its whole decision domain by the translator,
    is the model's decision table -/
theorem appendable_table :
    Gen.appendableTable.all (fun (s, p, o, r, out) =>
      (match Container.isAppendable ⟨s, if p then 5 else 0, o, r⟩ with
        | .ok true => "true" | .ok false => "false" | .error .value => "ValueError" | .error _ => "other") == out) = true ∧
    Gen.appendableTable.length = 24 := by decide

end Tables
