/-
  Properties/C18.lean — concurrent operations on distinct streams behave as if run sequentially.

  Streams, data and results are thread-private; what threads share are the module-level state
  objects of the package and the parsed-schema objects (which no entry point writes: C17).
    * `c18_table_threadsafe` (obligation on the table regenerated from /repo each run): no public
      entry point writes a module-level state object — all sharing is read-only;
    * `c18_interleaving_serializable` (generic theorem): threads that only read the shared objects
      reach, under *every* schedule of their atomic steps, exactly the state they reach alone, and
      the shared store is unchanged — every thread's result is its sequential result;
    * `c18_write_sharing_is_unsafe`: the hypothesis is necessary — two threads that each set a
      shared attribute and then read it (what `read_decimal` did with `decimal_context.prec`)
      return the other thread's value under the schedule write-A, write-B, read-A.
  Not expressible here (sampled by the harness's free-running tier): pre-emption inside a C-level
  operation, the interpreter's actual switch points, free-threaded builds.
-/
import Gen.Effects
import Proofs.Effects

open Effects

def threadSafeTable (es : List Gen.Effect) : Bool := es.all fun e => e.found && e.writes.isEmpty

theorem c18_table_threadsafe : threadSafeTable Gen.effects = true := by decide

theorem c18_interleaving_serializable {V Res} (threads : List (Prog V Res)) (σ : Obj → V)
    (hro : ∀ p ∈ threads, p.readOnly) (sched : List Nat) :
    ((Sys.mk threads σ).runSched sched).store = σ ∧
    ∀ i p, threads[i]? = some p →
      ((Sys.mk threads σ).runSched sched).threads[i]? = some (Prog.runAlone σ (count i sched) p).1 :=
  let h := interleaving_serializable threads σ hro sched
  ⟨h.1, h.2.2⟩

/-- set the shared precision, then read it back as the result -/
def setThenRead (p : Nat) : Prog Nat Nat := .write "decimal_context.prec" p (.read "decimal_context.prec" fun v => .done v)

/-- alone, thread A (precision 5) returns 5; under the schedule A, B, A it returns B's precision 2 -/
theorem c18_write_sharing_is_unsafe :
    ((Prog.runAlone (fun _ => 28) 2 (setThenRead 5)).1.result? = some 5) ∧
    (((Sys.mk [setThenRead 5, setThenRead 2] (fun _ => 28)).runSched [0, 1, 0]).threads[0]?.bind Prog.result? = some 2) := by
  constructor <;> rfl

/-! non-vacuity of the theorem's hypothesis: two readers of a dispatch table -/
example : ∀ p ∈ [(.read "READERS" fun v => .done (v + 1) : Prog Nat Nat), .read "WRITERS" fun v => .done v], p.readOnly := by
  intro p hp
  simp only [List.mem_cons, List.mem_nil_iff, or_false] at hp
  rcases hp with rfl | rfl <;> intro v <;> trivial
