/-
  Properties/C09.lean — union branch choice is deterministic, honours hints, and follows the
  documented rule. Lemmas: Proofs/Choose.lean, Proofs/Validate.lean.
  Determinism "as a function of schema and datum alone" is by construction here (a pure function);
  that the implementation has no hidden state is property C17.
-/
import Proofs.Choose

open Binary ChooseProofs

/-- **C09 (hints).** a `(name, value)` tuple selects exactly the first branch named so — the full name
    for named types, the type name otherwise — and the value written is `value`; when no branch has
    that name, writing is an error (ValueError) -/
theorem c09_hint (fuel : Nat) (env : Env) (o : WOpts) (bs : List Schema) (nameV inner : Val)
    (hdt : o.disableTuple = false) :
    let i := bs.findIdx fun b => nameV.strEq b.hintName
    (i < bs.length → choose fuel env o bs (.tuple [nameV, inner]) = .ok (i, inner)) ∧
    (¬ i < bs.length → choose fuel env o bs (.tuple [nameV, inner]) = .error .value) := by
  intro i
  constructor
  · intro h
    have h' : (bs.findIdx fun b => nameV.strEq b.hintName) < bs.length := h
    simp only [choose, hdt, h', ↓reduceIte, pure, Except.pure]; rfl
  · intro h
    have h' : ¬ (bs.findIdx fun b => nameV.strEq b.hintName) < bs.length := h
    simp only [choose, hdt, h', ↓reduceIte, throw, throwThe, MonadExceptOf.throw]

/-- **C09 (choice rule).** without a hint, for a plain schema and whenever validating the datum
    against the branches raises no exception, the writer's choice is exactly `Spec.choose`: the first
    conforming non-record branch (a float-conforming value goes to the first later `double` branch),
    otherwise the conforming record sharing most field names, first on ties; an error when nothing
    conforms. With a hint both sides select the first branch of that name. -/
theorem c09_choose_eq_spec (fuel : Nat) (env : Env) (o : WOpts) (bs : List Schema) (v : Val)
    (henv : env.plain = true) (hbs : ∀ b ∈ bs, b.plain = true)
    (hnoexc : ∀ b ∈ bs, ∃ r, Validate.validate fuel env o.toV false "" b (some v) = .ok r) :
    (choose fuel env o bs v).toOption = Spec.choose fuel env o.strict o.disableTuple bs v := by
  have hval : ∀ b ∈ bs, Validate.validate fuel env o.toV false "" b (some v) =
      .ok (Spec.conforms fuel env o.strict o.disableTuple b v) := by
    intro b hb
    obtain ⟨r, hr⟩ := hnoexc b hb
    have := ValidateProofs.validate_eq_conforms env o.toV henv fuel "" b (some v) r (hbs b hb) hr
    simp only [ValidateProofs.childSpec, WOpts.toV] at this
    rw [hr, this]
  obtain ⟨st, hst, hbest⟩ := scan_eq_spec fuel env o v _ bs hval
  have hun : (do let st ← scan fuel env o v {} 0 bs
                 match st.best with
                 | some i => pure (i, v)
                 | none => throw Err.value : R (Nat × Val)).toOption =
      (Spec.chooseFrom (fun b => Spec.conforms fuel env o.strict o.disableTuple b v) env v none (-1) 0 bs).map (·, v) := by
    rw [hst, ← hbest]
    cases hb : st.best <;>
      simp [bind, Except.bind, hb, Except.toOption, pure, Except.pure, throw, throwThe, MonadExceptOf.throw]
  cases v
  case tuple xs =>
    cases hd : o.disableTuple
    · match xs with
      | [nameV, inner] =>
        simp only [choose, Spec.choose, hd, Spec.branchName]
        by_cases hi : (bs.findIdx fun b => nameV.strEq b.hintName) < bs.length <;>
          simp [hi, Except.toOption, pure, Except.pure, throw, throwThe, MonadExceptOf.throw]
      | [] => simp [choose, Spec.choose, hd, Except.toOption, throw, throwThe, MonadExceptOf.throw]
      | [_] => simp [choose, Spec.choose, hd, Except.toOption, throw, throwThe, MonadExceptOf.throw]
      | _ :: _ :: _ :: _ => simp [choose, Spec.choose, hd, Except.toOption, throw, throwThe, MonadExceptOf.throw]
    · simp only [choose, Spec.choose, hd]; rw [hd] at hun; exact hun
  all_goals (simp only [choose, Spec.choose]; exact hun)

/-! non-vacuity: the float-then-double deferral and the most-shared-fields rule on concrete unions -/
example : ((Spec.choose 4 [] false false
    [.prim .string false none, .prim .float false none, .prim .long false none, .prim .double false none] (.float 0)).map (·.1)) =
    some 3 := by decide +kernel
example : ((Spec.choose 4 [] false false
    [.record "A" [.mk "x" (.prim .int false none) none [], .mk "y" (.prim .int false none) (some (.int 1)) []] [],
     .record "B" [.mk "x" (.prim .int false none) none [], .mk "z" (.prim .int false none) (some (.int 1)) []] []]
    (.dict [(.str "x", .int 1), (.str "z", .int 2)])).map (·.1)) = some 1 := by
  decide +kernel
