/-
  Properties/C09.lean — union branch choice is deterministic, honours hints, and follows the
  documented rule. Lemmas: Proofs/Choose.lean, Proofs/Validate.lean.
  `c09_closure_branch`: the closure clause at the level of the branch — the (name, value) pair the reader reports for a
  named branch selects, written back, exactly that branch; `c09_closure_union_level`: hence identical bytes for the union
  whenever the value inside re-encodes identically (the induction over the whole datum is checked on the implementation,
  every reader option, and not proved).
  Determinism "as a function of schema and datum alone" is by construction here (a pure function);
  that the implementation has no hidden state is property C17.
-/
import Proofs.Choose

open Binary ChooseProofs

/-- **C09 (hints).** a `(name, value)` tuple selects exactly the first branch named so — the full name
    for named types, the type name otherwise — and the value written is `value`; when no branch has
    that name, writing is an error (ValueError) -/
theorem c09_hint (fuel : Nat) (env : Env) (o : WOpts) (bs : List Schema) (nameV inner : Val)
    (hdt : o.disableTuple = false) :
    let i := bs.findIdx fun b => nameV.strEq b.hintName
    (i < bs.length → choose fuel env o bs (.tuple [nameV, inner]) = .ok (i, inner)) ∧
    (¬ i < bs.length → choose fuel env o bs (.tuple [nameV, inner]) = .error .value) := by
  intro i
  constructor
  · intro h
    have h' : (bs.findIdx fun b => nameV.strEq b.hintName) < bs.length := h
    simp only [choose, hdt, h', ↓reduceIte, pure, Except.pure]; rfl
  · intro h
    have h' : ¬ (bs.findIdx fun b => nameV.strEq b.hintName) < bs.length := h
    simp only [choose, hdt, h', ↓reduceIte, throw, throwThe, MonadExceptOf.throw]

/-- **C09 (choice rule).** without a hint, for a plain schema and whenever validating the datum
    against the branches raises no exception, the writer's choice is exactly `Spec.choose`: the first
    conforming non-record branch (a float-conforming value goes to the first later `double` branch),
    otherwise the conforming record sharing most field names, first on ties; an error when nothing
    conforms. With a hint both sides select the first branch of that name. -/
theorem c09_choose_eq_spec (fuel : Nat) (env : Env) (o : WOpts) (bs : List Schema) (v : Val)
    (henv : env.plain = true) (hbs : ∀ b ∈ bs, b.plain = true)
    (hnoexc : ∀ b ∈ bs, ∃ r, Validate.validate fuel env o.toV false "" b (some v) = .ok r) :
    (choose fuel env o bs v).toOption = Spec.choose fuel env o.strict o.disableTuple bs v := by
  have hval : ∀ b ∈ bs, Validate.validate fuel env o.toV false "" b (some v) =
      .ok (Spec.conforms fuel env o.strict o.disableTuple b v) := by
    intro b hb
    obtain ⟨r, hr⟩ := hnoexc b hb
    have := ValidateProofs.validate_eq_conforms env o.toV henv fuel "" b (some v) r (hbs b hb) hr
    simp only [ValidateProofs.childSpec, WOpts.toV] at this
    rw [hr, this]
  obtain ⟨st, hst, hbest⟩ := scan_eq_spec fuel env o v _ bs hval
  have hun : (do let st ← scan fuel env o v {} 0 bs
                 match st.best with
                 | some i => pure (i, v)
                 | none => throw Err.value : R (Nat × Val)).toOption =
      (Spec.chooseFrom (fun b => Spec.conforms fuel env o.strict o.disableTuple b v) env v none (-1) 0 bs).map (·, v) := by
    rw [hst, ← hbest]
    cases hb : st.best <;>
      simp [bind, Except.bind, hb, Except.toOption, pure, Except.pure, throw, throwThe, MonadExceptOf.throw]
  cases v
  case tuple xs =>
    cases hd : o.disableTuple
    · match xs with
      | [nameV, inner] =>
        simp only [choose, Spec.choose, hd, Spec.branchName]
        by_cases hi : (bs.findIdx fun b => nameV.strEq b.hintName) < bs.length <;>
          simp [hi, Except.toOption, pure, Except.pure, throw, throwThe, MonadExceptOf.throw]
      | [] => simp [choose, Spec.choose, hd, Except.toOption, throw, throwThe, MonadExceptOf.throw]
      | [_] => simp [choose, Spec.choose, hd, Except.toOption, throw, throwThe, MonadExceptOf.throw]
      | _ :: _ :: _ :: _ => simp [choose, Spec.choose, hd, Except.toOption, throw, throwThe, MonadExceptOf.throw]
    · simp only [choose, Spec.choose, hd]; rw [hd] at hun; exact hun
  all_goals (simp only [choose, Spec.choose]; exact hun)

/-! non-vacuity: the float-then-double deferral and the most-shared-fields rule on concrete unions -/
example : ((Spec.choose 4 [] false false
    [.prim .string false none, .prim .float false none, .prim .long false none, .prim .double false none] (.float 0)).map (·.1)) =
    some 3 := by decide +kernel
example : ((Spec.choose 4 [] false false
    [.record "A" [.mk "x" (.prim .int false none) none [], .mk "y" (.prim .int false none) (some (.int 1)) []] [],
     .record "B" [.mk "x" (.prim .int false none) none [], .mk "z" (.prim .int false none) (some (.int 1)) []] []]
    (.dict [(.str "x", .int 1), (.str "z", .int 2)])).map (·.1)) = some 1 := by
  decide +kernel

/-! ### closure (branch level) -/

theorem findIdx_first {α : Type} (p : α → Bool) : ∀ (xs : List α) (i : Nat) (x : α), xs[i]? = some x → p x = true →
    (∀ j, j < i → ∀ y, xs[j]? = some y → p y = false) → xs.findIdx p = i := by
  intro xs
  induction xs with
  | nil => intro i x h; simp at h
  | cons a as ih =>
    intro i x h hp hbefore
    cases i with
    | zero =>
      simp at h; subst h
      simp [List.findIdx_cons, hp]
    | succ i =>
      have ha : p a = false := hbefore 0 (by omega) a (by simp)
      simp only [List.findIdx_cons, ha, cond_false]
      have := ih i x (by simpa using h) hp (fun j hj y hy => hbefore (j+1) (by omega) y (by simpa using hy))
      omega

/-- **C09 (closure, branch level).** With named-type reporting on, the value `read_union` reports for a named branch —
    the pair (name, value) — written back under the same union selects exactly the branch it was read from, provided no
    earlier branch goes by the same name (the specification forbids two named types of one name in a union).  For a
    branch given by name the reported name is the definition's, which the table of named schemas keeps equal to the
    reference (`hdef`). -/
theorem c09_closure_branch (fuel : Nat) (env : Env) (o : WOpts) (ro : ROpts) (bs : List Schema) (i : Nat) (b : Schema) (result : Val)
    (hb : bs[i]? = some b)
    (hnamed : b.isNamedDef = true ∨ ∃ n d, b = .ref n ∧ env.get? n = some d ∧ d.defName? = some n)
    (hro : ro.returnNamedType = true) (hov : (ro.returnNamedTypeOverride && (unionCounts bs).1 == 1) = false)
    (hfirst : ∀ j, j < i → ∀ b', bs[j]? = some b' → b'.hintName ≠ b.hintName)
    (hdt : o.disableTuple = false) :
    wrapUnionResult env ro bs b result = .ok (.tuple [.str b.hintName, result]) ∧
    choose fuel env o bs (.tuple [.str b.hintName, result]) = .ok (i, result) := by
  have hlt : i < bs.length := by
    rcases Nat.lt_or_ge i bs.length with h | h
    · exact h
    · have : bs[i]? = none := List.getElem?_eq_none h
      rw [this] at hb; cases hb
  constructor
  · unfold wrapUnionResult
    simp only [hov, Bool.false_eq_true, if_false, hro, Bool.true_and]
    rcases hnamed with hn | ⟨n, d, rfl, hget, hdn⟩
    · cases b <;> simp [Schema.isNamedDef] at hn <;> simp [Schema.hintName, pure, Except.pure]
    · simp [hget, hdn, Schema.hintName, Schema.typeName, pure, Except.pure]
  · have hidx : (bs.findIdx fun b' => (Val.str b.hintName).strEq b'.hintName) = i := by
      refine findIdx_first _ bs i b hb ?_ ?_
      · simp [Val.strEq]
      · intro j hj y hy
        have := hfirst j hj y hy
        simp only [Val.strEq, beq_eq_false_iff_ne, ne_eq]
        exact fun h => this h.symm
    have := (c09_hint fuel env o bs (.str b.hintName) result hdt).1
    simp only [hidx] at this
    exact this hlt

/-- **C09 (closure, one union level).** If a datum was written to a union under branch `i` — a named branch, the first of its
    name — and what the reader reports for the value inside re-encodes under that branch to the same bytes (`hinner`: the
    clause for the value one level down), then the (name, value) pair the reader reports for the union re-encodes to the
    identical bytes of the union. -/
theorem c09_closure_union_level (fuel : Nat) (env : Env) (o : WOpts) (ro : ROpts) (bs : List Schema) (v v' r : Val) (i : Nat) (b : Schema)
    (hch : choose fuel env o bs v = .ok (i, v')) (hb : bs[i]? = some b)
    (hnamed : b.isNamedDef = true ∨ ∃ n d, b = .ref n ∧ env.get? n = some d ∧ d.defName? = some n)
    (hro : ro.returnNamedType = true) (hov : (ro.returnNamedTypeOverride && (unionCounts bs).1 == 1) = false)
    (hfirst : ∀ j, j < i → ∀ b', bs[j]? = some b' → b'.hintName ≠ b.hintName) (hdt : o.disableTuple = false)
    (hinner : writeData fuel env o b r = writeData fuel env o b v') :
    ∃ reported, wrapUnionResult env ro bs b r = .ok reported ∧
      writeData (fuel+1) env o (.union bs) reported = writeData (fuel+1) env o (.union bs) v := by
  obtain ⟨h1, h2⟩ := c09_closure_branch fuel env o ro bs i b r hb hnamed hro hov hfirst hdt
  refine ⟨_, h1, ?_⟩
  simp only [writeData, h2, hch, hb, hinner]
