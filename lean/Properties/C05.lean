/-
  Properties/C05.lean — the container layout interoperates both ways. Lemmas: Proofs/Container.lean,
  Proofs/Writer.lean.
-/
import Properties.C04

open Binary Container ContainerProofs WriterProofs

/-- **C05 (writer layout).** after any history of writes, failed writes, flushes and block copies,
    the output is `header ++` a sequence of blocks, each laid out as the specification prescribes
    (`count, byte length of the compressed payload, compressed payload, the file's sync marker`),
    whose payloads decode to exactly their record counts and together hold the records submitted and
    not still pending -/
theorem c05_writer_layout (fuel : Nat) (env : Env) (o : WOpts) (s : Schema) (validate : Val → R Bool) (cfg : WCfg)
    (hdr : Bytes) (ops : List Op)
    (hops : ∀ op ∈ ops, OpOk (fileEnc fuel env o s) (fileDec fuel env s) (fileNf fuel env o s) op) :
    let init : WState × Ghost := ({ out := hdr, pending := [], count := 0 }, { blocks := [], pend := [], submitted := [] })
    let sg := runG (fileEnc fuel env o s) (fileDec fuel env s) validate cfg (fileNf fuel env o s) init ops
    sg.1 = run (fileEnc fuel env o s) validate cfg init.1 ops ∧
    sg.1.out = hdr ++ flat cfg.codec cfg.sync sg.2.blocks ∧
    (∀ b ∈ sg.2.blocks, readRecords (fileDec fuel env s) b.count b.payload = (b.recs, none)) ∧
    sg.2.blocks.flatMap (·.recs) ++ sg.2.pend = sg.2.submitted := by
  intro init sg
  have hinit : WInv (fileDec fuel env s) cfg hdr init.1 init.2 := ⟨by simp [init, flat], by simp [init], rfl, rfl⟩
  obtain ⟨h1, h2, _, h4⟩ := inv_run (fileEnc fuel env o s) (fileDec fuel env s) validate cfg (fileNf fuel env o s)
    (ExtendProofs.readData_ext env {} fuel s) hdr init ops hinit hops
  exact ⟨runG_fst _ _ _ _ _ init ops, h1, h2, h4⟩

/-- **C05 (reader accepts).** every layout-valid block area from any writer — any partition into
    blocks, empty blocks included, any sound codec — is read to the records of its blocks -/
theorem c05_reader_accepts (dec : Bytes → R (Val × Bytes)) (c : Codec) (hs : c.Sound) (sync : Bytes)
    (hsync : sync.length = 16) (bs : List Blk) (hok : ∀ b ∈ bs, b.Ok dec c) (k : Nat) (hk : bs.length < k) :
    readBlocks dec c sync k (flat c sync bs) = (bs.flatMap (·.recs), .eof) :=
  read_flat dec c hs sync hsync bs hok k hk

/-- **C05 (tiling).** the blocks reported by the block reader tile the block area: each starts where
    the previous one ended, the first at the end of the header (`off`), the last ends at the end of
    the file; record counts and payloads are those of the blocks -/
theorem c05_tiling (c : Codec) (hs : c.Sound) (sync : Bytes) (hsync : sync.length = 16)
    (dec : Bytes → R (Val × Bytes)) (bs : List Blk) (hok : ∀ b ∈ bs, b.Ok dec c) (k off : Nat) (hk : bs.length < k) :
    ∃ infos, readBlockInfos c sync k off (flat c sync bs) = (infos, .eof) ∧
      infos.map (·.numRecords) = bs.map (fun b => (b.count : Int)) ∧
      infos.map (·.payload) = bs.map (·.payload) ∧
      (infos.foldl (fun (acc : Option Nat) i => acc.bind fun o => if i.offset = o then some (o + i.size) else none)
        (some off)) = some (off + (flat c sync bs).length) :=
  infos_flat c hs sync hsync dec bs hok k off hk

/-- **C05 (is_avro).** true exactly for inputs that begin with the four magic bytes -/
theorem c05_is_avro (bs : Bytes) : isAvro bs = true ↔ ∃ r, bs = MAGIC ++ r := by
  unfold isAvro
  constructor
  · intro h
    have h' : bs.take 4 = MAGIC := by simpa using h
    exact ⟨bs.drop 4, by rw [← h', List.take_append_drop]⟩
  · rintro ⟨r, rfl⟩
    simp [MAGIC]

/-- non-vacuity: an empty block and a two-record block of longs under the null codec -/
example : (readBlocks (fun bs => do let (n, r) ← decodeLong bs; pure (.int n, r)) Codec.null (List.replicate 16 7) 5
    ([0x00, 0x00] ++ List.replicate 16 7 ++ [0x04, 0x04, 0x02, 0x03] ++ List.replicate 16 7)).2 = .eof := by
  decide +kernel
