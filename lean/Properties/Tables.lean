/-
  Properties/Tables.lean — side conditions tying the hand-written model to the constants and
  dispatch tables that harness/gen_tables.py regenerates from /repo on every run (Gen/Tables.lean).
  Every theorem here is closed by evaluation; a changed constant or dispatch entry in the source
  makes one of them fail at build time.
-/
import Gen.Tables
import Model.Validate
import Model.Logical
import Model.Rabin

namespace Tables

def int? (k : String) : Option Int := Gen.ints.lookup k
def disp? (tbl key : String) : Option String := (Gen.dispatch.lookup tbl).bind (·.lookup key)
def strSet? (k : String) : Option (List String) := Gen.strSets.lookup k

theorem int_bounds :
    int? "const.INT_MIN_VALUE" = some Validate.INT_MIN ∧ int? "const.INT_MAX_VALUE" = some Validate.INT_MAX ∧
    int? "const.LONG_MIN_VALUE" = some Validate.LONG_MIN ∧ int? "const.LONG_MAX_VALUE" = some Validate.LONG_MAX := by
  decide

theorem time_constants :
    int? "const.MCS_PER_SECOND" = some Logical.MCS_PER_SECOND ∧ int? "const.MCS_PER_MINUTE" = some Logical.MCS_PER_MINUTE ∧
    int? "const.MCS_PER_HOUR" = some Logical.MCS_PER_HOUR ∧ int? "const.MLS_PER_SECOND" = some Logical.MLS_PER_SECOND ∧
    int? "const.MLS_PER_MINUTE" = some Logical.MLS_PER_MINUTE ∧ int? "const.MLS_PER_HOUR" = some Logical.MLS_PER_HOUR ∧
    int? "const.DAYS_SHIFT" = some Logical.DAYS_SHIFT := by
  decide

theorem rabin_polynomial : int? "_schema_common.rabin.empty_64" = some (Rabin.EMPTY64 : Int) := by decide

theorem container_constants :
    Gen.byteConsts.lookup "_read_common.MAGIC" = some [0x4F, 0x62, 0x6A, 1] ∧
    int? "_read_common.SYNC_SIZE" = some 16 := by decide

theorem name_sets :
    strSet? "_schema_common.PRIMITIVES" = some ["boolean", "bytes", "double", "float", "int", "long", "null", "string"] ∧
    strSet? "const.NAMED_TYPES" = some ["enum", "error", "fixed", "record"] ∧
    Gen.strConsts.lookup "_schema_py.SYMBOL_REGEX" = some "[A-Za-z_][A-Za-z0-9_]*" ∧
    Gen.strConsts.lookup "_schema_common.RABIN_64" = some "CRC-64-AVRO" ∧
    Gen.strMaps.lookup "_schema_common.JAVA_FINGERPRINT_MAPPING" = some [("MD5", "md5"), ("SHA-256", "sha256")] := by
  decide

/-- each type name the model dispatches on is handled by the function of the matching kind -/
theorem writers_dispatch :
    disp? "_write_py.WRITERS" "null" = some "write_null" ∧ disp? "_write_py.WRITERS" "boolean" = some "write_boolean" ∧
    disp? "_write_py.WRITERS" "string" = some "write_utf8" ∧ disp? "_write_py.WRITERS" "int" = some "write_int" ∧
    disp? "_write_py.WRITERS" "long" = some "write_long" ∧ disp? "_write_py.WRITERS" "float" = some "write_float" ∧
    disp? "_write_py.WRITERS" "double" = some "write_double" ∧ disp? "_write_py.WRITERS" "bytes" = some "write_bytes" ∧
    disp? "_write_py.WRITERS" "fixed" = some "write_fixed" ∧ disp? "_write_py.WRITERS" "enum" = some "write_enum" ∧
    disp? "_write_py.WRITERS" "array" = some "write_array" ∧ disp? "_write_py.WRITERS" "map" = some "write_map" ∧
    disp? "_write_py.WRITERS" "union" = some "write_union" ∧ disp? "_write_py.WRITERS" "record" = some "write_record" := by
  decide

theorem readers_dispatch :
    disp? "_read_py.READERS" "null" = some "read_null" ∧ disp? "_read_py.READERS" "boolean" = some "read_boolean" ∧
    disp? "_read_py.READERS" "string" = some "read_utf8" ∧ disp? "_read_py.READERS" "int" = some "read_int" ∧
    disp? "_read_py.READERS" "long" = some "read_long" ∧ disp? "_read_py.READERS" "float" = some "read_float" ∧
    disp? "_read_py.READERS" "double" = some "read_double" ∧ disp? "_read_py.READERS" "bytes" = some "read_bytes" ∧
    disp? "_read_py.READERS" "fixed" = some "read_fixed" ∧ disp? "_read_py.READERS" "enum" = some "read_enum" ∧
    disp? "_read_py.READERS" "array" = some "read_array" ∧ disp? "_read_py.READERS" "map" = some "read_map" ∧
    disp? "_read_py.READERS" "union" = some "read_union" ∧ disp? "_read_py.READERS" "record" = some "read_record" := by
  decide

theorem skips_dispatch :
    disp? "_read_py.SKIPS" "null" = some "skip_null" ∧ disp? "_read_py.SKIPS" "boolean" = some "skip_boolean" ∧
    disp? "_read_py.SKIPS" "string" = some "skip_utf8" ∧ disp? "_read_py.SKIPS" "int" = some "skip_int" ∧
    disp? "_read_py.SKIPS" "long" = some "skip_long" ∧ disp? "_read_py.SKIPS" "float" = some "skip_float" ∧
    disp? "_read_py.SKIPS" "double" = some "skip_double" ∧ disp? "_read_py.SKIPS" "bytes" = some "skip_bytes" ∧
    disp? "_read_py.SKIPS" "fixed" = some "skip_fixed" ∧ disp? "_read_py.SKIPS" "enum" = some "skip_enum" ∧
    disp? "_read_py.SKIPS" "array" = some "skip_array" ∧ disp? "_read_py.SKIPS" "map" = some "skip_map" ∧
    disp? "_read_py.SKIPS" "union" = some "skip_union" ∧ disp? "_read_py.SKIPS" "record" = some "skip_record" := by
  decide

theorem validators_dispatch :
    disp? "_validation_py.VALIDATORS" "null" = some "_validate_null" ∧
    disp? "_validation_py.VALIDATORS" "boolean" = some "_validate_boolean" ∧
    disp? "_validation_py.VALIDATORS" "string" = some "_validate_string" ∧
    disp? "_validation_py.VALIDATORS" "int" = some "_validate_int" ∧
    disp? "_validation_py.VALIDATORS" "long" = some "_validate_long" ∧
    disp? "_validation_py.VALIDATORS" "float" = some "_validate_float" ∧
    disp? "_validation_py.VALIDATORS" "double" = some "_validate_float" ∧
    disp? "_validation_py.VALIDATORS" "bytes" = some "_validate_bytes" ∧
    disp? "_validation_py.VALIDATORS" "fixed" = some "_validate_fixed" ∧
    disp? "_validation_py.VALIDATORS" "enum" = some "_validate_enum" ∧
    disp? "_validation_py.VALIDATORS" "array" = some "_validate_array" ∧
    disp? "_validation_py.VALIDATORS" "map" = some "_validate_map" ∧
    disp? "_validation_py.VALIDATORS" "union" = some "_validate_union" ∧
    disp? "_validation_py.VALIDATORS" "record" = some "_validate_record" := by
  decide

theorem logical_dispatch :
    disp? "_logical_writers_py.LOGICAL_WRITERS" "long-timestamp-millis" = some "prepare_timestamp_millis" ∧
    disp? "_logical_writers_py.LOGICAL_WRITERS" "long-local-timestamp-millis" = some "prepare_local_timestamp_millis" ∧
    disp? "_logical_writers_py.LOGICAL_WRITERS" "long-timestamp-micros" = some "prepare_timestamp_micros" ∧
    disp? "_logical_writers_py.LOGICAL_WRITERS" "long-local-timestamp-micros" = some "prepare_local_timestamp_micros" ∧
    disp? "_logical_writers_py.LOGICAL_WRITERS" "int-date" = some "prepare_date" ∧
    disp? "_logical_writers_py.LOGICAL_WRITERS" "bytes-decimal" = some "prepare_bytes_decimal" ∧
    disp? "_logical_writers_py.LOGICAL_WRITERS" "fixed-decimal" = some "prepare_fixed_decimal" ∧
    disp? "_logical_writers_py.LOGICAL_WRITERS" "string-uuid" = some "prepare_uuid" ∧
    disp? "_logical_writers_py.LOGICAL_WRITERS" "int-time-millis" = some "prepare_time_millis" ∧
    disp? "_logical_writers_py.LOGICAL_WRITERS" "long-time-micros" = some "prepare_time_micros" ∧
    disp? "_logical_readers_py.LOGICAL_READERS" "long-timestamp-millis" = some "read_timestamp_millis" ∧
    disp? "_logical_readers_py.LOGICAL_READERS" "long-local-timestamp-millis" = some "read_local_timestamp_millis" ∧
    disp? "_logical_readers_py.LOGICAL_READERS" "long-timestamp-micros" = some "read_timestamp_micros" ∧
    disp? "_logical_readers_py.LOGICAL_READERS" "long-local-timestamp-micros" = some "read_local_timestamp_micros" ∧
    disp? "_logical_readers_py.LOGICAL_READERS" "int-date" = some "read_date" ∧
    disp? "_logical_readers_py.LOGICAL_READERS" "bytes-decimal" = some "read_decimal" ∧
    disp? "_logical_readers_py.LOGICAL_READERS" "fixed-decimal" = some "read_decimal" ∧
    disp? "_logical_readers_py.LOGICAL_READERS" "string-uuid" = some "read_uuid" ∧
    disp? "_logical_readers_py.LOGICAL_READERS" "int-time-millis" = some "read_time_millis" ∧
    disp? "_logical_readers_py.LOGICAL_READERS" "long-time-micros" = some "read_time_micros" := by
  decide

theorem block_codecs_dispatch :
    disp? "_write_py.BLOCK_WRITERS" "null" = some "null_write_block" ∧
    disp? "_write_py.BLOCK_WRITERS" "deflate" = some "deflate_write_block" ∧
    disp? "_write_py.BLOCK_WRITERS" "bzip2" = some "bzip2_write_block" ∧
    disp? "_write_py.BLOCK_WRITERS" "xz" = some "xz_write_block" ∧
    disp? "_read_py.BLOCK_READERS" "null" = some "null_read_block" ∧
    disp? "_read_py.BLOCK_READERS" "deflate" = some "deflate_read_block" ∧
    disp? "_read_py.BLOCK_READERS" "bzip2" = some "bzip2_read_block" ∧
    disp? "_read_py.BLOCK_READERS" "xz" = some "xz_read_block" := by
  decide

end Tables
