/-
  Properties/C03.lean — the decoder accepts every specification-valid encoding (any partition of
  arrays and maps into blocks, positive-count and negative-count-plus-byte-size forms, any nesting),
  both when the value is returned and when it is skipped; out-of-range indices and truncated input
  are errors.  Lemmas: Proofs/Accept.lean, Proofs/Extend.lean, Proofs/Mono.lean.
-/
import Proofs.Accept
import Proofs.Extend
import Proofs.SkipExtend

open Binary Spec

/-- **C03 (accept).** every `Spec.Enc`-valid encoding of `v` is decoded to `v`, and the reader stops
    exactly at its end (`rest` untouched), given enough nesting budget -/
theorem c03_accept (env : Env) (s : Schema) (v : Val) (bs rest : Bytes) (h : Enc env s v bs) :
    ∃ g, ∀ f, g ≤ f → readData f env {} s (bs ++ rest) = .ok (v, rest) := by
  obtain ⟨g, hg⟩ := AcceptProofs.accept h rest
  exact ⟨g, fun f hf => MonoProofs.readData_mono_le env {} hf s _ _ hg⟩

/-- **C03 (skip).** the same encodings are skipped exactly (writer-only fields during resolution) -/
theorem c03_skip (env : Env) (s : Schema) (v : Val) (bs rest : Bytes) (h : Enc env s v bs) :
    ∃ g, ∀ f, g ≤ f → skipData f env s (bs ++ rest) = .ok rest := by
  obtain ⟨g, hg⟩ := AcceptProofs.skipAccept h rest
  exact ⟨g, fun f hf => MonoProofs.skipData_mono_le env hf s _ _ hg⟩

/-- reads are length-checked and left-to-right: a successful read never looks past what it consumes -/
theorem c03_read_extend (env : Env) (ro : ROpts) (f : Nat) (s : Schema) (p q : Bytes) (v : Val) (r : Bytes)
    (h : readData f env ro s p = .ok (v, r)) : readData f env ro s (p ++ q) = .ok (v, r ++ q) :=
  ExtendProofs.readData_ext env ro f s p v r q h

/-- **C03 (truncation).** no proper prefix of a valid encoding decodes to a value, whatever the budget -/
theorem c03_prefix (env : Env) (s : Schema) (v : Val) (p q : Bytes) (h : Enc env s v (p ++ q)) (hq : q ≠ []) :
    ∀ f v' r', readData f env {} s p ≠ .ok (v', r') := by
  intro f v' r' hp
  have h1 := ExtendProofs.readData_ext env {} f s p v' r' q hp
  obtain ⟨g, hg⟩ := AcceptProofs.accept h []
  rw [List.append_nil] at hg
  have a := MonoProofs.readData_mono_le env {} (Nat.le_max_left f g) s _ _ h1
  have b := MonoProofs.readData_mono_le env {} (Nat.le_max_right f g) s _ _ hg
  rw [a] at b
  simp only [Except.ok.injEq, Prod.mk.injEq] at b
  have : q = [] := by
    have := congrArg List.length b.2
    simp only [List.length_append, List.length_nil] at this
    exact List.eq_nil_of_length_eq_zero (by omega)
  exact hq this

/-- skips are length-checked too: a successful skip never looks past what it consumes -/
theorem c03_skip_extend (env : Env) (f : Nat) (s : Schema) (p q r : Bytes)
    (h : skipData f env s p = .ok r) : skipData f env s (p ++ q) = .ok (r ++ q) :=
  SkipExtendProofs.skipData_ext env f s p r q h

/-- **C03 (truncation, skipped values).** no proper prefix of a valid encoding can be *skipped* either (a value
    dropped during schema resolution): the decoder raises, it never hands back a shorter stream -/
theorem c03_skip_prefix (env : Env) (s : Schema) (v : Val) (p q : Bytes) (h : Enc env s v (p ++ q)) (hq : q ≠ []) :
    ∀ f r', skipData f env s p ≠ .ok r' := by
  intro f r' hp
  have h1 := SkipExtendProofs.skipData_ext env f s p r' q hp
  obtain ⟨g, hg⟩ := AcceptProofs.skipAccept h []
  rw [List.append_nil] at hg
  have a := MonoProofs.skipData_mono_le env (Nat.le_max_left f g) s _ _ h1
  have b := MonoProofs.skipData_mono_le env (Nat.le_max_right f g) s _ _ hg
  rw [a] at b
  simp only [Except.ok.injEq] at b
  have : q = [] := by
    have := congrArg List.length b
    simp only [List.length_append, List.length_nil] at this
    exact List.eq_nil_of_length_eq_zero (by omega)
  exact hq this

/-- **C03 (indices).** a union branch index or enum index outside the schema's range — negative, or
    not below the number of branches / symbols — is an error, when reading and when skipping -/
theorem c03_bad_index (env : Env) (ro : ROpts) (f : Nat) (bs rest : Bytes) (i : Int)
    (hd : decodeLong bs = .ok (i, rest)) :
    (∀ branches : List Schema, (i < 0 ∨ (branches.length : Int) ≤ i) →
        readData (f + 1) env ro (.union branches) bs = .error .index ∧
        skipData (f + 1) env (.union branches) bs = .error .index) ∧
    (∀ name syms d al, (i < 0 ∨ ((syms : List String).length : Int) ≤ i) →
        readData (f + 1) env ro (.enum name syms d al) bs = .error .index) := by
  have key : ∀ {α : Type} (xs : List α), (i < 0 ∨ (xs.length : Int) ≤ i) → indexChecked xs i = none := by
    intro α xs h
    unfold indexChecked
    rcases h with h | h
    · simp [h]
    · have : ¬ i < 0 := by omega
      simp only [this, ↓reduceIte]
      exact List.getElem?_eq_none (by omega)
  refine ⟨fun branches h => ⟨?_, ?_⟩, fun name syms d al h => ?_⟩
  · simp only [readData, hd, bind, Except.bind]; rw [key branches h]; rfl
  · simp only [skipData, hd, bind, Except.bind]; rw [key branches h]; rfl
  · simp only [readData, hd, bind, Except.bind]; rw [key syms h]; rfl

/-! non-vacuity: `[3, 27]` as `array<long>` in two blocks — one negative-count block with a byte size,
    one positive-count block — is a valid encoding, and the reader returns the list -/
example : ∃ bs, Enc [] (.array (.prim .long false none)) (.list [.int 3, .int 27]) bs ∧
    bs = [0x01, 0x02, 0x06, 0x02, 0x36, 0x00] := by
  have h1 : I64 (-((([Val.int 3] : List Val).length : Nat) : Int)) := by unfold I64; decide
  have h2 : I64 1 := by unfold I64; decide
  have h3 : I64 3 := by unfold I64; decide
  have h27 : I64 27 := by unfold I64; decide
  have h0 : I64 0 := by unfold I64; decide
  have hc : I64 ((([Val.int 27] : List Val).length : Nat) : Int) := by unfold I64; decide
  refine ⟨_, .array h1 (.neg (xs := [.int 3]) (ys := [.int 27]) 1 h2 (by simp) (by decide)
    (.cons (.prim (df := false) (.long 3 h3)) .nil) hc
    (.pos (xs := [.int 27]) (ys := []) (by simp) (by decide)
      (.cons (.prim (df := false) (.long 27 h27)) .nil) h0 .done)), ?_⟩
  decide +kernel

example : (match readData 3 [] {} (.array (.prim .long false none)) [0x01, 0x02, 0x06, 0x02, 0x36, 0x00, 0xAA] with
    | .ok (.list [.int 3, .int 27], [0xAA]) => true
    | _ => false) = true := by decide +kernel
