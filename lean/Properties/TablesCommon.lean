/-
  Properties/TablesCommon.lean — look-ups into the tables that harness/gen_tables.py regenerates from
  /repo's working tree on every run (Gen/Tables.lean).
-/
import Gen.Tables

namespace Tables

def int? (k : String) : Option Int := Gen.ints.lookup k
def disp? (tbl key : String) : Option String := (Gen.dispatch.lookup tbl).bind (·.lookup key)
def strSet? (k : String) : Option (List String) := Gen.strSets.lookup k

end Tables
