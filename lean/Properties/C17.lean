/-
  Properties/C17.lean — results depend only on arguments; inputs intact.

  The table `Gen.effects` is regenerated from /repo's source on every run (harness/gen_effects.py): for
  each public entry point the module-level state objects it may read and write (transitively over
  the call graph), which of those it always rewrites before reading, which parameters it may
  mutate, and mutable default arguments it may mutate.
    * `c17_table_safe`   (obligation on the table, by evaluation): every object an entry point may
      read before writing it is written by *no* entry point;
    * `c17_args_intact`  (obligation on the table): an entry point mutates no parameter other than
      the named-schema dictionary (and output streams / writer metadata), and no mutable default;
    * `c17_history_independent` (generic theorem): for every semantics of the calls that respects
      the table's footprints, the result of any call after any history of calls equals its result
      in the initial store — so it equals the result in a fresh interpreter.
  The table is a syntactic over-approximation, validated dynamically by the harness (snapshots of
  every module-level object and of every argument after every call of generated histories).
-/
import Gen.Effects
import Proofs.Effects

open Effects

def safeTable (es : List Gen.Effect) : Bool :=
  es.all fun e => e.found &&
    e.reads.all fun g => e.writeFirst.contains g || es.all fun e' => !e'.writes.contains g

def argsIntact (es : List Gen.Effect) : Bool :=
  es.all fun e => e.paramWrites.all e.allowedParamWrites.contains && e.mutatedDefaults.isEmpty

/-- the objects whose value before the call can influence it -/
def readsBefore (e : Gen.Effect) : List String := e.reads.filter fun g => !e.writeFirst.contains g

theorem c17_table_safe : safeTable Gen.effects = true := by decide

theorem c17_args_intact : argsIntact Gen.effects = true := by decide

theorem safe_of_table {A V Res} (es : List Gen.Effect) (sem : Gen.Effect → Call A V Res)
    (hr : ∀ e, (sem e).reads = readsBefore e) (hw : ∀ e, (sem e).writes = e.writes)
    (htab : safeTable es = true) : Safe (es.map sem) := by
  intro c hc g hg c' hc'
  simp only [List.mem_map] at hc hc'
  obtain ⟨e, he, rfl⟩ := hc
  obtain ⟨e', he', rfl⟩ := hc'
  rw [hr] at hg
  rw [hw]
  simp only [readsBefore, List.mem_filter, Bool.not_eq_true'] at hg
  simp only [safeTable, List.all_eq_true, Bool.and_eq_true, Bool.or_eq_true, Bool.not_eq_true'] at htab
  have := (htab e he).2 g hg.1
  rcases this with h | h
  · rw [hg.2] at h; exact absurd h (by simp)
  · have := h e' he'
    intro hmem
    rw [List.contains_iff_mem.mpr hmem] at this
    exact absurd this (by simp)

/-- **C17.** -/
theorem c17_history_independent {A V Res} (sem : Gen.Effect → Call A V Res)
    (hr : ∀ e, (sem e).reads = readsBefore e) (hw : ∀ e, (sem e).writes = e.writes)
    (h : List (Call A V Res × A)) (hh : ∀ ca ∈ h, ca.1 ∈ Gen.effects.map sem) (σ₀ : Obj → V)
    (e : Gen.Effect) (he : e ∈ Gen.effects) (a : A) :
    ((sem e).run a (exec σ₀ h)).1 = ((sem e).run a σ₀).1 :=
  history_independent (Gen.effects.map sem) (safe_of_table Gen.effects sem hr hw c17_table_safe) h hh σ₀ (sem e)
    (List.mem_map.mpr ⟨e, he, rfl⟩) a

/-! non-vacuity: a two-object machine in which one call rewrites its scratch object before reading it -/
def demoCall : Call Nat Nat Nat where
  reads := ["table"]
  writes := ["scratch"]
  run := fun a σ => (a + σ "table", fun g => if g = "scratch" then a else σ g)
  frame := by intro a σ g hg; simp only [List.mem_singleton] at hg; simp [hg]
  dep := by intro a σ σ' h; simp [h "table" (by simp)]

example : Safe [demoCall] := by
  intro c hc g hg c' hc'
  simp only [List.mem_singleton] at hc hc'
  subst hc; subst hc'
  simp only [demoCall, List.mem_singleton] at hg ⊢
  subst hg; decide
