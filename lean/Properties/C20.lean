/-
  Properties/C20.lean — generate_one / generate_many.

  The library's random source is modelled as an arbitrary oracle (`Generate.Rand`): the theorems
  quantify over *every* oracle, i.e. over every state of the random source.
    * `c20_generated_conforms` — whatever the oracle returns, a datum `gen_data` returns conforms to
      the schema (Spec.conforms: the documented datum/schema mapping that `validate` implements,
      C10, and that the writers accept, C01/C02), at any depth, through by-name references — for
      plain schemas whose records have pairwise distinct field names;
    * `c20_exact_count`        — `generate_many(schema, n)` yields exactly `n` values.
    * `c20_terminates_tree`    — on a schema without by-name references (a finite tree) `gen_data` returns — a
      value, or the ValueError of an empty enum / union — whatever the oracle does: a budget equal to the schema's
      depth is enough;
    * `c20_nontermination_counterexample` — termination is NOT claimed beyond that, and cannot be: `gen_data` always
      generates ten items per array / map, so on a type that refers to itself through an array it never returns, for
      every oracle and every budget (known finding F6; the record `Node {children: array<Node>}`).
  The conformance theorems speak about the values that are returned.  Logical types: harness only.
-/
import Proofs.Generate
import Proofs.GenerateTerm
import Proofs.Validate

open Generate GenProofs

theorem c20_generated_conforms (env : Env) (ρ : Rand) (henv : env.fieldsOk = true) (fuel : Nat) (s : Schema) (i : Nat)
    (v : Val) (i' : Nat) (hs : s.fieldsOk = true) (h : genData fuel env ρ s i = .ok (v, i')) :
    Spec.conforms fuel env false false s v = true :=
  (gen_conforms env ρ henv fuel s i v i' hs h).1

theorem c20_exact_count (fuel : Nat) (env : Env) (ρ : Rand) (s : Schema) (n i : Nat) (xs : List Val) (i' : Nat)
    (h : genMany fuel env ρ s n i = .ok (xs, i')) : xs.length = n :=
  genMany_length fuel env ρ s n i xs i' h

/-- **C20 (accepted by validate).** whatever the oracle returns, `validate` (non-raising, default options) does not
    answer `False` for a generated datum: whenever it answers, it answers `True` (C10's theorem composed with the
    one above; plain schemas) -/
theorem c20_generated_validates (env : Env) (ρ : Rand) (henv : env.fieldsOk = true) (hpl : env.plain = true) (fuel : Nat)
    (s : Schema) (i : Nat) (v : Val) (i' : Nat) (hs : s.fieldsOk = true) (hp : s.plain = true) (field : String) (b : Bool)
    (h : genData fuel env ρ s i = .ok (v, i'))
    (hv : Validate.validate fuel env { strict := false, disableTuple := false } false field s (some v) = .ok b) : b = true := by
  have h1 := c20_generated_conforms env ρ henv fuel s i v i' hs h
  have h2 := ValidateProofs.validate_eq_conforms env { strict := false, disableTuple := false } hpl fuel field s (some v) b hp hv
  simp only at h2
  rw [← h2]; exact h1

/-! non-vacuity: a record with a union, an enum and an array under a concrete oracle -/
def c20schema : Schema := .record "R" [
  .mk "u" (.union [.prim .null false none, .prim .long false none]) none [],
  .mk "e" (.enum "E" ["A", "B", "C"] none []) none [],
  .mk "xs" (.array (.prim .int false none)) none []] []

example : c20schema.fieldsOk = true ∧ Env.fieldsOk [] = true := by decide
example : (match genData 5 [] (fun k => 7 * k + 3) c20schema 0 with
    | .ok (.dict [(.str "u", _), (.str "e", .str _), (.str "xs", .list xs)], _) => xs.length == 10
    | _ => false) = true := by decide +kernel

/-- non-vacuity of `c20_generated_validates`: the schema is plain and `validate` does answer (`True`) on the generated datum -/
example : c20schema.plain = true ∧ Env.plain [] = true := by decide
#guard (match genData 5 [] (fun k => 7 * k + 3) c20schema 0 with
    | .ok (v, _) => (match Validate.validate 5 [] {} false "" c20schema (some v) with | .ok true => true | _ => false)
    | _ => false)

/-! ### termination -/
open GenTerm

/-- **C20 (termination, tree schemas).** on a schema without by-name references `gen_data` returns (a value or a
    ValueError for an empty enum / union), whatever the random source does: a budget of the schema's depth is enough -/
theorem c20_terminates_tree (env : Env) (ρ : Rand) (fuel : Nat) (s : Schema) (ht : treeS s = true) (hd : depthS s ≤ fuel)
    (i : Nat) : genData fuel env ρ s i ≠ .error .fuel :=
  terminates_tree env ρ fuel s ht hd i

/-- **F6, as a theorem about the model**: the tree type `Node {children: array<Node>}` is never generated, for every
    oracle, every budget and every position of the oracle -/
theorem c20_nontermination_counterexample (ρ : Rand) (fuel i : Nat) :
    genData fuel c20env ρ (.ref "Node") i = .error .fuel ∧ genData fuel c20env ρ c20node i = .error .fuel :=
  ⟨(never_returns ρ fuel i).1, (never_returns ρ fuel i).2.1⟩

/-! non-vacuity of `c20_terminates_tree`: the schema of the example above is a tree of depth 3 -/
example : treeS c20schema = true ∧ depthS c20schema ≤ 3 := by decide
