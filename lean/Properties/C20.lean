/-
  Properties/C20.lean — generate_one / generate_many.

  The library's random source is modelled as an arbitrary oracle (`Generate.Rand`): the theorems
  quantify over *every* oracle, i.e. over every state of the random source.
    * `c20_generated_conforms` — whatever the oracle returns, a datum `gen_data` returns conforms to
      the schema (Spec.conforms: the documented datum/schema mapping that `validate` implements,
      C10, and that the writers accept, C01/C02), at any depth, through by-name references — for
      plain schemas whose records have pairwise distinct field names;
    * `c20_exact_count`        — `generate_many(schema, n)` yields exactly `n` values.
  Termination is NOT claimed: `gen_data` always generates ten items per array / map, so on a type
  that refers to itself through an array or map it never returns (known finding F6); the theorems
  speak about the values that are returned.  Logical types: harness only.
-/
import Proofs.Generate

open Generate GenProofs

theorem c20_generated_conforms (env : Env) (ρ : Rand) (henv : env.fieldsOk = true) (fuel : Nat) (s : Schema) (i : Nat)
    (v : Val) (i' : Nat) (hs : s.fieldsOk = true) (h : genData fuel env ρ s i = .ok (v, i')) :
    Spec.conforms fuel env false false s v = true :=
  (gen_conforms env ρ henv fuel s i v i' hs h).1

theorem c20_exact_count (fuel : Nat) (env : Env) (ρ : Rand) (s : Schema) (n i : Nat) (xs : List Val) (i' : Nat)
    (h : genMany fuel env ρ s n i = .ok (xs, i')) : xs.length = n :=
  genMany_length fuel env ρ s n i xs i' h

/-! non-vacuity: a record with a union, an enum and an array under a concrete oracle -/
def c20schema : Schema := .record "R" [
  .mk "u" (.union [.prim .null false none, .prim .long false none]) none [],
  .mk "e" (.enum "E" ["A", "B", "C"] none []) none [],
  .mk "xs" (.array (.prim .int false none)) none []] []

example : c20schema.fieldsOk = true ∧ Env.fieldsOk [] = true := by decide
example : (match genData 5 [] (fun k => 7 * k + 3) c20schema 0 with
    | .ok (.dict [(.str "u", _), (.str "e", .str _), (.str "xs", .list xs)], _) => xs.length == 10
    | _ => false) = true := by decide +kernel
