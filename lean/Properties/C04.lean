/- Properties/C04.lean — placeholder until the container proofs land -/
import Model.Container
