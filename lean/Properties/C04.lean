/-
  Properties/C04.lean — container files round-trip: `reader` applied to what `Writer` wrote returns
  the header fields supplied and exactly the written records (normalised as in C01), for every codec
  (any sound compress/decompress pair), sync interval, marker and metadata; the records do not depend
  on the grouping into blocks. Lemmas: Proofs/Container.lean, Proofs/Writer.lean, Proofs/Roundtrip.lean.
-/
import Proofs.Writer
import Proofs.Roundtrip
import Proofs.Extend
import Proofs.Header

open Binary Container ContainerProofs WriterProofs

/-- the record codec of a file with schema `s` -/
def fileEnc (fuel : Nat) (env : Env) (o : WOpts) (s : Schema) : Val → WR := writeData fuel env o s
def fileDec (fuel : Nat) (env : Env) (s : Schema) : Bytes → R (Val × Bytes) := readData fuel env {} s
def fileNf (fuel : Nat) (env : Env) (o : WOpts) (s : Schema) (v : Val) : Val :=
  (Spec.normalize fuel env o s v).getD .none

/-- every record with a defined normal form is an admissible `write` operation (this is C01) -/
theorem write_opOk (fuel : Nat) (env : Env) (o : WOpts) (s : Schema) (v : Val)
    (hn : (Spec.normalize fuel env o s v).isSome) :
    OpOk (fileEnc fuel env o s) (fileDec fuel env s) (fileNf fuel env o s) (.write v) := by
  intro w hw
  obtain ⟨nf, hnf⟩ := Option.isSome_iff_exists.mp hn
  have := RoundtripProofs.roundtrip env o fuel s v nf w [] hw hnf
  simpa [fileDec, fileNf, hnf] using this

/-- **C04 (round trip).** Start from any header `hdr` already on the stream, submit any list of
    conforming records, flush: the block area reads back as exactly the normal forms of the records,
    in order, and ends normally — for every sound codec, sync interval, validator setting and marker.
    (`hfit`: every block's count and compressed size are below 2^63.) -/
theorem c04_roundtrip (fuel : Nat) (env : Env) (o : WOpts) (s : Schema) (validate : Val → R Bool) (cfg : WCfg)
    (hs : cfg.codec.Sound) (hsync : cfg.sync.length = 16) (hdr : Bytes) (rs : List Val)
    (hconf : ∀ r ∈ rs, (Spec.normalize fuel env o s r).isSome) :
    let init : WState × Ghost := ({ out := hdr, pending := [], count := 0 }, { blocks := [], pend := [], submitted := [] })
    let sg := runG (fileEnc fuel env o s) (fileDec fuel env s) validate cfg (fileNf fuel env o s) init (rs.map .write)
    let g' := gStep (fileEnc fuel env o s) (fileDec fuel env s) validate cfg (fileNf fuel env o s) sg.1 sg.2 .flush
    (∀ b ∈ g'.blocks, b.count < 2 ^ 63 ∧ (cfg.codec.compress b.payload).length < 2 ^ 63) →
    ∀ k, g'.blocks.length < k →
    ∃ area, (step (fileEnc fuel env o s) validate cfg sg.1 .flush).1.out = hdr ++ area ∧
      readBlocks (fileDec fuel env s) cfg.codec cfg.sync k area = (g'.submitted, .eof) := by
  intro init sg g' hfit k hk
  have hinit : WInv (fileDec fuel env s) cfg hdr init.1 init.2 := by
    refine ⟨by simp [init, flat], by simp [init], rfl, rfl⟩
  have hops : ∀ op ∈ rs.map Op.write, OpOk (fileEnc fuel env o s) (fileDec fuel env s) (fileNf fuel env o s) op := by
    intro op hop
    obtain ⟨r, hr, rfl⟩ := List.mem_map.mp hop
    exact write_opOk fuel env o s r (hconf r hr)
  have hinv := inv_run (fileEnc fuel env o s) (fileDec fuel env s) validate cfg (fileNf fuel env o s)
    (ExtendProofs.readData_ext env {} fuel s) hdr init (rs.map .write) hinit hops
  exact flush_reads_back (fileEnc fuel env o s) (fileDec fuel env s) validate cfg (fileNf fuel env o s)
    (ExtendProofs.readData_ext env {} fuel s) hs hsync hdr sg.1 sg.2 hinv hfit k hk

/-- **C04 (grouping).** the records obtained from a well-formed block area do not depend on how they
    are grouped into blocks: they are the concatenation of the blocks' records -/
theorem c04_partition_independent (dec : Bytes → R (Val × Bytes)) (c : Codec) (hs : c.Sound) (sync : Bytes)
    (hsync : sync.length = 16) (bs : List Blk) (hok : ∀ b ∈ bs, b.Ok dec c) (k : Nat) (hk : bs.length < k) :
    readBlocks dec c sync k (flat c sync bs) = (bs.flatMap (·.recs), .eof) :=
  read_flat dec c hs sync hsync bs hok k hk

/-- **C04 (header).** the header written at creation is read back with exactly the metadata map
    (schema JSON, codec name, user metadata — byte for byte) and sync marker supplied, and leaves the
    stream at the first block; the file begins with the magic -/
theorem c04_header_roundtrip (metadata : List (String × Bytes)) (sync rest hb : Bytes)
    (hw : writeHeader metadata sync = ⟨hb, none⟩) (hsync : sync.length = 16)
    (hkeys : (metadata.map (·.1)).Nodup) (hlen : metadata.length < Spec.LIMIT)
    (hsmall : ∀ e ∈ metadata, (utf8Enc e.1).length < Spec.LIMIT ∧ e.2.length < Spec.LIMIT) :
    readHeader (hb ++ rest) = .ok ({ metadata := metadata, sync := sync }, rest) :=
  HeaderProofs.header_roundtrip metadata sync rest hb hw hsync hkeys hlen hsmall

example : (writeHeader [("avro.schema", [0x22]), ("avro.codec", [0x6e])] (List.replicate 16 9)).err = none ∧
    isAvro (writeHeader [("avro.schema", [0x22]), ("avro.codec", [0x6e])] (List.replicate 16 9)).out = true := by
  decide +kernel
