/-
  Properties/TablesLogical.lean — obligations against the generated tables (Gen/Tables.lean), closed by evaluation.
-/
import Properties.TablesCommon
import Model.Logical
namespace Tables

theorem time_constants :
    int? "const.MCS_PER_SECOND" = some Logical.MCS_PER_SECOND ∧ int? "const.MCS_PER_MINUTE" = some Logical.MCS_PER_MINUTE ∧
    int? "const.MCS_PER_HOUR" = some Logical.MCS_PER_HOUR ∧ int? "const.MLS_PER_SECOND" = some Logical.MLS_PER_SECOND ∧
    int? "const.MLS_PER_MINUTE" = some Logical.MLS_PER_MINUTE ∧ int? "const.MLS_PER_HOUR" = some Logical.MLS_PER_HOUR ∧
    int? "const.DAYS_SHIFT" = some Logical.DAYS_SHIFT := by
  decide

theorem logical_dispatch :
    disp? "_logical_writers_py.LOGICAL_WRITERS" "long-timestamp-millis" = some "prepare_timestamp_millis" ∧
    disp? "_logical_writers_py.LOGICAL_WRITERS" "long-local-timestamp-millis" = some "prepare_local_timestamp_millis" ∧
    disp? "_logical_writers_py.LOGICAL_WRITERS" "long-timestamp-micros" = some "prepare_timestamp_micros" ∧
    disp? "_logical_writers_py.LOGICAL_WRITERS" "long-local-timestamp-micros" = some "prepare_local_timestamp_micros" ∧
    disp? "_logical_writers_py.LOGICAL_WRITERS" "int-date" = some "prepare_date" ∧
    disp? "_logical_writers_py.LOGICAL_WRITERS" "bytes-decimal" = some "prepare_bytes_decimal" ∧
    disp? "_logical_writers_py.LOGICAL_WRITERS" "fixed-decimal" = some "prepare_fixed_decimal" ∧
    disp? "_logical_writers_py.LOGICAL_WRITERS" "string-uuid" = some "prepare_uuid" ∧
    disp? "_logical_writers_py.LOGICAL_WRITERS" "int-time-millis" = some "prepare_time_millis" ∧
    disp? "_logical_writers_py.LOGICAL_WRITERS" "long-time-micros" = some "prepare_time_micros" ∧
    disp? "_logical_readers_py.LOGICAL_READERS" "long-timestamp-millis" = some "read_timestamp_millis" ∧
    disp? "_logical_readers_py.LOGICAL_READERS" "long-local-timestamp-millis" = some "read_local_timestamp_millis" ∧
    disp? "_logical_readers_py.LOGICAL_READERS" "long-timestamp-micros" = some "read_timestamp_micros" ∧
    disp? "_logical_readers_py.LOGICAL_READERS" "long-local-timestamp-micros" = some "read_local_timestamp_micros" ∧
    disp? "_logical_readers_py.LOGICAL_READERS" "int-date" = some "read_date" ∧
    disp? "_logical_readers_py.LOGICAL_READERS" "bytes-decimal" = some "read_decimal" ∧
    disp? "_logical_readers_py.LOGICAL_READERS" "fixed-decimal" = some "read_decimal" ∧
    disp? "_logical_readers_py.LOGICAL_READERS" "string-uuid" = some "read_uuid" ∧
    disp? "_logical_readers_py.LOGICAL_READERS" "int-time-millis" = some "read_time_millis" ∧
    disp? "_logical_readers_py.LOGICAL_READERS" "long-time-micros" = some "read_time_micros" := by
  decide

end Tables
