/-
  Properties/C08.lean — schema resolution: the reader-schema paths of `read_data` (model
  Resolve.readR) against the specification reader Spec.resolveRead (Spec/Resolve.lean, written from
  the specification's rule list).

  PROVED (one resolution step each, for every input):
    * `c08_promotions`      — the promotion pairs `match_types` accepts and the conversions
                              `maybe_promote` applies are the specification's, for all 64 pairs;
    * `c08_primitives`      — a primitive read under a primitive reader type: equal to the
                              specification's reader on every byte string (value, promoted value,
                              schema-resolution error, decoding error);
    * `c08_enum_default`    — unknown symbol → reader default → else schema-resolution error;
    * `c08_field_matching`  — writer-field loop of `read_record` = the specification's: match by
                              name, else by reader alias, regardless of order; others skipped;
                              the dict-based lookup is the specification's under unambiguous names;
  NOT YET PROVED (full statement kept visible as `C08_full`): the composition of those steps
  through arrays, maps, records, unions and named types at any depth (`readR = Spec.resolveRead`
  on closed, plain schemas).  That clause is covered by the correspondence/oracle runs only
  (harness/props/c08.py compares implementation, model and specification reader on evolved schemas).
-/
import Proofs.Resolve

open Binary Resolve ResolveProofs

/-- the full statement (not proved yet): on closed plain schemas the model's resolving reader is the
    specification's, result for result (fuel exhaustion aside) -/
def C08_full : Prop :=
  ∀ (fuel : Nat) (wenv renv : Env) (ro : ROpts) (w r : Schema) (bs : Bytes) (res : R (Val × Bytes)),
    NoPrimKeys wenv → NoPrimKeys renv →
    readR fuel wenv renv ro w r bs = res → res ≠ .error .fuel →
    ∃ fuel', Spec.resolveRead fuel' wenv renv w r bs = res

theorem c08_promotions (wp rp : Prim) (v : Val) :
    promotes wp.name rp.name = Spec.promotable wp rp ∧
    maybePromote v wp.name rp.name = Spec.promote wp rp v :=
  ⟨promotes_eq wp rp, promote_eq wp rp v⟩

theorem c08_primitives (fuel : Nat) (wenv renv : Env) (ro : ROpts) (wp rp : Prim) (bs : Bytes)
    (hw : NoPrimKeys wenv) :
    readR (fuel+2) wenv renv ro (.prim wp false none) (.prim rp false none) bs =
      Spec.resolveRead (fuel+2) wenv renv (.prim wp false none) (.prim rp false none) bs :=
  readR_prim fuel wenv renv ro wp rp bs hw

theorem c08_enum_default (sym rn : String) (rsyms : List String) (rdef : Option Val) (ral : List String) :
    resolveSymbol sym (.enum rn rsyms rdef ral) =
      (if rsyms.contains sym then pure (.str sym)
       else match rdef with
         | some d => if d.truthy then pure d else throw .resolution
         | none => throw .resolution) :=
  resolveSymbol_enum sym rn rsyms rdef ral

theorem c08_field_matching (rd : Schema → Schema → Bytes → R (Val × Bytes)) (sk : Schema → Bytes → R Bytes)
    (rfs wfs : List Field) (h : FieldsUnambiguous rfs) (bs : Bytes) (acc : List (Val × Val)) :
    readFieldsRWith rd sk rfs wfs bs acc = Spec.fieldsWith rd sk rfs wfs bs acc :=
  fields_eq rd sk rfs (findReaderField_eq rfs h) wfs bs acc

/-! non-vacuity -/
example : NoPrimKeys [("ns.R", .record "ns.R" [] [])] := by intro p; cases p <;> decide
example : FieldsUnambiguous [.mk "a" (.prim .int false none) none ["old"], .mk "b" (.prim .int false none) none []] := by
  constructor
  · intro a ha b hb; simp at ha hb; rcases ha with rfl | rfl <;> rcases hb with rfl | rfl <;> simp [Field.name]
  · intro n a ha b hb; simp at ha hb; rcases ha with rfl | rfl <;> rcases hb with rfl | rfl <;> simp [Field.aliases]
example : (match readR 5 [] [] {} (.prim .int false none) (.prim .double false none) [0x0a] with
    | .ok (.float _, []) => true | _ => false) = true := by decide +kernel
example : (match readR 5 [] [] {} (.prim .long false none) (.prim .int false none) [0x0a] with
    | .error .resolution => true | _ => false) = true := by decide +kernel
