/- Properties/C08.lean — placeholder until the resolution proofs land -/
import Spec.Resolve
import Model.Resolve
