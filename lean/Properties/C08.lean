/-
  Properties/C08.lean — schema resolution: the reader-schema paths of `read_data` (model
  Resolve.readR) against the specification reader Spec.resolveRead (Spec/Resolve.lean, written from
  the specification's rule list).

  PROVED (one resolution step each, for every input):
    * `c08_promotions`      — the promotion pairs `match_types` accepts and the conversions
                              `maybe_promote` applies are the specification's, for all 64 pairs;
    * `c08_primitives`      — a primitive read under a primitive reader type: equal to the
                              specification's reader on every byte string (value, promoted value,
                              schema-resolution error, decoding error);
    * `c08_enum_default`    — unknown symbol → reader default → else schema-resolution error;
    * `c08_field_matching`  — writer-field loop of `read_record` = the specification's: match by
                              name, else by reader alias, regardless of order; others skipped;
                              the dict-based lookup is the specification's under unambiguous names;
  PROVED (the decision logic, for every pair of schemas, any nesting, inline or by reference):
    * `c08_match_eq_spec`   — whenever `match_types` returns, it returns the specification's
                              "schemas match" (Spec.matchesS): same primitive or promotable; arrays / maps
                              whose item / value types match; definitions of the same kind whose
                              unqualified names agree or whose writer name is a reader alias, fixed of the
                              same size; a name stands for its definition on either side;
    * `c08_pick_eq_spec`    — the branch of a reader union found through `_reader_branches` and
                              `match_types` is the branch the specification's rule picks (the writer's
                              own type first — the one with the writer's full name before namesakes —,
                              else the first reachable by promotion);
    hypotheses: the two named-schema tables are what `parse_schema` builds (`EnvWF`: entries are
    definitions registered under their own full names, no built-in type name is a key) and the schemas
    are closed in them (`MClosed`);
  PROVED (the composition, for every pair of schemas, every byte string, any nesting depth):
    * `c08_resolve_eq_spec` — every definite result of `read_data` with a reader schema (model
                              Resolve.readR: value + rest, schema-resolution error, decoding error) is the
                              specification reader's result (Spec.resolveRead), through arrays, maps,
                              records (field matching, skipping, defaults), unions on either side and
                              named types inline or by reference.  "Definite" = not the model's own
                              nesting-fuel exhaustion (the fuel bounds the nesting depth only; the
                              driver runs with 400).
    hypotheses of the composition (`ResolveFull.Good`, checked on every harness case by the driver's
    `c08.hyp` operation, see evidence): the tables are `parse_schema`'s (`EnvWF`); every name is defined;
    the writer schema carries no logical type (logical types are C05's subject); reader definitions are
    the reader table's entries; a reader record's fields are told apart by name and by alias; a union is
    not an immediate member of a union (the specification forbids it).
-/
import Proofs.ResolveFull

import Proofs.ResolveMatch

open Binary Resolve ResolveProofs

open ResolveMatch ResolveFull in
/-- on well-formed schemas the model's resolving reader is the specification's, result for result
    (the model's own fuel exhaustion aside) -/
theorem c08_resolve_eq_spec (fuel : Nat) (wenv renv : Env) (ro : ROpts) (w r : Schema) (bs : Bytes) (res : R (Val × Bytes))
    (hwf : EnvWF wenv) (hrf : EnvWF renv) (hgw : EnvGood wenv false) (hgr : EnvGood renv true)
    (hw : Good wenv false w) (hr : Good renv true r)
    (h : readR fuel wenv renv ro w r bs = res) (hd : res ≠ .error .fuel) :
    ∃ fuel', Spec.resolveRead fuel' wenv renv w r bs = res := by
  subst h
  exact ⟨2 * fuel, readR_eq_spec wenv renv hwf hrf hgw hgr ro fuel w r hw hr bs hd⟩

theorem c08_promotions (wp rp : Prim) (v : Val) :
    promotes wp.name rp.name = Spec.promotable wp rp ∧
    maybePromote v wp.name rp.name = Spec.promote wp rp v :=
  ⟨promotes_eq wp rp, promote_eq wp rp v⟩

theorem c08_primitives (fuel : Nat) (wenv renv : Env) (ro : ROpts) (wp rp : Prim) (bs : Bytes)
    (hw : NoPrimKeys wenv) :
    readR (fuel+2) wenv renv ro (.prim wp false none) (.prim rp false none) bs =
      Spec.resolveRead (fuel+2) wenv renv (.prim wp false none) (.prim rp false none) bs :=
  readR_prim fuel wenv renv ro wp rp bs hw

theorem c08_enum_default (sym rn : String) (rsyms : List String) (rdef : Option Val) (ral : List String) :
    resolveSymbol sym (.enum rn rsyms rdef ral) =
      (if rsyms.contains sym then pure (.str sym)
       else match rdef with
         | some d => if d.truthy then pure d else throw .resolution
         | none => throw .resolution) :=
  resolveSymbol_enum sym rn rsyms rdef ral

theorem c08_field_matching (rd : Schema → Schema → Bytes → R (Val × Bytes)) (sk : Schema → Bytes → R Bytes)
    (rfs wfs : List Field) (h : FieldsUnambiguous rfs) (bs : Bytes) (acc : List (Val × Val)) :
    readFieldsRWith rd sk rfs wfs bs acc = Spec.fieldsWith rd sk rfs wfs bs acc :=
  fields_eq rd sk rfs (findReaderField_eq rfs h) wfs bs acc

open ResolveMatch in
theorem c08_match_eq_spec (wenv renv : Env) (hwf : EnvWF wenv) (hrf : EnvWF renv) (f : Nat) (w r : Schema) (b : Bool)
    (hw : MClosed wenv false w) (hr : MClosed renv true r) (h : matchTypes f wenv renv w r = .ok b) :
    b = Spec.matchesS wenv renv w r :=
  mt_spec wenv renv hwf hrf f w r b hw hr h

open ResolveMatch in
theorem c08_pick_eq_spec (wenv renv : Env) (hwf : EnvWF wenv) (hrf : EnvWF renv) (f : Nat) (w : Schema) (rs : List Schema)
    (o : Option Schema) (hw : MClosed wenv false w) (huw : isList w = false)
    (hrs : ∀ b ∈ rs, MClosed renv true b ∧ isList b = false)
    (h : firstMatchWith (matchTypes f wenv renv) w (readerBranches wenv renv w rs) = .ok o) :
    o = Spec.pickBranch wenv renv w rs :=
  pick_spec wenv renv hwf hrf f w rs o hw huw hrs h

/-! non-vacuity -/
open ResolveMatch in
example : EnvWF [("ns.E", .enum "ns.E" ["A"] none [])] := by
  constructor
  · intro n hn
    simp only [Env.get?]
    have : ("ns.E" == n) = false := by
      cases hc : ("ns.E" == n) with
      | false => rfl
      | true => simp only [beq_iff_eq] at hc; subst hc; exact absurd hn (by decide)
    simp [this]
  · intro n d h
    simp only [Env.get?] at h
    split at h
    · rename_i hk
      simp only [Option.some.injEq] at h; subst h
      have : n = "ns.E" := (beq_iff_eq.mp hk).symm
      subst this
      exact ⟨rfl, rfl⟩
    · simp at h
-- (`#guard`: compiled evaluation; the kernel cannot unfold `String.splitOn` in `unqual`)
#guard (match matchTypes 3 [("ns.E", .enum "ns.E" ["A"] none [])] [("other.E", .enum "other.E" ["A", "B"] none [])]
      (.array (.ref "ns.E")) (.array (.ref "other.E")) with
    | .ok true => true | _ => false)

example : NoPrimKeys [("ns.R", .record "ns.R" [] [])] := by intro p; cases p <;> decide
example : FieldsUnambiguous [.mk "a" (.prim .int false none) none ["old"], .mk "b" (.prim .int false none) none []] := by
  constructor
  · intro a ha b hb; simp at ha hb; rcases ha with rfl | rfl <;> rcases hb with rfl | rfl <;> simp [Field.name]
  · intro n a ha b hb; simp at ha hb; rcases ha with rfl | rfl <;> rcases hb with rfl | rfl <;> simp [Field.aliases]
example : (match readR 5 [] [] {} (.prim .int false none) (.prim .double false none) [0x0a] with
    | .ok (.float _, []) => true | _ => false) = true := by decide +kernel
example : (match readR 5 [] [] {} (.prim .long false none) (.prim .int false none) [0x0a] with
    | .error .resolution => true | _ => false) = true := by decide +kernel

/-! non-vacuity of `c08_resolve_eq_spec`: a record with a union-of-array field read through a reader
    record with reordered fields, promotions, a reordered union, an alias and a defaulted field -/
section
open Binary Resolve ResolveProofs ResolveMatch ResolveFull
theorem envWF_single (k : String) (d : Schema) (hk : AVRO_TYPES.contains k = false) (hn : d.isNamedDef = true)
    (hd : d.defName? = some k) : EnvWF [(k, d)] := by
  constructor
  · intro n hn'
    simp only [Env.get?]
    have : (k == n) = false := by
      cases hc : (k == n) with
      | false => rfl
      | true => simp only [beq_iff_eq] at hc; subst hc; rw [hk] at hn'; cases hn'
    simp [this]
  · intro n d' h
    simp only [Env.get?] at h
    split at h
    · rename_i hkn
      simp only [Option.some.injEq] at h; subst h
      have : k = n := beq_iff_eq.mp hkn
      subst this
      exact ⟨hn, hd⟩
    · simp at h

def exW : Schema := .record "R" [.mk "a" (.prim .int false none) none [],
    .mk "u" (.union [.prim .null false none, .array (.prim .string false none)]) none []] []
def exR : Schema := .record "R" [.mk "u" (.union [.array (.prim .bytes false none), .prim .null false none]) none [],
    .mk "a" (.prim .double false none) none [], .mk "c" (.prim .string false none) (some (.str "x")) ["old"]] []

example : EnvWF [("R", exW)] ∧ EnvWF [("R", exR)] :=
  ⟨envWF_single _ _ (by decide) rfl rfl, envWF_single _ _ (by decide) rfl rfl⟩

theorem exW_good : Good [("R", exW)] false exW := by
  simp [exW, Good, GoodFields, GoodList, isList]
theorem exR_unamb : FieldsUnambiguous [.mk "u" (.union [.array (.prim .bytes false none), .prim .null false none]) none [],
    .mk "a" (.prim .double false none) none [], .mk "c" (.prim .string false none) (some (.str "x")) ["old"]] := by
  constructor
  · intro a ha b hb; simp at ha hb; rcases ha with rfl | rfl | rfl <;> rcases hb with rfl | rfl | rfl <;> simp [Field.name]
  · intro n a ha b hb; simp at ha hb; rcases ha with rfl | rfl | rfl <;> rcases hb with rfl | rfl | rfl <;> simp [Field.aliases]
theorem exR_good : Good [("R", exR)] true exR := by
  refine ⟨fun _ => ⟨by simp [exR, Env.get?], by simp [Field.name], exR_unamb⟩, ?_⟩
  simp [Good, GoodFields, GoodList, isList]
example : EnvGood [("R", exW)] false ∧ EnvGood [("R", exR)] true := by
  constructor
  · intro n d h
    simp only [Env.get?] at h
    split at h
    · simp only [Option.some.injEq] at h; subst h; exact exW_good
    · simp at h
  · intro n d h
    simp only [Env.get?] at h
    split at h
    · simp only [Option.some.injEq] at h; subst h; exact exR_good
    · simp at h
example : Good [("R", exW)] false (.ref "R") ∧ Good [("R", exR)] true (.ref "R") := ⟨⟨exW, rfl⟩, ⟨exR, rfl⟩⟩
-- the record {a: 5, u: ["k"]} under the writer schema, read through the reader schema
#guard (match readR 6 [("R", exW)] [("R", exR)] {} (.ref "R") (.ref "R") [0x0a, 0x02, 0x02, 0x02, 0x6b, 0x00] with
    | .ok (.dict [(.str "a", .float _), (.str "u", .list [.bytes [0x6b]]), (.str "c", .str "x")], []) => true | _ => false)
end
