/-
  Properties/C12.lean — raw, parsed and piecewise-parsed schemas.

  Every public operation starts with `parse_schema(schema, named_schemas)` and then works on the
  pair (parsed schema, named-schema dictionary) only.  What is proved:
    * `c12_marked_returned_unchanged` — an object that carries the parsed marker is returned as it
      is, and its dictionary is reproduced in a fresh one (so every operation sees the same pair as
      the call that produced it: raw ≡ parsed for record schemas, by construction);
    * `c12_name_is_definition_{read,write,validate,skip}` — where a schema refers to a named type by
      name, each operation does exactly what it does on the definition the dictionary holds: a
      piecewise-parsed schema (names only) and the inlined schema are indistinguishable to the codec
      and the validator as long as the dictionary holds the same definitions;
    * `c12_later_definitions_harmless` — further definitions in the shared dictionary (pieces parsed
      before or after) never change the result of reading or skipping.
    * `c12_piece_is_entry` — parsing a named-type definition (a piece, or the same definition met
      inline) leaves the dictionary mapping its full name to exactly the parsed definition returned;
      `c12_piece_then_name` — hence a later reference by that name is read, written and skipped exactly
      like the definition itself;
  NOT proved: that `parse_schema` of the inlined schema and of the pieces fills the dictionary with
  the same definitions for the *other* names (checked by the harness: same bytes / values / validation verdicts for raw,
  parsed, twice-parsed and piecewise forms), and idempotence for unmarked parsed forms (harness).
  Known finding F4: canonical form and container header of a piecewise-parsed schema.
-/
import Model.Parse
import Model.Validate
import Proofs.EnvMono
import Proofs.Piece

open Parse Binary

/-- dictionary entries are registered under distinct names -/
def EnvDistinct (env : Env) : Prop := (env.map Prod.fst).Nodup

theorem foldl_set_append (named : Env) : ∀ (pre : Env), (∀ kv ∈ named, ∀ p ∈ pre, p.1 ≠ kv.1) → EnvDistinct named →
    named.foldl (fun e kv => e.set kv.1 kv.2) pre = pre ++ named := by
  induction named with
  | nil => intro pre _ _; simp
  | cons kv rest ih =>
    intro pre hfresh hd
    have hset : pre.set kv.1 kv.2 = pre ++ [(kv.1, kv.2)] := by
      have : ∀ p ∈ pre, p.1 ≠ kv.1 := fun p hp => hfresh kv (by simp) p hp
      clear hfresh ih hd
      induction pre with
      | nil => rfl
      | cons q qs ihq =>
        obtain ⟨k', s'⟩ := q
        have hne : k' ≠ kv.1 := this (k', s') (by simp)
        simp only [Env.set, beq_iff_eq, hne, if_false, List.cons_append]
        rw [ihq (fun p hp => this p (by simp [hp]))]
    simp only [List.foldl_cons, hset]
    unfold EnvDistinct at hd
    simp only [List.map_cons, List.nodup_cons] at hd
    rw [ih (pre ++ [(kv.1, kv.2)]) ?_ hd.2]
    · simp
    · intro kv' hkv' p hp
      simp only [List.mem_append, List.mem_singleton] at hp
      rcases hp with hp | rfl
      · exact hfresh kv' (by simp [hkv']) p hp
      · intro heq
        exact hd.1 (by simp only [List.mem_map]; exact ⟨kv', hkv', heq.symm⟩)

/-- **C12 (parsed ≡ raw for marked objects).** -/
theorem c12_marked_returned_unchanged (fuel : Nat) (s : Schema) (named : Env) (hd : EnvDistinct named) :
    parseSchema fuel (.marked s named) [] = .ok (s, named) := by
  simp only [parseSchema]
  rw [foldl_set_append named [] (by simp) hd]
  simp

/-- **C12 (a name is its definition)** — reading -/
theorem c12_name_is_definition_read (fuel : Nat) (env : Env) (ro : ROpts) (n : String) (d : Schema) (bs : Bytes)
    (h : env.get? n = some d) : readData (fuel+1) env ro (.ref n) bs = readData fuel env ro d bs := by
  simp only [readData, h]

/-- writing -/
theorem c12_name_is_definition_write (fuel : Nat) (env : Env) (o : WOpts) (n : String) (d : Schema) (v : Val)
    (h : env.get? n = some d) : writeData (fuel+1) env o (.ref n) v = writeData fuel env o d v := by
  simp only [writeData, h]

/-- skipping -/
theorem c12_name_is_definition_skip (fuel : Nat) (env : Env) (n : String) (d : Schema) (bs : Bytes)
    (h : env.get? n = some d) : skipData (fuel+1) env (.ref n) bs = skipData fuel env d bs := by
  simp only [skipData, h]

/-- validating (any datum that is present) -/
theorem c12_name_is_definition_validate (fuel : Nat) (env : Env) (o : VOpts) (re : Bool) (field : String) (n : String)
    (d : Schema) (v : Val) (h : env.get? n = some d) :
    Validate.validateNode (Validate.validate fuel env o re) env o field (.ref n) v =
      Validate.validate fuel env o re field d (some v) := by
  simp only [Validate.validateNode, h]

/-- **C12 (shared dictionary).** -/
theorem c12_later_definitions_harmless (env env' : Env) (hle : EnvMono.EnvLe env env') (ro : ROpts) (fuel : Nat)
    (s : Schema) (bs : Bytes) :
    (∀ r, readData fuel env ro s bs = .ok r → readData fuel env' ro s bs = .ok r) ∧
    (∀ r, skipData fuel env s bs = .ok r → skipData fuel env' s bs = .ok r) :=
  ⟨EnvMono.readData_env env env' hle ro fuel s bs, EnvMono.skipData_env env env' hle fuel s bs⟩

/-- **C12 (a piece is the dictionary's entry).** -/
theorem c12_piece_is_entry (fuel : Nat) (kv : List (Val × Val)) (ns ty : String) (st st' : St) (dflt : Option Val)
    (ign : Bool) (lt : Option LogT) (s : Schema)
    (hty : dictType kv = .ok ty) (hl : parseLogical kv (ty == "fixed") = .ok lt)
    (hnamed : ty = "enum" ∨ ty = "fixed" ∨ ty = "record")
    (h : parse (fuel+1) (.dict kv) ns st dflt ign = .ok (s, st')) :
    ∃ ns' full, schemaName kv ns = .ok (ns', full) ∧ st'.env.get? full = some s ∧ s.defName? = some full := by
  rcases hnamed with rfl | rfl | rfl
  · rw [RejectProofs.route_enum fuel kv ns st dflt ign lt hty hl] at h
    exact PieceProofs.enum_entry kv ns st st' dflt ign s h
  · rw [RejectProofs.route_fixed fuel kv ns st dflt ign lt hty hl] at h
    exact PieceProofs.fixed_entry kv ns st st' dflt ign lt s h
  · rw [RejectProofs.route_record fuel kv ns st dflt ign lt hty hl] at h
    exact PieceProofs.record_entry _ kv ns st st' dflt ign s h

/-- … so a reference to the piece by name behaves like the definition in the codec -/
theorem c12_piece_then_name (fuel : Nat) (kv : List (Val × Val)) (ns ty : String) (st st' : St) (dflt : Option Val)
    (ign : Bool) (lt : Option LogT) (s : Schema)
    (hty : dictType kv = .ok ty) (hl : parseLogical kv (ty == "fixed") = .ok lt)
    (hnamed : ty = "enum" ∨ ty = "fixed" ∨ ty = "record")
    (h : parse (fuel+1) (.dict kv) ns st dflt ign = .ok (s, st')) :
    ∃ full, ∀ (f : Nat) (ro : ROpts) (o : WOpts) (bs : Bytes) (v : Val),
      readData (f+1) st'.env ro (.ref full) bs = readData f st'.env ro s bs ∧
      writeData (f+1) st'.env o (.ref full) v = writeData f st'.env o s v ∧
      skipData (f+1) st'.env (.ref full) bs = skipData f st'.env s bs := by
  obtain ⟨_, full, _, hg, _⟩ := c12_piece_is_entry fuel kv ns ty st st' dflt ign lt s hty hl hnamed h
  exact ⟨full, fun f ro o bs v => ⟨c12_name_is_definition_read f _ ro full s bs hg,
    c12_name_is_definition_write f _ o full s v hg, c12_name_is_definition_skip f _ full s bs hg⟩⟩

/-! non-vacuity -/
example : EnvDistinct [("a.R", .record "a.R" [] []), ("E", .enum "E" ["A"] none [])] := by
  simp [EnvDistinct]
example : EnvMono.EnvLe [("E", .enum "E" ["A"] none [])] [("a.R", .record "a.R" [] []), ("E", .enum "E" ["A"] none [])] := by
  intro n s h
  simp only [Env.get?] at h ⊢
  by_cases hn : ("E" == n) = true
  · have hn' : n = "E" := (beq_iff_eq.mp hn).symm
    subst hn'
    simpa using h
  · simp [hn] at h
