/-
  Properties/C15.lean — the JSON codec.

  PROVED
    * `c15_encode_eq_spec` — on the core fragment (floating-point fields hold floating-point values,
      map keys are not empty, no logical types) the value `json_writer` emits (model Json.encode:
      the writer's traversal with the JSON encoder's calls) is exactly the specification's JSON
      encoding Spec.jsonEncode of the datum — null as null, other union values wrapped as
      {branch name: value} with full names for named types, bytes/fixed as strings of code points,
      enums as symbols, maps/records as objects in order, arrays as arrays — for the branches
      `write_union` selects (C09 is the property about that selection), at any depth;
    * `c15_core_is_spec`    — on that fragment the core encoder and the full specification encoder
      agree (the fragment only removes inputs, it does not change outputs);
    * `c15_bytes_strings`   — a byte string written as code points 0–255 decodes back to itself;
    * `c15_read_back`       — the read-back clause, at any depth: on that fragment the value `json_writer`
      emits is the specification's encoding AND `json_reader` (model Json.decode: the reader's traversal
      with the JSON decoder's calls) applied to it with the same schema returns the record as written
      (Spec.written: absent fields replaced by their defaults, a union value as the value of the branch
      it was written under, sequences as lists, bytearray as bytes; numbers, strings, keys as given);
      the side conditions are those that make "the record as written" defined: distinct dict keys,
      distinct field names, no two union branches of one name, named-schema table holding named types.
    * `c15_machine_value`, `c15_machine_json_writer`, `c15_machine_emits_spec` — the WRITE side of the grammar machine
      (fastavro/io/parser.py: grammar built from the schema, symbol stack, lazily executed actions, root symbol
      restarting the grammar for every record; AvroJSONEncoder: frame stack, `_current`, stale `_key`, `_records`,
      `flush`), modelled step by step in Model/JsonMachine.lean, computes exactly the function-level encoding —
      hence the specification's — for every schema in which no record is empty (`nonEmptyRec`) and the recursion
      guard of `_process_record` stays off (`noSelf`), every non-empty list of records, any nesting depth, provided
      the objects of the result have distinct non-empty keys (`KeysOk`: always true of Python dicts with distinct
      field names);
    * `c15_machine_counterexample_*` — outside those hypotheses the machine really derails, as kernel-checked
      evaluations of the model: an empty record list, a record without fields in final position, a linked list of
      depth 3 (findings F33, F5b, F5a); the implementation is compared with the model on these shapes on every run.
  NOT PROVED (checked by the harness on the implementation and against the model): agreement with the
  binary codec (C01's normal form differs from `Spec.written` only in single-precision rounding and
  int → float conversion under float/double), defaults of fields absent from a JSON text that
  `json_writer` did not produce; the READ side of the grammar machine (AvroJSONDecoder driven by `read_data`), which
  is modelled (JM.decodeAll) and tied by correspondence only — see known findings F5a–d, F14, F27, F28, F33.
-/
import Proofs.Json
import Proofs.JsonBack
import Proofs.JsonMachine

open Binary Json JsonProofs

theorem c15_encode_eq_spec (env : Env) (o : WOpts) (fuel : Nat) (s : Schema) (v j : Val)
    (h : Spec.jsonEncodeCore (fun f bs v => (choose f env o bs v).toOption) fuel env s v = some j) :
    encode true fuel env o s v = .ok j :=
  encode_eq_spec env o fuel s v j h

theorem c15_core_is_spec (pick : Nat → List Schema → Val → Option (Nat × Val)) (env : Env) (fuel : Nat) (s : Schema) (v j : Val)
    (h : Spec.jsonEncodeCore pick fuel env s v = some j) : Spec.jsonEncode pick fuel env s v = some j :=
  core_is_spec pick env fuel s v j h

theorem c15_bytes_strings (b : Bytes) : latin1Enc (latin1Dec b) = some b ∧ Spec.codePoints b = latin1Dec b :=
  ⟨latin1_roundtrip b, rfl⟩

open JsonBack in
theorem c15_read_back (env : Env) (he : EnvNamed env) (o : WOpts) (fuel : Nat) (s : Schema) (v j w : Val)
    (hj : Spec.jsonEncodeCore (fun f bs v => (choose f env o bs v).toOption) fuel env s v = some j)
    (hw : Spec.written (fun f bs v => (choose f env o bs v).toOption) fuel env s v = some w) :
    encode true fuel env o s v = .ok j ∧ decode fuel env s j = .ok w :=
  ⟨encode_eq_spec env o fuel s v j hj, decode_encode _ env he fuel s v j w hj hw⟩

/-! non-vacuity: a record with a nullable union of a named type, bytes and an enum -/
def c15schema : Schema := .record "ns.R" [
  .mk "u" (.union [.prim .null false none, .enum "ns.E" ["A", "B"] none []]) none [],
  .mk "b" (.prim .bytes false none) none [],
  .mk "m" (.map (.prim .double false none)) none []] []
def c15value : Val := .dict [(.str "u", .str "B"), (.str "b", .bytes [0, 255]), (.str "m", .dict [(.str "k", .float 0x3FF8000000000000)])]

example : (match Spec.jsonEncodeCore (fun f bs v => (choose f [] {} bs v).toOption) 6 [] c15schema c15value with
    | some (.dict [(.str "u", .dict [(.str "ns.E", .str "B")]), (.str "b", .str _), (.str "m", .dict [(.str "k", .float _)])]) => true
    | _ => false) = true := by decide +kernel

example : JsonBack.EnvNamed [] := by intro n d h; cases h
example : (match Spec.written (fun f bs v => (choose f [] {} bs v).toOption) 6 [] c15schema c15value with
    | some (.dict [(.str "u", .str "B"), (.str "b", .bytes [0, 255]), (.str "m", .dict [(.str "k", .float _)])]) => true
    | _ => false) = true := by decide +kernel


/-! ### the grammar machine (write side) -/
open JM JMProofs

/-- one value, anywhere in a datum: started behind pending actions `acts` on the symbol `G` of its schema, the
    writer's traversal ends with exactly that symbol consumed and the function-level encoding `j` written where the
    value belongs (`e3 = write_value(j)` in the state `e1` the pending actions lead to), up to the stale key -/
theorem c15_machine_value (wut : Bool) (env : Env) (henv : EnvOk env) (o : WOpts) (fuel : Nat)
    (s : Schema) (v j : Val) (hj : encode wut fuel env o s v = .ok j) (hkeys : KeysOk j)
    (d : Option Val) (G : Sym) (hG : Gram env s d G) (hne : nonEmptyRec s = true)
    (st : ES) (acts rest : List Sym) (e1 e3 : Enc) (hentry : Entry st acts G rest e1) (hrest : restOk rest)
    (hw : e1.writeValue j = .ok e3) (hk : keyOk e1) (hc : curOk e1) :
    ∃ st', mEncode wut fuel env o s v st = .ok st' ∧ Exit st' rest e3 :=
  sound_all wut env henv o fuel s v j hj hkeys d G hG hne st acts rest e1 e3 hentry hrest hw hk hc

/-- `json_writer(fo, schema, records)` for a non-empty record list: the documents written are the function-level
    encodings of the records, in order -/
theorem c15_machine_json_writer (wut : Bool) (env : Env) (henv : EnvOk env) (hself : EnvNoSelf env) (o : WOpts) (fuel : Nat)
    (s : Schema) (hs : noSelf s = true) (hne : nonEmptyRec s = true) (ps : List Sym) (hinit : initialStack fuel env s = .ok ps)
    (v j : Val) (vs js : List Val)
    (hall : Pairwise2 (fun v j => encode wut fuel env o s v = .ok j ∧ KeysOk j) (v :: vs) (j :: js)) :
    encodeAll wut fuel env o s (v :: vs) = .ok (j :: js) := by
  obtain ⟨G, rfl, hG⟩ := initialStack_gram env hself fuel s ps hinit hs
  exact encodeAll_sound wut env henv o fuel s G hG hne hinit v j vs js hall

/-- … and therefore the specification's JSON encodings (core fragment of `c15_encode_eq_spec`) -/
theorem c15_machine_emits_spec (env : Env) (henv : EnvOk env) (hself : EnvNoSelf env) (o : WOpts) (fuel : Nat)
    (s : Schema) (hs : noSelf s = true) (hne : nonEmptyRec s = true) (ps : List Sym) (hinit : initialStack fuel env s = .ok ps)
    (v j : Val) (vs js : List Val)
    (hall : Pairwise2 (fun v j => Spec.jsonEncodeCore (fun f bs v => (choose f env o bs v).toOption) fuel env s v = some j ∧ KeysOk j)
      (v :: vs) (j :: js)) :
    encodeAll true fuel env o s (v :: vs) = .ok (j :: js) := by
  refine c15_machine_json_writer true env henv hself o fuel s hs hne ps hinit v j vs js ?_
  have conv : ∀ (as bs : List Val),
      Pairwise2 (fun v j => Spec.jsonEncodeCore (fun f bs v => (choose f env o bs v).toOption) fuel env s v = some j ∧ KeysOk j) as bs →
      Pairwise2 (fun v j => encode true fuel env o s v = .ok j ∧ KeysOk j) as bs := by
    intro as bs h
    induction h with
    | nil => exact .nil
    | cons hp _ ih => exact .cons ⟨encode_eq_spec env o fuel s _ _ hp.1, hp.2⟩ ih
  exact conv _ _ hall

/-! outside the hypotheses the machine derails — kernel-checked evaluations of the model (the implementation is
    compared with the model on these inputs by the check): -/
def c15rec : Schema := .record "R" [.mk "a" (.prim .int false none) none []] []
def c15empty : Schema := .record "E" [] []
def c15list : Schema := .record "L" [.mk "v" (.prim .int false none) none [],
  .mk "next" (.union [.prim .null false none, .ref "L"]) none []] []
def c15listEnv : Env := [("L", c15list)]
def c15node (v : Int) (next : Val) : Val := .dict [(.str "v", .int v), (.str "next", next)]

/-- F33: an empty record list makes `json_writer` raise ('Internal Parser Exception') -/
theorem c15_machine_counterexample_empty_list :
    (match encodeAll true 6 [] {} c15rec [] with | .error .other => true | _ => false) = true := by decide +kernel
/-- F5b: a record without fields in final position -/
theorem c15_machine_counterexample_zero_fields :
    (match encodeAll true 6 [] {} c15empty [.dict []] with | .error .other => true | _ => false) = true := by decide +kernel
/-- F5a: a linked list of depth 3 (IndexError: pop from empty list); depth 2 still works -/
theorem c15_machine_counterexample_depth3 :
    (match encodeAll true 9 c15listEnv {} c15list [c15node 1 (c15node 2 (c15node 3 .none))] with | .error .index => true | _ => false) = true ∧
    (match encodeAll true 9 c15listEnv {} c15list [c15node 1 (c15node 2 .none)] with | .ok [_] => true | _ => false) = true := by
  constructor <;> decide +kernel

/-! non-vacuity of `c15_machine_json_writer`: two records through one call -/
example : encodeAll true 6 [] {} c15rec [.dict [(.str "a", .int 5)], .dict [(.str "a", .int 7)]]
    = .ok [.dict [(.str "a", .int 5)], .dict [(.str "a", .int 7)]] := by
  have hk : ∀ n : Int, KeysOk (.dict [(.str "a", .int n)]) := by
    intro n
    refine .dict _ ?_ ?_ ?_
    · intro p hp; simp only [List.mem_singleton] at hp; subst hp; exact ⟨"a", rfl, by decide⟩
    · simp [dictKeys]
    · intro p hp; simp only [List.mem_singleton] at hp; subst hp
      exact .leaf _ (by intro kv h; cases h) (by intro xs h; cases h)
  refine c15_machine_json_writer true [] ?_ ?_ {} 6 c15rec rfl rfl _ rfl _ _ _ _ ?_
  · intro n d h; cases h
  · intro n d h; cases h
  · exact .cons ⟨rfl, hk 5⟩ (.cons ⟨rfl, hk 7⟩ .nil)
