/-
  Properties/C15.lean — the JSON codec.

  PROVED
    * `c15_encode_eq_spec` — on the core fragment (floating-point fields hold floating-point values,
      map keys are not empty, no logical types) the value `json_writer` emits (model Json.encode:
      the writer's traversal with the JSON encoder's calls) is exactly the specification's JSON
      encoding Spec.jsonEncode of the datum — null as null, other union values wrapped as
      {branch name: value} with full names for named types, bytes/fixed as strings of code points,
      enums as symbols, maps/records as objects in order, arrays as arrays — for the branches
      `write_union` selects (C09 is the property about that selection), at any depth;
    * `c15_core_is_spec`    — on that fragment the core encoder and the full specification encoder
      agree (the fragment only removes inputs, it does not change outputs);
    * `c15_bytes_strings`   — a byte string written as code points 0–255 decodes back to itself;
    * `c15_read_back`       — the read-back clause, at any depth: on that fragment the value `json_writer`
      emits is the specification's encoding AND `json_reader` (model Json.decode: the reader's traversal
      with the JSON decoder's calls) applied to it with the same schema returns the record as written
      (Spec.written: absent fields replaced by their defaults, a union value as the value of the branch
      it was written under, sequences as lists, bytearray as bytes; numbers, strings, keys as given);
      the side conditions are those that make "the record as written" defined: distinct dict keys,
      distinct field names, no two union branches of one name, named-schema table holding named types.
  NOT PROVED (checked by the harness on the implementation and against the model): agreement with the
  binary codec (C01's normal form differs from `Spec.written` only in single-precision rounding and
  int → float conversion under float/double), defaults of fields absent from a JSON text that
  `json_writer` did not produce; and everything about the grammar machine that sequences the encoder/decoder calls
  (fastavro/io/parser.py), which is not modelled — see known findings F5a–d, F14, F27, F28.
-/
import Proofs.Json
import Proofs.JsonBack

open Binary Json JsonProofs

theorem c15_encode_eq_spec (env : Env) (o : WOpts) (fuel : Nat) (s : Schema) (v j : Val)
    (h : Spec.jsonEncodeCore (fun f bs v => (choose f env o bs v).toOption) fuel env s v = some j) :
    encode true fuel env o s v = .ok j :=
  encode_eq_spec env o fuel s v j h

theorem c15_core_is_spec (pick : Nat → List Schema → Val → Option (Nat × Val)) (env : Env) (fuel : Nat) (s : Schema) (v j : Val)
    (h : Spec.jsonEncodeCore pick fuel env s v = some j) : Spec.jsonEncode pick fuel env s v = some j :=
  core_is_spec pick env fuel s v j h

theorem c15_bytes_strings (b : Bytes) : latin1Enc (latin1Dec b) = some b ∧ Spec.codePoints b = latin1Dec b :=
  ⟨latin1_roundtrip b, rfl⟩

open JsonBack in
theorem c15_read_back (env : Env) (he : EnvNamed env) (o : WOpts) (fuel : Nat) (s : Schema) (v j w : Val)
    (hj : Spec.jsonEncodeCore (fun f bs v => (choose f env o bs v).toOption) fuel env s v = some j)
    (hw : Spec.written (fun f bs v => (choose f env o bs v).toOption) fuel env s v = some w) :
    encode true fuel env o s v = .ok j ∧ decode fuel env s j = .ok w :=
  ⟨encode_eq_spec env o fuel s v j hj, decode_encode _ env he fuel s v j w hj hw⟩

/-! non-vacuity: a record with a nullable union of a named type, bytes and an enum -/
def c15schema : Schema := .record "ns.R" [
  .mk "u" (.union [.prim .null false none, .enum "ns.E" ["A", "B"] none []]) none [],
  .mk "b" (.prim .bytes false none) none [],
  .mk "m" (.map (.prim .double false none)) none []] []
def c15value : Val := .dict [(.str "u", .str "B"), (.str "b", .bytes [0, 255]), (.str "m", .dict [(.str "k", .float 0x3FF8000000000000)])]

example : (match Spec.jsonEncodeCore (fun f bs v => (choose f [] {} bs v).toOption) 6 [] c15schema c15value with
    | some (.dict [(.str "u", .dict [(.str "ns.E", .str "B")]), (.str "b", .str _), (.str "m", .dict [(.str "k", .float _)])]) => true
    | _ => false) = true := by decide +kernel

example : JsonBack.EnvNamed [] := by intro n d h; cases h
example : (match Spec.written (fun f bs v => (choose f [] {} bs v).toOption) 6 [] c15schema c15value with
    | some (.dict [(.str "u", .str "B"), (.str "b", .bytes [0, 255]), (.str "m", .dict [(.str "k", .float _)])]) => true
    | _ => false) = true := by decide +kernel
