/- Properties/C15.lean — placeholder -/
import Model.Json
import Spec.JsonEnc
