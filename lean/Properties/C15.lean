/-
  Properties/C15.lean — the JSON codec.

  PROVED
    * `c15_encode_eq_spec` — on the core fragment (floating-point fields hold floating-point values,
      map keys are not empty, no logical types) the value `json_writer` emits (model Json.encode:
      the writer's traversal with the JSON encoder's calls) is exactly the specification's JSON
      encoding Spec.jsonEncode of the datum — null as null, other union values wrapped as
      {branch name: value} with full names for named types, bytes/fixed as strings of code points,
      enums as symbols, maps/records as objects in order, arrays as arrays — for the branches
      `write_union` selects (C09 is the property about that selection), at any depth;
    * `c15_core_is_spec`    — on that fragment the core encoder and the full specification encoder
      agree (the fragment only removes inputs, it does not change outputs);
    * `c15_bytes_strings`   — a byte string written as code points 0–255 decodes back to itself;
    * `c15_read_back`       — the read-back clause, at any depth: on that fragment the value `json_writer`
      emits is the specification's encoding AND `json_reader` (model Json.decode: the reader's traversal
      with the JSON decoder's calls) applied to it with the same schema returns the record as written
      (Spec.written: absent fields replaced by their defaults, a union value as the value of the branch
      it was written under, sequences as lists, bytearray as bytes; numbers, strings, keys as given);
      the side conditions are those that make "the record as written" defined: distinct dict keys,
      distinct field names, no two union branches of one name, named-schema table holding named types.
    * `c15_machine_value`, `c15_machine_json_writer`, `c15_machine_emits_spec` — the WRITE side of the grammar machine
      (fastavro/io/parser.py: grammar built from the schema, symbol stack, lazily executed actions, root symbol
      restarting the grammar for every record; AvroJSONEncoder: frame stack, `_current`, stale `_key`, `_records`,
      `flush`), modelled step by step in Model/JsonMachine.lean, computes exactly the function-level encoding —
      hence the specification's — for every schema in which no record is empty (`nonEmptyRec`) and the recursion
      guard of `_process_record` stays off (`noSelf`), every non-empty list of records, any nesting depth, provided
      the objects of the result have distinct non-empty keys (`KeysOk`: always true of Python dicts with distinct
      field names);
    * `c15_machine_counterexample_*` — outside those hypotheses the machine really derails, as kernel-checked
      evaluations of the model: an empty record list, a record without fields in final position, a linked list of
      depth 3 (findings F33, F5b, F5a); the implementation is compared with the model on these shapes on every run.
    * `c15_machine_json_reader`, `c15_machine_reads_spec`, `c15_machine_round_trip` — the READ side of the grammar
      machine (AvroJSONDecoder driven by `read_data`: frame stack, `_current`, `_key`, `_push_and_adjust`,
      `read_index` re-binding the union member, `iter_array`'s pop(0), `iter_map`'s del, lazily executed actions,
      `drain_actions` between documents; model JM.decodeAll) returns exactly what the function-level reader returns
      — hence, on the specification's encodings, the records as written — for every schema whose map values leave at
      most their own `RecordEnd` pending (`DOk`: primitives, enums, fixed, arrays, maps, unions of those, and records
      whose last field is one of those, as map values; records anywhere else), documents of the writer's shape
      (`Fits`; proved of every specification encoding: `spec_fits`) — in which a field may also be ABSENT when it has a
      default of that shape: the machine then reads the default exactly as the function-level reader does, wrapped
      under the first branch's label for a union field —, with proper objects (`KeysOk`) and below the model's
      iteration bound (`Small`), any depth, any number of documents;
      `c15_machine_round_trip`: write then read on the machine gives the records as written;
    * `c15_machine_counterexample_map_of_nested_records` — outside `DOk` the machine really fails (finding F28):
      a map of records that end in a record is written, and read by the function-level reader, but `iter_map` pops
      the frame the inner `RecordStart` pushed and the `del` hits the wrong object (kernel-checked evaluation).
  NOT PROVED (checked by the harness on the implementation and against the model): agreement with the
  binary codec (C01's normal form differs from `Spec.written` only in single-precision rounding and
  int → float conversion under float/double), defaults of fields absent from a JSON text that
  `json_writer` did not produce, measured against the SPECIFICATION's reading of a default (the read-side theorems
  cover absent fields, but relative to the function-level reader, which decodes a default as if it were written text:
  finding F27 is where the two differ); the read side for maps
  whose values are unions with a record branch, or records ending in a record (F28) — see known findings F5a–d, F14,
  F27, F28, F33.
-/
import Proofs.Json
import Proofs.JsonBack
import Proofs.JsonMachine
import Proofs.JsonMachineDec

open Binary Json JsonProofs

theorem c15_encode_eq_spec (env : Env) (o : WOpts) (fuel : Nat) (s : Schema) (v j : Val)
    (h : Spec.jsonEncodeCore (fun f bs v => (choose f env o bs v).toOption) fuel env s v = some j) :
    encode true fuel env o s v = .ok j :=
  encode_eq_spec env o fuel s v j h

theorem c15_core_is_spec (pick : Nat → List Schema → Val → Option (Nat × Val)) (env : Env) (fuel : Nat) (s : Schema) (v j : Val)
    (h : Spec.jsonEncodeCore pick fuel env s v = some j) : Spec.jsonEncode pick fuel env s v = some j :=
  core_is_spec pick env fuel s v j h

theorem c15_bytes_strings (b : Bytes) : latin1Enc (latin1Dec b) = some b ∧ Spec.codePoints b = latin1Dec b :=
  ⟨latin1_roundtrip b, rfl⟩

open JsonBack in
theorem c15_read_back (env : Env) (he : EnvNamed env) (o : WOpts) (fuel : Nat) (s : Schema) (v j w : Val)
    (hj : Spec.jsonEncodeCore (fun f bs v => (choose f env o bs v).toOption) fuel env s v = some j)
    (hw : Spec.written (fun f bs v => (choose f env o bs v).toOption) fuel env s v = some w) :
    encode true fuel env o s v = .ok j ∧ decode fuel env s j = .ok w :=
  ⟨encode_eq_spec env o fuel s v j hj, decode_encode _ env he fuel s v j w hj hw⟩

/-! non-vacuity: a record with a nullable union of a named type, bytes and an enum -/
def c15schema : Schema := .record "ns.R" [
  .mk "u" (.union [.prim .null false none, .enum "ns.E" ["A", "B"] none []]) none [],
  .mk "b" (.prim .bytes false none) none [],
  .mk "m" (.map (.prim .double false none)) none []] []
def c15value : Val := .dict [(.str "u", .str "B"), (.str "b", .bytes [0, 255]), (.str "m", .dict [(.str "k", .float 0x3FF8000000000000)])]

example : (match Spec.jsonEncodeCore (fun f bs v => (choose f [] {} bs v).toOption) 6 [] c15schema c15value with
    | some (.dict [(.str "u", .dict [(.str "ns.E", .str "B")]), (.str "b", .str _), (.str "m", .dict [(.str "k", .float _)])]) => true
    | _ => false) = true := by decide +kernel

example : JsonBack.EnvNamed [] := by intro n d h; cases h
example : (match Spec.written (fun f bs v => (choose f [] {} bs v).toOption) 6 [] c15schema c15value with
    | some (.dict [(.str "u", .str "B"), (.str "b", .bytes [0, 255]), (.str "m", .dict [(.str "k", .float _)])]) => true
    | _ => false) = true := by decide +kernel


/-! ### the grammar machine (write side) -/
open JM JMProofs

/-- one value, anywhere in a datum: started behind pending actions `acts` on the symbol `G` of its schema, the
    writer's traversal ends with exactly that symbol consumed and the function-level encoding `j` written where the
    value belongs (`e3 = write_value(j)` in the state `e1` the pending actions lead to), up to the stale key -/
theorem c15_machine_value (wut : Bool) (env : Env) (henv : EnvOk env) (o : WOpts) (fuel : Nat)
    (s : Schema) (v j : Val) (hj : encode wut fuel env o s v = .ok j) (hkeys : KeysOk j)
    (d : Option Val) (G : Sym) (hG : Gram env s d G) (hne : nonEmptyRec s = true)
    (st : ES) (acts rest : List Sym) (e1 e3 : Enc) (hentry : Entry st acts G rest e1) (hrest : restOk rest)
    (hw : e1.writeValue j = .ok e3) (hk : keyOk e1) (hc : curOk e1) :
    ∃ st', mEncode wut fuel env o s v st = .ok st' ∧ Exit st' rest e3 :=
  sound_all wut env henv o fuel s v j hj hkeys d G hG hne st acts rest e1 e3 hentry hrest hw hk hc

/-- `json_writer(fo, schema, records)` for a non-empty record list: the documents written are the function-level
    encodings of the records, in order -/
theorem c15_machine_json_writer (wut : Bool) (env : Env) (henv : EnvOk env) (hself : EnvNoSelf env) (o : WOpts) (fuel : Nat)
    (s : Schema) (hs : noSelf s = true) (hne : nonEmptyRec s = true) (ps : List Sym) (hinit : initialStack fuel env s = .ok ps)
    (v j : Val) (vs js : List Val)
    (hall : Pairwise2 (fun v j => encode wut fuel env o s v = .ok j ∧ KeysOk j) (v :: vs) (j :: js)) :
    encodeAll wut fuel env o s (v :: vs) = .ok (j :: js) := by
  obtain ⟨G, rfl, hG⟩ := initialStack_gram env hself fuel s ps hinit hs
  exact encodeAll_sound wut env henv o fuel s G hG hne hinit v j vs js hall

/-- … and therefore the specification's JSON encodings (core fragment of `c15_encode_eq_spec`) -/
theorem c15_machine_emits_spec (env : Env) (henv : EnvOk env) (hself : EnvNoSelf env) (o : WOpts) (fuel : Nat)
    (s : Schema) (hs : noSelf s = true) (hne : nonEmptyRec s = true) (ps : List Sym) (hinit : initialStack fuel env s = .ok ps)
    (v j : Val) (vs js : List Val)
    (hall : Pairwise2 (fun v j => Spec.jsonEncodeCore (fun f bs v => (choose f env o bs v).toOption) fuel env s v = some j ∧ KeysOk j)
      (v :: vs) (j :: js)) :
    encodeAll true fuel env o s (v :: vs) = .ok (j :: js) := by
  refine c15_machine_json_writer true env henv hself o fuel s hs hne ps hinit v j vs js ?_
  have conv : ∀ (as bs : List Val),
      Pairwise2 (fun v j => Spec.jsonEncodeCore (fun f bs v => (choose f env o bs v).toOption) fuel env s v = some j ∧ KeysOk j) as bs →
      Pairwise2 (fun v j => encode true fuel env o s v = .ok j ∧ KeysOk j) as bs := by
    intro as bs h
    induction h with
    | nil => exact .nil
    | cons hp _ ih => exact .cons ⟨encode_eq_spec env o fuel s _ _ hp.1, hp.2⟩ ih
  exact conv _ _ hall

/-! outside the hypotheses the machine derails — kernel-checked evaluations of the model (the implementation is
    compared with the model on these inputs by the check): -/
def c15rec : Schema := .record "R" [.mk "a" (.prim .int false none) none []] []
def c15empty : Schema := .record "E" [] []
def c15list : Schema := .record "L" [.mk "v" (.prim .int false none) none [],
  .mk "next" (.union [.prim .null false none, .ref "L"]) none []] []
def c15listEnv : Env := [("L", c15list)]
def c15node (v : Int) (next : Val) : Val := .dict [(.str "v", .int v), (.str "next", next)]

/-- F33: an empty record list makes `json_writer` raise ('Internal Parser Exception') -/
theorem c15_machine_counterexample_empty_list :
    (match encodeAll true 6 [] {} c15rec [] with | .error .other => true | _ => false) = true := by decide +kernel
/-- F5b: a record without fields in final position -/
theorem c15_machine_counterexample_zero_fields :
    (match encodeAll true 6 [] {} c15empty [.dict []] with | .error .other => true | _ => false) = true := by decide +kernel
/-- F5a: a linked list of depth 3 (IndexError: pop from empty list); depth 2 still works -/
theorem c15_machine_counterexample_depth3 :
    (match encodeAll true 9 c15listEnv {} c15list [c15node 1 (c15node 2 (c15node 3 .none))] with | .error .index => true | _ => false) = true ∧
    (match encodeAll true 9 c15listEnv {} c15list [c15node 1 (c15node 2 .none)] with | .ok [_] => true | _ => false) = true := by
  constructor <;> decide +kernel

/-! non-vacuity of `c15_machine_json_writer`: two records through one call -/
example : encodeAll true 6 [] {} c15rec [.dict [(.str "a", .int 5)], .dict [(.str "a", .int 7)]]
    = .ok [.dict [(.str "a", .int 5)], .dict [(.str "a", .int 7)]] := by
  have hk : ∀ n : Int, KeysOk (.dict [(.str "a", .int n)]) := by
    intro n
    refine .dict _ ?_ ?_ ?_
    · intro p hp; simp only [List.mem_singleton] at hp; subst hp; exact ⟨"a", rfl, by decide⟩
    · simp [dictKeys]
    · intro p hp; simp only [List.mem_singleton] at hp; subst hp
      exact .leaf _ (by intro kv h; cases h) (by intro xs h; cases h)
  refine c15_machine_json_writer true [] ?_ ?_ {} 6 c15rec rfl rfl _ rfl _ _ _ _ ?_
  · intro n d h; cases h
  · intro n d h; cases h
  · exact .cons ⟨rfl, hk 5⟩ (.cons ⟨rfl, hk 7⟩ .nil)


/-! ### the grammar machine (read side) -/
open JMDec

theorem pairwise2_of_forall {α : Type} (P : Val → Val → Prop) (f g : α → Val) :
    ∀ (l : List α), (∀ t ∈ l, P (f t) (g t)) → Pairwise2 P (l.map f) (l.map g) := by
  intro l
  induction l with
  | nil => intro _; exact .nil
  | cons t ts ih => intro h; exact .cons (h t (by simp)) (ih (fun u hu => h u (by simp [hu])))

theorem envNamed_of_envOk {env : Env} (h : EnvOk env) : JsonBack.EnvNamed env := fun n d hg => (h n d hg).1

/-- `json_reader` on the machine: for a schema whose map values are flat (`DOk`), JSON documents of the writer's
    shape (`Fits`), with proper objects (`KeysOk`) and below the model's iteration bound (`Small`): the records
    returned are those of the function-level reader, in order -/
theorem c15_machine_json_reader (env : Env) (henv : EnvOk env) (hself : EnvNoSelf env) (fuel : Nat)
    (s : Schema) (hs : noSelf s = true) (hne : nonEmptyRec s = true) (hok : DOk env s) (ps : List Sym)
    (hinit : initialStack fuel env s = .ok ps) (docs ws : List Val)
    (hall : Pairwise2 (fun j w => Json.decode fuel env s j = .ok w ∧ Fits env fuel s j ∧ KeysOk j ∧ Small j) docs ws) :
    decodeAll fuel env s docs = .ok ws := by
  obtain ⟨G, rfl, hG⟩ := initialStack_gram env hself fuel s ps hinit hs
  exact decodeAll_sound env henv fuel s G hG hne hok hinit docs ws hall

/-- … in particular the specification's JSON encodings are read back as the records as written -/
theorem c15_machine_reads_spec (env : Env) (henv : EnvOk env) (hself : EnvNoSelf env) (o : WOpts) (fuel : Nat)
    (s : Schema) (hs : noSelf s = true) (hne : nonEmptyRec s = true) (hok : DOk env s) (ps : List Sym)
    (hinit : initialStack fuel env s = .ok ps) (recs : List (Val × Val × Val))
    (hall : ∀ t ∈ recs,
      Spec.jsonEncodeCore (fun f bs v => (choose f env o bs v).toOption) fuel env s t.1 = some t.2.1 ∧
      Spec.written (fun f bs v => (choose f env o bs v).toOption) fuel env s t.1 = some t.2.2 ∧
      KeysOk t.2.1 ∧ Small t.2.1) :
    decodeAll fuel env s (recs.map (·.2.1)) = .ok (recs.map (·.2.2)) := by
  refine c15_machine_json_reader env henv hself fuel s hs hne hok ps hinit _ _ ?_
  refine pairwise2_of_forall _ _ _ recs ?_
  intro t ht
  obtain ⟨hj, hw, hk, hsm⟩ := hall t ht
  exact ⟨JsonBack.decode_encode _ env (envNamed_of_envOk henv) fuel s t.1 t.2.1 t.2.2 hj hw,
    spec_fits _ env (envNamed_of_envOk henv) fuel s t.1 t.2.1 t.2.2 hj hw, hk, hsm⟩

/-- write, then read, on the machine: a non-empty list of records goes through `json_writer` as the
    specification's encodings and comes back through `json_reader` as the records as written -/
theorem c15_machine_round_trip (env : Env) (henv : EnvOk env) (hself : EnvNoSelf env) (o : WOpts) (fuel : Nat)
    (s : Schema) (hs : noSelf s = true) (hne : nonEmptyRec s = true) (hok : DOk env s) (ps : List Sym)
    (hinit : initialStack fuel env s = .ok ps) (t0 : Val × Val × Val) (recs : List (Val × Val × Val))
    (hall : ∀ t ∈ t0 :: recs,
      Spec.jsonEncodeCore (fun f bs v => (choose f env o bs v).toOption) fuel env s t.1 = some t.2.1 ∧
      Spec.written (fun f bs v => (choose f env o bs v).toOption) fuel env s t.1 = some t.2.2 ∧
      KeysOk t.2.1 ∧ Small t.2.1) :
    encodeAll true fuel env o s ((t0 :: recs).map (·.1)) = .ok ((t0 :: recs).map (·.2.1)) ∧
    decodeAll fuel env s ((t0 :: recs).map (·.2.1)) = .ok ((t0 :: recs).map (·.2.2)) := by
  refine ⟨?_, c15_machine_reads_spec env henv hself o fuel s hs hne hok ps hinit (t0 :: recs) hall⟩
  have := pairwise2_of_forall
    (fun v j => Spec.jsonEncodeCore (fun f bs v => (choose f env o bs v).toOption) fuel env s v = some j ∧ KeysOk j)
    (·.1) (·.2.1) (t0 :: recs) (fun t ht => ⟨(hall t ht).1, (hall t ht).2.2.1⟩)
  exact c15_machine_emits_spec env henv hself o fuel s hs hne ps hinit _ _ _ _ this

def c15inner : Schema := .record "S" [.mk "c" (.prim .int false none) none []] []
def c15outer : Schema := .record "R" [.mk "a" (.prim .int false none) none [], .mk "b" c15inner none []] []
def c15mapRR : Schema := .map c15outer
def c15mapRRval : Val := .dict [(.str "k", .dict [(.str "a", .int 1), (.str "b", .dict [(.str "c", .int 2)])])]

/-- F28: a map whose values are records that end in a record: written, and read by the function-level reader, but
    the machine's `iter_map` pops the wrong frame (KeyError on the map key) -/
theorem c15_machine_counterexample_map_of_nested_records :
    (match encodeAll true 8 [] {} c15mapRR [c15mapRRval], Json.decode 8 [] c15mapRR c15mapRRval, decodeAll 8 [] c15mapRR [c15mapRRval] with
     | .ok [.dict [(.str "k", .dict [(.str "a", .int 1), (.str "b", .dict [(.str "c", .int 2)])])]],
       .ok (.dict [(.str "k", .dict [(.str "a", .int 1), (.str "b", .dict [(.str "c", .int 2)])])]), .error .index => true
     | _, _, _ => false) = true := by decide +kernel

example : DOk [] c15schema := by
  refine .record _ _ _ (by decide) ?_
  intro f hf
  simp only [List.mem_cons, List.not_mem_nil, or_false] at hf
  rcases hf with rfl | rfl | rfl
  · exact .union _ (by
      intro b hb
      simp only [List.mem_cons, List.not_mem_nil, or_false] at hb
      rcases hb with rfl | rfl
      · exact .prim _ _ _
      · exact .enum _ _ _ _)
  · exact .prim _ _ _
  · exact .map _ (.prim _ _ _) (.inl (.prim _ _ _))

/-! non-vacuity of `c15_machine_round_trip`: two records written and read through the machine -/
example : encodeAll true 6 [] {} c15rec [.dict [(.str "a", .int 5)], .dict [(.str "a", .int 7)]]
      = .ok [.dict [(.str "a", .int 5)], .dict [(.str "a", .int 7)]] ∧
    decodeAll 6 [] c15rec [.dict [(.str "a", .int 5)], .dict [(.str "a", .int 7)]]
      = .ok [.dict [(.str "a", .int 5)], .dict [(.str "a", .int 7)]] := by
  have hk : ∀ n : Int, KeysOk (.dict [(.str "a", .int n)]) := by
    intro n
    refine .dict _ ?_ ?_ ?_
    · intro p hp; simp only [List.mem_singleton] at hp; subst hp; exact ⟨"a", rfl, by decide⟩
    · simp [dictKeys]
    · intro p hp; simp only [List.mem_singleton] at hp; subst hp
      exact .leaf _ (by intro kv h; cases h) (by intro xs h; cases h)
  have hs : ∀ n : Int, Small (.dict [(.str "a", .int n)]) := by
    intro n
    refine .dict _ (by simp [DFUEL]) ?_
    intro p hp; simp only [List.mem_singleton] at hp; subst hp
    exact .leaf _ (by intro kv h; cases h) (by intro xs h; cases h)
  have hok : DOk [] c15rec := by
    refine .record _ _ _ (by decide) ?_
    intro f hf
    simp only [List.mem_singleton] at hf
    subst hf
    exact .prim _ _ _
  have := c15_machine_round_trip [] (by intro n d h; cases h) (by intro n d h; cases h) {} 6 c15rec rfl rfl hok _ rfl
    (.dict [(.str "a", .int 5)], .dict [(.str "a", .int 5)], .dict [(.str "a", .int 5)])
    [(.dict [(.str "a", .int 7)], .dict [(.str "a", .int 7)], .dict [(.str "a", .int 7)])]
    (by
      intro t ht
      simp only [List.mem_cons, List.not_mem_nil, or_false] at ht
      rcases ht with rfl | rfl
      · exact ⟨rfl, rfl, hk 5, hs 5⟩
      · exact ⟨rfl, rfl, hk 7, hs 7⟩)
  simpa using this

/-! a map of records is inside `DOk` (one pop pending after each value), and the machine reads it -/
def c15mapR : Schema := .map c15inner
example : DOk [] c15mapR := by
  refine .map _ (.record _ _ _ (by decide) ?_) (.inr (.record _ _ _ ?_))
  · intro f hf; simp only [List.mem_singleton] at hf; subst hf; exact .prim _ _ _
  · intro f hf; simp only [List.getLast?_singleton, Option.some.injEq] at hf; subst hf; exact .prim _ _ _
example : (match decodeAll 8 [] c15mapR [.dict [(.str "k", .dict [(.str "c", .int 2)]), (.str "l", .dict [(.str "c", .int 3)])]] with
    | .ok [.dict [(.str "k", .dict [(.str "c", .int 2)]), (.str "l", .dict [(.str "c", .int 3)])]] => true
    | _ => false) = true := by decide +kernel

/-! fields absent from the text: the machine fills in the defaults (a string, a null union, a record default completed by
    its own field defaults) as the function-level reader does -/
def c15dflt : Schema := .record "D" [.mk "a" (.prim .int false none) none [], .mk "b" (.prim .string false none) (some (.str "x")) [],
  .mk "u" (.union [.prim .null false none, .prim .int false none]) (some .none) [],
  .mk "r" (.record "In" [.mk "c" (.prim .int false none) (some (.int 7)) []] []) (some (.dict [])) []] []
example : (match decodeAll 8 [] c15dflt [.dict [(.str "a", .int 1)]], Json.decode 8 [] c15dflt (.dict [(.str "a", .int 1)]) with
    | .ok [.dict [(.str "a", .int 1), (.str "b", .str "x"), (.str "u", .none), (.str "r", .dict [(.str "c", .int 7)])]],
      .ok (.dict [(.str "a", .int 1), (.str "b", .str "x"), (.str "u", .none), (.str "r", .dict [(.str "c", .int 7)])]) => true
    | _, _ => false) = true := by decide +kernel
