/-
  Properties/TablesCodec.lean — obligations against the generated tables (Gen/Tables.lean), closed by evaluation.
-/
import Properties.TablesCommon
import Model.Validate
namespace Tables

theorem int_bounds :
    int? "const.INT_MIN_VALUE" = some Validate.INT_MIN ∧ int? "const.INT_MAX_VALUE" = some Validate.INT_MAX ∧
    int? "const.LONG_MIN_VALUE" = some Validate.LONG_MIN ∧ int? "const.LONG_MAX_VALUE" = some Validate.LONG_MAX := by
  decide

/-- each type name the model dispatches on is handled by the function of the matching kind -/
theorem writers_dispatch :
    disp? "_write_py.WRITERS" "null" = some "write_null" ∧ disp? "_write_py.WRITERS" "boolean" = some "write_boolean" ∧
    disp? "_write_py.WRITERS" "string" = some "write_utf8" ∧ disp? "_write_py.WRITERS" "int" = some "write_int" ∧
    disp? "_write_py.WRITERS" "long" = some "write_long" ∧ disp? "_write_py.WRITERS" "float" = some "write_float" ∧
    disp? "_write_py.WRITERS" "double" = some "write_double" ∧ disp? "_write_py.WRITERS" "bytes" = some "write_bytes" ∧
    disp? "_write_py.WRITERS" "fixed" = some "write_fixed" ∧ disp? "_write_py.WRITERS" "enum" = some "write_enum" ∧
    disp? "_write_py.WRITERS" "array" = some "write_array" ∧ disp? "_write_py.WRITERS" "map" = some "write_map" ∧
    disp? "_write_py.WRITERS" "union" = some "write_union" ∧ disp? "_write_py.WRITERS" "record" = some "write_record" := by
  decide

theorem readers_dispatch :
    disp? "_read_py.READERS" "null" = some "read_null" ∧ disp? "_read_py.READERS" "boolean" = some "read_boolean" ∧
    disp? "_read_py.READERS" "string" = some "read_utf8" ∧ disp? "_read_py.READERS" "int" = some "read_int" ∧
    disp? "_read_py.READERS" "long" = some "read_long" ∧ disp? "_read_py.READERS" "float" = some "read_float" ∧
    disp? "_read_py.READERS" "double" = some "read_double" ∧ disp? "_read_py.READERS" "bytes" = some "read_bytes" ∧
    disp? "_read_py.READERS" "fixed" = some "read_fixed" ∧ disp? "_read_py.READERS" "enum" = some "read_enum" ∧
    disp? "_read_py.READERS" "array" = some "read_array" ∧ disp? "_read_py.READERS" "map" = some "read_map" ∧
    disp? "_read_py.READERS" "union" = some "read_union" ∧ disp? "_read_py.READERS" "record" = some "read_record" := by
  decide

theorem skips_dispatch :
    disp? "_read_py.SKIPS" "null" = some "skip_null" ∧ disp? "_read_py.SKIPS" "boolean" = some "skip_boolean" ∧
    disp? "_read_py.SKIPS" "string" = some "skip_utf8" ∧ disp? "_read_py.SKIPS" "int" = some "skip_int" ∧
    disp? "_read_py.SKIPS" "long" = some "skip_long" ∧ disp? "_read_py.SKIPS" "float" = some "skip_float" ∧
    disp? "_read_py.SKIPS" "double" = some "skip_double" ∧ disp? "_read_py.SKIPS" "bytes" = some "skip_bytes" ∧
    disp? "_read_py.SKIPS" "fixed" = some "skip_fixed" ∧ disp? "_read_py.SKIPS" "enum" = some "skip_enum" ∧
    disp? "_read_py.SKIPS" "array" = some "skip_array" ∧ disp? "_read_py.SKIPS" "map" = some "skip_map" ∧
    disp? "_read_py.SKIPS" "union" = some "skip_union" ∧ disp? "_read_py.SKIPS" "record" = some "skip_record" := by
  decide

end Tables
