/-
  Properties/TablesRabin.lean — obligations against the generated tables (Gen/Tables.lean), closed by evaluation.
-/
import Properties.TablesCommon
import Model.Rabin
namespace Tables

theorem rabin_polynomial : int? "_schema_common.rabin.empty_64" = some (Rabin.EMPTY64 : Int) := by decide

end Tables
