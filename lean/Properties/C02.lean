/-
  Properties/C02.lean — encoder output is the specification's encoding.
  (Only property theorems live here; helper lemmas are in Proofs/.)
-/
import Proofs.Varint

/-- the Python bit-twiddling of `write_int`/`write_long` (`(n << 1) ^ (n >> 63)`, 7-bit loop) produces
    exactly the specification's zig-zag base-128 varint, for every int64 -/
theorem c02_encodeLong_eq_spec (n : Int) (hlo : -(2^63) ≤ n) (hhi : n < 2^63) :
    Binary.encodeLong n = WR.ok (Spec.encodeLong n) :=
  VarintProofs.encodeLong_eq_spec n hlo hhi

/-- non-vacuity: a value in range, and the bytes it gets (-8193 ↦ 0x81 0x80 0x01) -/
example : Binary.encodeLong (-8193) = WR.ok [0x81, 0x80, 0x01] := by decide +kernel
