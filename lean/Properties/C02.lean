/-
  Properties/C02.lean — encoder output is byte-for-byte the specification's encoding.
  Only the property theorems live here; lemmas are in Proofs/Varint.lean and Proofs/Encode.lean.
-/
import Proofs.Encode

open Binary

/-- the Python bit-twiddling of `write_int`/`write_long` (`(n << 1) ^ (n >> 63)`, 7-bit loop) produces
    exactly the specification's zig-zag base-128 varint, for every int64 -/
theorem c02_encodeLong_eq_spec (n : Int) (hlo : -(2^63) ≤ n) (hhi : n < 2^63) :
    encodeLong n = WR.ok (Spec.encodeLong n) :=
  VarintProofs.encodeLong_eq_spec n hlo hhi

/-- **C02.** For every schema and every conforming datum (one whose normal form is defined), the
    bytes `write_data` emits equal `Spec.encode` — the specification's encoding written independently
    of the writer — for the union branches the writer selected. -/
theorem c02_bytes (env : Env) (o : WOpts) (fuel : Nat) (s : Schema) (v nf : Val) (bs : Bytes)
    (hw : writeData fuel env o s v = ⟨bs, none⟩)
    (hn : Spec.normalize fuel env o s v = some nf) :
    Spec.encode (EncodeProofs.writerPick env o) fuel env s v = some bs :=
  EncodeProofs.writeData_eq_spec env o fuel s v nf bs hw hn

/-- the two little-endian formulations agree (`struct.pack('<f'/'<d')` byte order) -/
theorem c02_little_endian (n x : Nat) : Spec.leBytes n x = Py.toBytesLE n x := EncodeProofs.leBytes_eq n x

/-- non-vacuity: a value in range, and the bytes it gets (-8193 ↦ 0x81 0x80 0x01) -/
example : encodeLong (-8193) = WR.ok [0x81, 0x80, 0x01] := by decide +kernel
example : Spec.encodeLong (-8193) = [0x81, 0x80, 0x01] := by decide +kernel
