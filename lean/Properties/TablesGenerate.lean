/-
  Properties/TablesGenerate.lean — obligations on the integer ranges `gen_data` draws from
  (`Gen.genRanges`, regenerated from fastavro/utils.py on every run): each range is non-empty and
  lies inside the domain on which the type — for logical types: the logical reader and writer of
  C16 — is defined.  A one-off error at an end of a range has probability ~1e-11 per draw and
  cannot be found by sampling; here it is a failed obligation.
-/
import Properties.TablesCommon

namespace Tables

/-- the admissible range per (type, logical type) -/
def genDomain : String → String → Option (Int × Int)
  | "int", "" => some (-2147483648, 2147483647)
  | "long", "" => some (-9223372036854775808, 9223372036854775807)
  | "int", "int-date" => some (1 - 719163, 3652059 - 719163)               -- date.min … date.max as days since the epoch
  | "int", "int-time-millis" => some (0, 86400000 - 1)                      -- a time of day
  | "long", "long-time-micros" => some (0, 86400000000 - 1)
  | "long", "long-timestamp-millis" => some (-62135596800000, 253402300799999)            -- datetime.min … datetime.max
  | "long", "long-local-timestamp-millis" => some (-62135596800000, 253402300799999)
  | "long", "long-timestamp-micros" => some (-62135596800000000, 253402300799999999)
  | "long", "long-local-timestamp-micros" => some (-62135596800000000, 253402300799999999)
  | _, _ => none

def rangeOk (e : String × String × Int × Int) : Bool :=
  match genDomain e.1 e.2.1 with
  | some (lo, hi) => decide (e.2.2.1 ≤ e.2.2.2) && decide (lo ≤ e.2.2.1) && decide (e.2.2.2 ≤ hi)
  | none => false

/-- the plain `int` / `long` ranges are exactly the full ranges (the model generator uses them) -/
def plainExact (es : List (String × String × Int × Int)) : Bool :=
  es.contains ("int", "", -2147483648, 2147483647) && es.contains ("long", "", -9223372036854775808, 9223372036854775807)

theorem generate_ranges : Gen.genRanges.all rangeOk = true ∧ plainExact Gen.genRanges = true := by decide

end Tables
