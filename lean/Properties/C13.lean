/-
  Properties/C13.lean — the canonical form `to_parsing_canonical_form(parse_schema(raw))` IS the
  specification's transformation `Spec.pcf` of the raw schema (Spec/Pcf.lean: written from the
  specification's rule list, on the raw JSON value, independently of `parse_schema`).

  What is proved here, for every raw schema, namespace nesting and depth:
    * `c13_eq_spec`      — equality with the specification's transformation whenever the parser accepts;
    * `c13_spec_stable`  — the transformation does not depend on the depth bound once it is defined;
    * `c13_cosmetic_type`, `c13_cosmetic_field` — the transformation reads only type, name, namespace,
       fields, symbols, items, values, size (of a type) and name, type (of a field): any edit confined
       to other attributes, or to the order of attributes, leaves the canonical form unchanged.
    * `c13_cosmetic_name`, `c13_inherited_namespace` — name and namespace attributes matter only through the
       full name and the namespace put in effect (`Spec.fullNameOf`): namespace + name versus dotted name,
       inherited versus spelled-out namespace.
    * `c13_fixed_point`, `c13_idempotent` — the fixed-point clause at the level of JSON values: `Canon.toRaw s` is the
       value the canonical text denotes (compared with `json.loads` of the implementation's text on every harness case);
       the specification's transformation applied to it returns the same text, for every schema whose names read back
       in scope (`inScope`; the complement is finding F18, shown by evaluation below).
  Tested, not proved (harness props/c13.py): `json.loads` itself, and the same-encoding clause, which runs through the
  binary codec.
-/
import Proofs.Canon
import Proofs.CanonFixed


open Parse

/-- **C13 (equality with the specification).** -/
theorem c13_eq_spec (fuel : Nat) (raw : Val) (env env' : Env) (ign : Bool) (s : Schema)
    (h : parseTop fuel raw env ign = .ok (s, env')) :
    Spec.pcf (fuel+1) raw "" = some (Canon.canon s) :=
  CanonProofs.parseTop_pcf fuel raw env env' ign s h

/-- nested position: the same statement for a schema parsed inside namespace `ns` -/
theorem c13_eq_spec_nested (fuel : Nat) (raw : Val) (ns : String) (st st' : St) (dflt : Option Val) (ign : Bool) (s : Schema)
    (h : parse fuel raw ns st dflt ign = .ok (s, st')) :
    Spec.pcf fuel raw ns = some (Canon.canon s) :=
  CanonProofs.parse_pcf fuel raw ns st dflt ign s st' h

/-- the depth bound is immaterial -/
theorem c13_spec_stable (fuel : Nat) (raw : Val) (ns t : String) (h : Spec.pcf fuel raw ns = some t) :
    Spec.pcf (fuel+1) raw ns = some t :=
  CanonProofs.pcf_mono fuel raw ns t h

def C13_KEPT : List String := ["type", "name", "namespace", "fields", "symbols", "items", "values", "size"]

/-- **C13 (cosmetic edits of a type).** Two type definitions that agree on the attributes the
    specification keeps (and on `namespace`, which determines the full name) have the same canonical
    form — whatever else (doc, aliases, default, order, logicalType, custom attributes, attribute
    order) differs. -/
theorem c13_cosmetic_type (fuel : Nat) (kv kv' : List (Val × Val)) (ns : String)
    (h : ∀ k ∈ C13_KEPT, dictGetV kv k = dictGetV kv' k) :
    Spec.pcf fuel (.dict kv) ns = Spec.pcf fuel (.dict kv') ns := by
  have h1 := h "type" (by decide)
  have h2 := h "name" (by decide)
  have h3 := h "namespace" (by decide)
  have h4 := h "fields" (by decide)
  have h5 := h "symbols" (by decide)
  have h6 := h "items" (by decide)
  have h7 := h "values" (by decide)
  have h8 := h "size" (by decide)
  cases fuel with
  | zero => rfl
  | succ fuel => simp only [Spec.pcf, Spec.fullNameOf, dictListOr, h1, h2, h3, h4, h5, h6, h7, h8]

/-- **C13 (cosmetic edits of a field).** Only a field's name and type reach the canonical form. -/
theorem c13_cosmetic_field (f : Val → Option String) (kv kv' : List (Val × Val))
    (hn : dictGetV kv "name" = dictGetV kv' "name") (ht : dictGetV kv "type" = dictGetV kv' "type") :
    Spec.fieldTextWith f (.dict kv) = Spec.fieldTextWith f (.dict kv') := by
  simp only [Spec.fieldTextWith, hn, ht]

def C13_KEPT_BODY : List String := ["type", "fields", "symbols", "items", "values", "size"]

/-- **C13 (namespace + name versus dotted name, inherited versus spelled-out namespace).** The name attributes reach
    the canonical form only through the full name and the namespace they put in effect for nested types: two type
    definitions with the same `Spec.fullNameOf` and the same kept attributes have the same canonical form. -/
theorem c13_cosmetic_name (fuel : Nat) (kv kv' : List (Val × Val)) (ns : String)
    (hname : Spec.fullNameOf kv ns = Spec.fullNameOf kv' ns)
    (h : ∀ k ∈ C13_KEPT_BODY, dictGetV kv k = dictGetV kv' k) :
    Spec.pcf fuel (.dict kv) ns = Spec.pcf fuel (.dict kv') ns := by
  have h1 := h "type" (by decide)
  have h4 := h "fields" (by decide)
  have h5 := h "symbols" (by decide)
  have h6 := h "items" (by decide)
  have h7 := h "values" (by decide)
  have h8 := h "size" (by decide)
  cases fuel with
  | zero => rfl
  | succ fuel => simp only [Spec.pcf, dictListOr, hname, h1, h4, h5, h6, h7, h8]

/-- spelling out the namespace a type would inherit anyway changes nothing -/
theorem c13_inherited_namespace (kv kv' : List (Val × Val)) (ns : String)
    (hn : dictGetV kv "name" = dictGetV kv' "name")
    (h0 : dictGetV kv "namespace" = none) (h1 : dictGetV kv' "namespace" = some (.str ns)) :
    Spec.fullNameOf kv ns = Spec.fullNameOf kv' ns := by
  simp only [Spec.fullNameOf, hn, h0, h1]

/- `{"namespace": "a.b", "name": "R"}` and `{"name": "a.b.R"}` have the same full name and put the same namespace
   in effect (compiled evaluation: the kernel cannot unfold `splitOn`) -/
#guard Spec.fullNameOf [(.str "name", .str "R"), (.str "namespace", .str "a.b")] "x" ==
       Spec.fullNameOf [(.str "name", .str "a.b.R")] "x"

/-! non-vacuity (evaluated with `#guard`, i.e. by the compiler — the kernel cannot unfold the string
    primitives `contains`/`splitOn`; this is a witness that the hypothesis is satisfiable, not a proof
    obligation): a schema with inherited, explicit and dotted names, a reference and a cosmetic attribute -/
def c13sample : Val := .dict [(.str "type", .str "record"), (.str "name", .str "R"), (.str "namespace", .str "a.b"),
  (.str "doc", .str "x"),
  (.str "fields", .list [
    .dict [(.str "name", .str "f"), (.str "type", .dict [(.str "type", .str "enum"), (.str "name", .str "E"),
        (.str "symbols", .list [.str "A", .str "B"])]), (.str "doc", .str "y")],
    .dict [(.str "name", .str "g"), (.str "type", .list [.str "null", .str "E", .str "a.b.R"])]])]

#guard (match parseTop 10 c13sample [] with
    | .ok (s, _) => Canon.canon s == "{\"name\":\"a.b.R\",\"type\":\"record\",\"fields\":[{\"name\":\"f\",\"type\":{\"name\":\"a.b.E\",\"type\":\"enum\",\"symbols\":[\"A\",\"B\"]}},{\"name\":\"g\",\"type\":[\"null\",\"a.b.E\",\"a.b.R\"]}]}"
    | _ => false)


/-! ### fixed point -/
open Canon CanonProofs

/-- **C13 (fixed point).** The canonical text of a parsed schema denotes the JSON value `Canon.toRaw s`; the
    specification's transformation applied to THAT value gives the same text again — provided every name reads back,
    in the namespace context the canonical form gives it, as the same full name (`inScope`: a name without a dot only
    where no namespace is in effect; finding F18 is the other case) -/
theorem c13_fixed_point (s : Schema) (ns : String) (hs : inScope ns s = true) :
    Spec.pcf (depth s) (toRaw s) ns = some (canon s) :=
  fp_all (depth s) s ns hs (Nat.le_refl _)

/-- ... hence the transformation is idempotent on whatever `parse_schema` accepts: transforming the canonical form of
    `raw` gives the canonical form of `raw` -/
theorem c13_idempotent (fuel : Nat) (raw : Val) (env env' : Env) (ign : Bool) (s : Schema)
    (h : parseTop fuel raw env ign = .ok (s, env')) (hs : inScope "" s = true) :
    Spec.pcf (depth s) (toRaw s) "" = Spec.pcf (fuel+1) raw "" := by
  rw [c13_fixed_point s "" hs, c13_eq_spec fuel raw env env' ign s h]

/-! F18 as an evaluation (`#guard`: run by Lean's evaluator when the file is checked — a test, not a theorem): a type reset
    to the null namespace inside a namespaced record — its name has no dot, reading the canonical form back puts it into
    the enclosing namespace, and the fixed point fails; `inScope` is exactly what excludes it -/
def c13f18 : Schema := .record "ns.R" [.mk "e" (.enum "X" ["A"] none []) none []] []
#guard inScope "" c13f18 == false
#guard Spec.pcf 4 (toRaw c13f18) "" == some "{\"name\":\"ns.R\",\"type\":\"record\",\"fields\":[{\"name\":\"e\",\"type\":{\"name\":\"ns.X\",\"type\":\"enum\",\"symbols\":[\"A\"]}}]}"
#guard canon c13f18 == "{\"name\":\"ns.R\",\"type\":\"record\",\"fields\":[{\"name\":\"e\",\"type\":{\"name\":\"X\",\"type\":\"enum\",\"symbols\":[\"A\"]}}]}"

/-! non-vacuity: a record in a namespace holding a nested record, an enum and a by-name reference -/
def c13fp : Schema := .record "a.b.R" [.mk "x" (.record "a.b.In" [.mk "e" (.enum "c.E" ["A", "B"] none []) none []] []) none [],
  .mk "again" (.union [.prim .null false none, .ref "c.E"]) none [], .mk "f" (.array (.fixed "a.F" 4 none [])) none []] []
#guard inScope "" c13fp
#guard Spec.pcf (depth c13fp) (toRaw c13fp) "" == some (canon c13fp)
