/-
  Properties/TablesResolve.lean — obligations that tie the resolution model to /repo's current
  source through the tables regenerated each run (Gen/Tables.lean):
  the promotion pairs `match_types` accepts, `maybe_promote` tabulated over its decision domain,
  the type-name sets and the reader/skip dispatch tables.
-/
import Properties.TablesCommon
import Model.Resolve

namespace Tables

theorem resolve_tables :
    Gen.promotions = Resolve.PROMOTIONS ∧
    Gen.promoteOps.all (fun (w, r, op) => Resolve.promoteOp w r == op) = true ∧
    Gen.promoteOps.length = 49 ∧
    strSet? "const.NAMED_TYPES" = some Resolve.NAMED_TYPES ∧
    strSet? "const.AVRO_TYPES" = some Resolve.AVRO_TYPES := by
  decide

theorem resolve_dispatch :
    (Gen.dispatch.lookup "_read_py.READERS").map (·.map Prod.fst) = (Gen.dispatch.lookup "_read_py.SKIPS").map (·.map Prod.fst) ∧
    ((Gen.dispatch.lookup "_read_py.READERS").getD []).lookup "record" = some "read_record" ∧
    ((Gen.dispatch.lookup "_read_py.READERS").getD []).lookup "enum" = some "read_enum" ∧
    ((Gen.dispatch.lookup "_read_py.READERS").getD []).lookup "union" = some "read_union" ∧
    ((Gen.dispatch.lookup "_read_py.READERS").getD []).lookup "array" = some "read_array" ∧
    ((Gen.dispatch.lookup "_read_py.READERS").getD []).lookup "map" = some "read_map" ∧
    ((Gen.dispatch.lookup "_read_py.READERS").getD []).lookup "fixed" = some "read_fixed" := by
  decide

end Tables
