/-
  Properties/C19.lean — load_schema from per-type files.

  `load_schema` parses the root file; when the parser stops at an unknown name it loads that type
  and substitutes its (parsed) definition into the schema with `_inject_schema`, then parses again.
  PROVED about `_inject_schema` (model Load.inject), for every raw schema and namespace nesting:
    * `c19_reference_resolution` — a reference is resolved against the namespace in effect exactly
      as `parse_schema` resolves it (the specification's rule Spec.refName) and is replaced iff it
      denotes the loaded definition's full name; record fields are searched in the namespace
      `schema_name` gives them (`c19_record_namespace`);
    * `c19_inject_first_use` — among union branches / record fields exactly the first position that
      contains the reference is rewritten and everything after it is left untouched;
      `c19_inject_absent_unchanged` — when no position contains it the flag stays down;
      `c19_inject_at_most_once` — once the flag is up nothing further is replaced.
  NOT PROVED (checked on the implementation against an independent first-use inliner): that the
  iteration parse → load → inject → parse terminates with the schema that parses like the inlined
  one (canonical form, encoding of data), `load_schema_ordered`, and the error for a missing file.
-/
import Proofs.Load

open Load Binary LoadProofs

theorem c19_reference_resolution (fuel : Nat) (inner : Val) (innerName name ns : String) (hp : isPrimName name = false) :
    inject (fuel+1) inner innerName (.str name) ns false =
      if Spec.refName name ns == innerName then .ok (inner, true) else .ok (.str (Spec.refName name ns), false) :=
  inject_ref fuel inner innerName name ns hp

theorem c19_record_namespace (fuel : Nat) (inner : Val) (innerName : String) (kv : List (Val × Val)) (ns ns' full : String)
    (hty : dictGetV kv "type" = some (.str "record")) (hn : Parse.schemaName kv ns = .ok (ns', full)) :
    inject (fuel+1) inner innerName (.dict kv) ns false = (do
      let (fs, i) ← injectListWith (injectFieldWith fun t inj => inject fuel inner innerName t ns' inj) (dictListOr kv "fields") false
      if fs.isEmpty then pure (.dict kv, i) else pure (.dict (valDictSet kv "fields" (.list fs)), i)) :=
  inject_record fuel inner innerName kv ns ns' full hty hn

theorem c19_inject_first_use (f : Val → Bool → R (Val × Bool)) (x x' : Val) (post pre pre' : List Val)
    (hpre : Untouched f pre pre') (hx : f x false = .ok (x', true)) :
    injectListWith f (pre ++ x :: post) false = .ok (pre' ++ x' :: post, true) :=
  list_first f x x' post pre pre' hpre hx

theorem c19_inject_absent_unchanged (f : Val → Bool → R (Val × Bool)) (xs xs' : List Val) (h : Untouched f xs xs') :
    injectListWith f xs false = .ok (xs', false) :=
  list_none f xs xs' h

theorem c19_inject_at_most_once (fuel : Nat) (inner : Val) (innerName : String) (outer : Val) (ns : String)
    (f : Val → Bool → R (Val × Bool)) (xs : List Val) :
    inject (fuel+1) inner innerName outer ns true = .ok (outer, true) ∧ injectListWith f xs true = .ok (xs, true) :=
  ⟨inject_done fuel inner innerName outer ns, list_done f xs⟩

/-! non-vacuity: the reference `Child` inside namespace `ns` is the definition `ns.Child` -/
def c19outer : Val := .dict [(.str "type", .str "record"), (.str "name", .str "P"), (.str "namespace", .str "ns"),
  (.str "fields", .list [.dict [(.str "name", .str "a"), (.str "type", .str "int")],
                         .dict [(.str "name", .str "c"), (.str "type", .list [.str "null", .str "Child"])],
                         .dict [(.str "name", .str "d"), (.str "type", .str "Child")]])]
def c19inner : Val := .dict [(.str "type", .str "enum"), (.str "name", .str "ns.Child"), (.str "symbols", .list [.str "A"])]

#guard (match inject 10 c19inner "ns.Child" c19outer "" false with
  | .ok (.dict kv, true) =>
    (match dictGetV kv "fields" with
     | some (.list [_, .dict c, .dict d]) =>
        (match dictGetV c "type", dictGetV d "type" with
         | some (.list [.str "null", .dict _]), some (.str "Child") => true
         | _, _ => false)
     | _ => false)
  | _ => false)
