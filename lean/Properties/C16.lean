/-
  Properties/C16.lean — logical types use the specification's representation and round-trip over
  their whole domain. Lemmas: Proofs/Logical.lean. (UUID: `str(uuid)` / `uuid.UUID(str)` are standard
  library calls; the model is an identity on 128-bit values and is only tied by correspondence.)
-/
import Proofs.Logical

open Logical LogicalProofs

/-- dates: every date from 0001-01-01 (ordinal 1) to 9999-12-31 (ordinal 3652059) is stored as days
    from 1970-01-01, fits an `int`, and reads back unchanged -/
theorem c16_date (o : Int) (h : 1 ≤ o ∧ o ≤ 3652059) :
    prepareDate (.date o) = .ok (.int (o - 719163)) ∧ readDate (o - 719163) = .ok (.date o) ∧
    (-2147483648 ≤ o - 719163 ∧ o - 719163 ≤ 2147483647) := date_roundtrip o h

/-- time-millis: every µs of the day is stored as whole milliseconds after midnight and reads back
    truncated to the millisecond -/
theorem c16_time_millis (us : Nat) (h : us < 86400000000) :
    prepareTimeMillis (.time us) = .ok (.int ((us / 1000 : Nat) : Int)) ∧
    readTimeMillis ((us / 1000 : Nat) : Int) = .ok (.time (us / 1000 * 1000)) := time_millis us h

theorem c16_time_micros (us : Nat) (h : us < 86400000000) :
    prepareTimeMicros (.time us) = .ok (.int (us : Int)) ∧ readTimeMicros (us : Int) = .ok (.time us) :=
  time_micros us h

/-- timestamp-millis (and the local variant): every instant of the datetime range, before or after
    the epoch, is stored as ⌊µs/1000⌋ (floor) and reads back as that millisecond -/
theorem c16_timestamp_millis (us : Int) (aware : Bool) (h : DT_MIN_US ≤ us ∧ us ≤ DT_MAX_US) :
    prepareTimestampMillis (.datetime us aware) = .ok (.int (us / 1000)) ∧
    readTimestamp aware (us / 1000 * 1000) = .ok (.datetime (us / 1000 * 1000) aware) ∧
    us - 999 ≤ us / 1000 * 1000 ∧ us / 1000 * 1000 ≤ us := timestamp_millis us aware h

theorem c16_timestamp_micros (us : Int) (aware : Bool) (h : DT_MIN_US ≤ us ∧ us ≤ DT_MAX_US) :
    prepareTimestampMicros (.datetime us aware) = .ok (.int us) ∧
    readTimestamp aware us = .ok (.datetime us aware) := timestamp_micros us aware h

/-- `to_bytes(…, signed=True)` / `from_bytes(…, signed=True)` are inverse -/
theorem c16_twos_complement (len : Nat) (n : Int) (b : Bytes) (h : Py.toBytesBESigned len n = some b) :
    Py.fromBytesBESigned b = n ∧ b.length = len := twos_complement_roundtrip len n b h

/-- bytes decimal: accepted ⇒ the bytes are a big-endian two's complement of exactly the unscaled
    integer, and the digit-count and scale guards held -/
theorem c16_bytes_decimal (lt : LogT) (sign : Bool) (digits : List Nat) (exp : Int) (v : Val)
    (h : prepareBytesDecimal lt (.decimal sign digits exp) = .ok v) :
    ∃ b p, v = .bytes b ∧ lt.precision = some p ∧ (digits.length : Int) ≤ p ∧ 0 ≤ exp + lt.scale ∧
      Py.fromBytesBESigned b = signedUnscaled sign (10 ^ (exp + lt.scale).toNat * digitsToNat digits) :=
  bytes_decimal lt sign digits exp v h

/-- fixed decimal: accepted ⇒ exactly `size` bytes, the sign-extended two's complement of exactly the
    unscaled integer (negative zero ↦ zero) -/
theorem c16_fixed_decimal (lt : LogT) (size : Nat) (sign : Bool) (digits : List Nat) (exp : Int) (v : Val)
    (h : prepareFixedDecimal lt size (.decimal sign digits exp) = .ok v) :
    ∃ b p, v = .bytes b ∧ b.length = size ∧ lt.precision = some p ∧ (digits.length : Int) ≤ p ∧
      -exp ≤ lt.scale ∧
      Py.fromBytesBESigned b = signedUnscaled sign (digitsToNat (paddedDigits digits exp lt.scale)) :=
  fixed_decimal lt size sign digits exp v h

/-- a decimal is never stored as a different number: too many digits, too many fractional digits or a
    value outside the fixed size's range is an error (ValueError), not a stored value -/
theorem c16_decimal_never_other_number (lt : LogT) (p : Int) (hp : lt.precision = some p)
    (sign : Bool) (digits : List Nat) (exp : Int) :
    ((digits.length : Int) > p →
        prepareBytesDecimal lt (.decimal sign digits exp) = .error .value ∧
        ∀ size, prepareFixedDecimal lt size (.decimal sign digits exp) = .error .value) ∧
    (exp + lt.scale < 0 →
        (¬ (digits.length : Int) > p → prepareBytesDecimal lt (.decimal sign digits exp) = .error .value) ∧
        ∀ size, ¬ (digits.length : Int) > p →
          prepareFixedDecimal lt size (.decimal sign digits exp) = .error .value) := by
  refine ⟨fun h => ⟨?_, fun size => ?_⟩, fun h => ⟨fun h1 => ?_, fun size h1 => ?_⟩⟩
  · simp [prepareBytesDecimal, hp, h, bind, Except.bind, pure, Except.pure, throw, throwThe, MonadExceptOf.throw]
  · simp [prepareFixedDecimal, hp, h, bind, Except.bind, pure, Except.pure, throw, throwThe, MonadExceptOf.throw]
  · simp [prepareBytesDecimal, hp, h1, h, bind, Except.bind, pure, Except.pure, throw, throwThe, MonadExceptOf.throw]
  · have h2 : -exp > lt.scale := by omega
    simp [prepareFixedDecimal, hp, h1, h2, bind, Except.bind, pure, Except.pure, throw, throwThe, MonadExceptOf.throw]

/-! non-vacuity -/
example : (match prepareFixedDecimal { name := "decimal", precision := some 4, scale := 2 } 2 (.decimal true [0] 0) with
    | .ok (.bytes [0, 0]) => true | _ => false) = true := by decide +kernel      -- negative zero is zero
example : (match prepareFixedDecimal { name := "decimal", precision := some 2, scale := 0 } 1 (.decimal true [4, 7] 1) with
    | .error .value => true | _ => false) = true := by decide +kernel            -- −470 does not fit one byte
example : (match prepareFixedDecimal { name := "decimal", precision := some 3, scale := 0 } 1 (.decimal true [1, 2, 8] 0) with
    | .ok (.bytes [0x80]) => true | _ => false) = true := by decide +kernel      -- −128, the most negative value
