/-
  Properties/C11.lean — `parse_schema` names types per the specification and rejects ill-formed schemas.

  Naming.  `c11_names`: whatever the parser accepts, every named type carries the full name given by
  the specification's namespace rules and every reference is spelled with the full name it denotes
  — stated through the canonical text, which spells exactly those names (`Spec.fullNameOf`,
  `Spec.refName`) at every position of the tree.  `c11_reference_resolves`: an accepted reference
  names an entry of the named-schema table.
  Rejection.  One theorem per rule of the property, each at the level where the rule applies, and
  `c11_error_propagates_*`: an error raised at any child position (union branch, array items, map
  values, record field — after the siblings before it parsed) is the error of the parent.  By
  induction on the path, a rule that fires at a node fires for the whole schema, at every depth.
  Acceptance of valid schemas is a statement about the generator's notion of "valid"; it is checked
  by the harness (model and implementation accept the same schemas), not proved.
-/
import Proofs.Canon
import Proofs.Reject
import Proofs.EnvInv


open Parse RejectProofs

/-- **C11 (names).** -/
theorem c11_names (fuel : Nat) (raw : Val) (env env' : Env) (ign : Bool) (s : Schema)
    (h : parseTop fuel raw env ign = .ok (s, env')) :
    Spec.pcf (fuel+1) raw "" = some (Canon.canon s) :=
  CanonProofs.parseTop_pcf fuel raw env env' ign s h

/-- an accepted by-name reference is spelled with the specification's full name and denotes an entry
    of the named-schema table -/
theorem c11_reference_resolves (name ns : String) (st st' : St) (dflt : Option Val) (ign : Bool) (s : Schema)
    (hp : Prim.ofName? name = none) (h : parseName name ns st dflt ign = .ok (s, st')) :
    s = .ref (Spec.refName name ns) ∧ (st.env.get? (Spec.refName name ns)).isSome = true :=
  ref_defined name ns st st' dflt ign s hp h

/-- **C11 (undefined reference).** -/
theorem c11_reject_undefined (fuel : Nat) (name ns : String) (st : St) (dflt : Option Val) (ign : Bool)
    (hp : Prim.ofName? name = none) (hu : st.env.get? (Spec.refName name ns) = none) :
    parse (fuel+1) (.str name) ns st dflt ign = .error .unknownType := by
  simp only [parse, undefined_ref name ns st dflt ign hp hu]

/-- **C11 (a name defined twice).** A definition whose full name is already in the per-parse name
    set is rejected … -/
theorem c11_reject_redefined (fuel : Nat) (kv : List (Val × Val)) (ns ns' full ty : String) (st : St) (dflt : Option Val)
    (ign : Bool) (lt : Option LogT)
    (hty : dictType kv = .ok ty) (hl : parseLogical kv (ty == "fixed") = .ok lt)
    (hnamed : ty = "enum" ∨ ty = "fixed" ∨ ty = "record")
    (hn : schemaName kv ns = .ok (ns', full)) (hd : st.names.contains full = true) :
    parse (fuel+1) (.dict kv) ns st dflt ign = .error .parse := by
  rcases hnamed with rfl | rfl | rfl
  · rw [route_enum fuel kv ns st dflt ign lt hty hl]; exact redefined_enum kv ns ns' full st dflt ign hn hd
  · rw [route_fixed fuel kv ns st dflt ign lt hty hl]; exact redefined_fixed kv ns ns' full st dflt ign lt hn hd
  · rw [route_record fuel kv ns st dflt ign lt hty hl]; exact redefined_record _ kv ns ns' full st dflt ign hn hd

/-- … every accepted definition puts its full name into that set … -/
theorem c11_definition_registers (fuel : Nat) (kv : List (Val × Val)) (ns ty : String) (st st' : St) (dflt : Option Val)
    (ign : Bool) (lt : Option LogT) (s : Schema)
    (hty : dictType kv = .ok ty) (hl : parseLogical kv (ty == "fixed") = .ok lt)
    (hnamed : ty = "enum" ∨ ty = "fixed" ∨ ty = "record")
    (h : parse (fuel+1) (.dict kv) ns st dflt ign = .ok (s, st')) :
    ∃ ns' full, schemaName kv ns = .ok (ns', full) ∧ st.names.contains full = false ∧ full ∈ st'.names := by
  rcases hnamed with rfl | rfl | rfl
  · rw [route_enum fuel kv ns st dflt ign lt hty hl] at h
    obtain ⟨ns', full, h1, h2, h3⟩ := enum_registers kv ns st st' dflt ign s h
    exact ⟨ns', full, h1, h2, by rw [h3]; simp⟩
  · rw [route_fixed fuel kv ns st dflt ign lt hty hl] at h
    obtain ⟨ns', full, h1, h2, h3⟩ := fixed_registers kv ns st st' dflt ign lt s h
    exact ⟨ns', full, h1, h2, by rw [h3]; simp⟩
  · rw [route_record fuel kv ns st dflt ign lt hty hl] at h
    obtain ⟨ns', full, h1, h2, h3⟩ := record_registers _
      (fun ns' xs st fs st' hx => fields_names_mono _ (fun x st d s st' hx => names_mono fuel x ns' st d ign s st' hx) xs st fs st' hx)
      kv ns st st' dflt ign s h
    exact ⟨ns', full, h1, h2, h3 full (by simp)⟩

/-- **the named-schema table holds named-type definitions, each under its own full name** — whatever
    raw schema is parsed, at any depth; this discharges the table hypotheses of C08 (`EnvWF.named`) and
    C15 (`JsonBack.EnvNamed`) for every table `parse_schema` builds -/
theorem c11_table_holds_definitions (fuel : Nat) (raw : Val) (env env' : Env) (ign : Bool) (s : Schema)
    (h : parseTop fuel raw env ign = .ok (s, env'))
    (hi : ∀ n d, env.get? n = some d → d.isNamedDef = true ∧ d.defName? = some n) :
    ∀ n d, env'.get? n = some d → d.isNamedDef = true ∧ d.defName? = some n :=
  EnvInv.parseTop_named fuel raw env env' ign s h hi

/-- … and the set only grows while the rest of the schema is parsed: the second definition of a name,
    wherever it comes later in the tree, meets `c11_reject_redefined`. -/
theorem c11_names_only_grow (fuel : Nat) (raw : Val) (ns : String) (st st' : St) (dflt : Option Val) (ign : Bool) (s : Schema)
    (h : parse fuel raw ns st dflt ign = .ok (s, st')) : ∀ n, n ∈ st.names → n ∈ st'.names :=
  names_mono fuel raw ns st dflt ign s st' h

/-- **C11 (named type without a name).** -/
theorem c11_reject_unnamed (fuel : Nat) (kv : List (Val × Val)) (ns ty : String) (st : St) (dflt : Option Val)
    (ign : Bool) (lt : Option LogT)
    (hty : dictType kv = .ok ty) (hl : parseLogical kv (ty == "fixed") = .ok lt)
    (hnamed : ty = "enum" ∨ ty = "fixed" ∨ ty = "record")
    (h : dictGetV kv "name" = none) :
    parse (fuel+1) (.dict kv) ns st dflt ign = .error .parse := by
  rcases hnamed with rfl | rfl | rfl
  · rw [route_enum fuel kv ns st dflt ign lt hty hl]; exact unnamed_enum kv ns st dflt ign h
  · rw [route_fixed fuel kv ns st dflt ign lt hty hl]; exact unnamed_fixed kv ns st dflt ign lt h
  · rw [route_record fuel kv ns st dflt ign lt hty hl]; exact unnamed_record _ kv ns st dflt ign h

/-- **C11 (enum symbols).** A malformed symbol, a duplicate symbol, or a default outside the list. -/
theorem c11_reject_symbols (fuel : Nat) (kv : List (Val × Val)) (ns ns' full : String) (st : St) (dflt : Option Val)
    (ign : Bool) (lt : Option LogT) (symsL : List Val)
    (hty : dictType kv = .ok "enum") (hl : parseLogical kv false = .ok lt)
    (hn : schemaName kv ns = .ok (ns', full)) (hc : st.names.contains full = false)
    (hs : dictGetV kv "symbols" = some (.list symsL))
    (hbad : (∃ x ∈ symsL, symValOk x = false) ∨ (symNames symsL).eraseDups.length ≠ (symNames symsL).length) :
    parse (fuel+1) (.dict kv) ns st dflt ign = .error .parse := by
  rw [route_enum fuel kv ns st dflt ign lt hty hl]
  refine enum_error kv ns ns' full st dflt ign .parse hn hc ?_
  rcases hbad with ⟨x, hx, hb⟩ | hdup
  · exact bad_symbol kv symsL hs x hx hb
  · exact duplicate_symbol kv symsL hs hdup

theorem c11_reject_enum_default (fuel : Nat) (kv : List (Val × Val)) (ns ns' full : String) (st : St) (dflt : Option Val)
    (ign : Bool) (lt : Option LogT) (symsL : List Val) (d : Val)
    (hty : dictType kv = .ok "enum") (hl : parseLogical kv false = .ok lt)
    (hn : schemaName kv ns = .ok (ns', full)) (hc : st.names.contains full = false)
    (hs : dictGetV kv "symbols" = some (.list symsL)) (hd : dictGetV kv "default" = some d)
    (hout : ∀ t, d = .str t → (symNames symsL).contains t = false) :
    parse (fuel+1) (.dict kv) ns st dflt ign = .error .parse := by
  rw [route_enum fuel kv ns st dflt ign lt hty hl]
  exact enum_error kv ns ns' full st dflt ign .parse hn hc (enum_default_outside kv symsL hs d hd hout)

/-- **C11 (field default of the wrong JSON type)** — primitive named by a string … -/
theorem c11_reject_default_prim (fuel : Nat) (name ns : String) (st : St) (p : Prim) (d : Val)
    (hp : Prim.ofName? name = some p) (hd : defaultMatches d (.prim p false none) = false) :
    parse (fuel+1) (.str name) ns st (some d) false = .error .parse := by
  simp only [parse, bad_default_prim name ns st p d hp hd]

/-- … union: no branch matches … -/
theorem c11_reject_default_union (fuel : Nat) (xs : List Val) (ns : String) (st st1 : St) (d : Val) (bs : List Schema)
    (hp : parseListWith (fun x st => parse fuel x ns st none false) xs st = .ok (bs, st1))
    (hd : bs.any (defaultMatches d) = false) :
    parse (fuel+1) (.list xs) ns st (some d) false = .error .parse :=
  bad_default_union fuel xs ns st st1 d bs hp hd

/-- … array, map, enum, fixed, record: the default must be a JSON array / object / string / string /
    object (when everything else about the type is fine; otherwise another rejection applies). -/
theorem c11_reject_default_array (fuel : Nat) (kv : List (Val × Val)) (ns : String) (st st1 : St) (lt) (d items : Val) (s : Schema)
    (hty : dictType kv = .ok "array") (hl : parseLogical kv false = .ok lt)
    (hi : getKey kv "items" = .ok items) (hp : parse fuel items ns st none false = .ok (s, st1)) (hd : isList d = false) :
    parse (fuel+1) (.dict kv) ns st (some d) false = .error .parse := by
  rw [route_array fuel kv ns st _ false lt hty hl]
  exact bad_default_array _ kv st st1 d items s hi hp hd

theorem c11_reject_default_map (fuel : Nat) (kv : List (Val × Val)) (ns : String) (st st1 : St) (lt) (d values : Val) (s : Schema)
    (hty : dictType kv = .ok "map") (hl : parseLogical kv false = .ok lt)
    (hi : getKey kv "values" = .ok values) (hp : parse fuel values ns st none false = .ok (s, st1)) (hd : isDict d = false) :
    parse (fuel+1) (.dict kv) ns st (some d) false = .error .parse := by
  rw [route_map fuel kv ns st _ false lt hty hl]
  exact bad_default_map _ kv st st1 d values s hi hp hd

theorem c11_reject_default_named (fuel : Nat) (kv : List (Val × Val)) (ns ns' full ty : String) (st : St) (lt) (d : Val)
    (hty : dictType kv = .ok ty) (hl : parseLogical kv (ty == "fixed") = .ok lt)
    (hn : schemaName kv ns = .ok (ns', full)) (hc : st.names.contains full = false)
    (hcase : (ty = "enum" ∧ (∃ r, enumSymbols kv = .ok r) ∧ isStr d = false) ∨ (ty = "fixed" ∧ isStr d = false) ∨
             (ty = "record" ∧ isDict d = false)) :
    parse (fuel+1) (.dict kv) ns st (some d) false = .error .parse := by
  rcases hcase with ⟨rfl, ⟨r, hr⟩, hd⟩ | ⟨rfl, hd⟩ | ⟨rfl, hd⟩
  · rw [route_enum fuel kv ns st _ false lt hty hl]; exact bad_default_enum kv ns ns' full st d r hn hc hr hd
  · rw [route_fixed fuel kv ns st _ false lt hty hl]; exact bad_default_fixed kv ns ns' full st d lt hn hc hd
  · rw [route_record fuel kv ns st _ false lt hty hl]; exact bad_default_record _ kv ns ns' full st d hn hc hd

/-- **C11 (decimal annotations).** Scale / precision truthy but not a non-negative / positive integer;
    precision beyond what a fixed of `size` bytes holds; scale above precision. -/
theorem c11_reject_decimal (fuel : Nat) (kv : List (Val × Val)) (ns ty : String) (st : St) (dflt : Option Val) (ign : Bool)
    (hty : dictType kv = .ok ty) (hl : dictGetV kv "logicalType" = some (.str "decimal"))
    (hbad :
      (∃ v, dictGetV kv "scale" = some v ∧ truthy v = true ∧ ∀ n, asPyInt? v = some n → n < 0) ∨
      (ScaleFine (dictGetV kv "scale") ∧
        ∃ v, dictGetV kv "precision" = some v ∧ truthy v = true ∧ ∀ n, asPyInt? v = some n → n ≤ 0) ∨
      (ScaleFine (dictGetV kv "scale") ∧ ty = "fixed" ∧
        ∃ v n sz, dictGetV kv "precision" = some v ∧ truthy v = true ∧ asPyInt? v = some n ∧
          dictGetV kv "size" = some (.int sz) ∧ n > maxPrecision sz.toNat) ∨
      (ScaleFine (dictGetV kv "scale") ∧ PrecisionFine kv (dictGetV kv "precision") (ty == "fixed") ∧
        ∃ sv pv sc pr, dictGetV kv "scale" = some sv ∧ dictGetV kv "precision" = some pv ∧ truthy sv = true ∧
          truthy pv = true ∧ asPyInt? sv = some sc ∧ asPyInt? pv = some pr ∧ pr < sc)) :
    parse (fuel+1) (.dict kv) ns st dflt ign = .error .parse := by
  refine logical_error fuel kv ns st dflt ign ty .parse hty ?_
  rcases hbad with ⟨v, hs, ht, hb⟩ | ⟨hsc, v, hp, ht, hb⟩ | ⟨hsc, rfl, v, n, sz, hp, ht, hn, hsz, hbig⟩ |
      ⟨hsc, hpf, sv, pv, sc, pr, hs, hp, hts, htp, hsn, hpn, hab⟩
  · exact decimal_bad_scale kv _ v hl hs ht hb
  · exact decimal_bad_precision kv _ v hl hsc hp ht hb
  · exact decimal_precision_beyond_size kv v n sz hl hsc hp ht hn hsz hbig
  · exact decimal_scale_above_precision kv _ sv pv sc pr hl hsc hpf hs hp hts htp hsn hpn hab

/-- **C11 (every depth).** An error at a child position is the error of the parent. -/
theorem c11_error_propagates_union (fuel : Nat) (pre post : List Val) (x : Val) (ns : String) (st st1 : St) (bs : List Schema)
    (dflt : Option Val) (ign : Bool) (e : Err)
    (h1 : parseListWith (fun x st => parse fuel x ns st none ign) pre st = .ok (bs, st1))
    (h2 : parse fuel x ns st1 none ign = .error e) :
    parse (fuel+1) (.list (pre ++ x :: post)) ns st dflt ign = .error e :=
  union_error fuel pre post x ns st st1 bs dflt ign e h1 h2

theorem c11_error_propagates_array (fuel : Nat) (kv : List (Val × Val)) (ns : String) (st : St) (dflt : Option Val) (ign : Bool) (lt)
    (items : Val) (e : Err)
    (hty : dictType kv = .ok "array") (hl : parseLogical kv false = .ok lt) (hi : getKey kv "items" = .ok items)
    (h : parse fuel items ns st none ign = .error e) :
    parse (fuel+1) (.dict kv) ns st dflt ign = .error e :=
  array_error fuel kv ns st dflt ign lt items e hty hl hi h

theorem c11_error_propagates_map (fuel : Nat) (kv : List (Val × Val)) (ns : String) (st : St) (dflt : Option Val) (ign : Bool) (lt)
    (values : Val) (e : Err)
    (hty : dictType kv = .ok "map") (hl : parseLogical kv false = .ok lt) (hi : getKey kv "values" = .ok values)
    (h : parse fuel values ns st none ign = .error e) :
    parse (fuel+1) (.dict kv) ns st dflt ign = .error e :=
  map_error fuel kv ns st dflt ign lt values e hty hl hi h

theorem c11_error_propagates_field (fuel : Nat) (kv : List (Val × Val)) (ns ns' full : String) (st st1 : St) (dflt : Option Val)
    (ign : Bool) (lt) (pre post : List Val) (fkv : List (Val × Val)) (fs : List Field) (al : List String) (d : Option Val)
    (fname : String) (fty : Val) (e : Err)
    (hty : dictType kv = .ok "record") (hl : parseLogical kv false = .ok lt)
    (hn : schemaName kv ns = .ok (ns', full)) (hc : st.names.contains full = false)
    (hd : checkDefault dflt isDict ign = .ok ())
    (hf : dictListOr kv "fields" = pre ++ .dict fkv :: post)
    (hpre : parseFieldsWith (fun ty st d => parse fuel ty ns' st d ign) pre (recordSt kv full st) = .ok (fs, st1))
    (hh : fieldHeader fkv = .ok (al, d, fname, fty))
    (h : parse fuel fty ns' st1 d ign = .error e) :
    parse (fuel+1) (.dict kv) ns st dflt ign = .error e :=
  record_error fuel kv ns ns' full st st1 dflt ign lt pre post fkv fs al d fname fty e hty hl hn hc hd hf hpre hh h

/-- the top level adds nothing: a non-list schema rejected by `_parse_schema` is rejected by `parse_schema` -/
theorem c11_error_propagates_top (fuel : Nat) (raw : Val) (env : Env) (ign : Bool) (e : Err)
    (hnl : ∀ xs, raw ≠ .list xs) (h : parse fuel raw "" { names := [], env := env } none ign = .error e) :
    parseTop fuel raw env ign = .error e := by
  cases raw
  case list xs => exact absurd rfl (hnl xs)
  all_goals simp only [parseTop, h, error_bind]

/-! non-vacuity (`#guard`: evaluated by the compiler; the kernel cannot unfold `String.contains`):
    one ill-formed schema per rule, each nested inside a record field's array items -/
def c11wrap (t : Val) : Val := .dict [(.str "type", .str "record"), (.str "name", .str "R"), (.str "namespace", .str "n"),
  (.str "fields", .list [.dict [(.str "name", .str "f"), (.str "type", .dict [(.str "type", .str "array"), (.str "items", t)])]])]
def c11errOf (t : Val) : Option Err := match parseTop 10 (c11wrap t) [] with | .error e => some e | .ok _ => none
def c11enumOf (syms : List Val) (extra : List (Val × Val)) : Val :=
  .dict ([(.str "type", .str "enum"), (.str "name", .str "E"), (.str "symbols", .list syms)] ++ extra)

#guard c11errOf (.str "int") == none
#guard c11errOf (.str "Missing") == some .unknownType
#guard c11errOf (.str "R") == none
#guard c11errOf (.dict [(.str "type", .str "fixed"), (.str "name", .str "R"), (.str "size", .int 2)]) == some .parse
#guard c11errOf (.dict [(.str "type", .str "fixed"), (.str "size", .int 2)]) == some .parse
#guard c11errOf (c11enumOf [.str "A", .str "9x"] []) == some .parse
#guard c11errOf (c11enumOf [.str "A", .str "A"] []) == some .parse
#guard c11errOf (c11enumOf [.str "A"] [(.str "default", .str "B")]) == some .parse
#guard c11errOf (c11enumOf [.str "A"] [(.str "default", .str "A")]) == none
#guard c11errOf (.dict [(.str "type", .str "bytes"), (.str "logicalType", .str "decimal"), (.str "precision", .int (-3))]) == some .parse
#guard c11errOf (.dict [(.str "type", .str "bytes"), (.str "logicalType", .str "decimal"), (.str "precision", .int 3), (.str "scale", .int 4)]) == some .parse
#guard c11errOf (.dict [(.str "type", .str "fixed"), (.str "name", .str "F"), (.str "size", .int 1), (.str "logicalType", .str "decimal"), (.str "precision", .int 3)]) == some .parse
#guard c11errOf (.dict [(.str "type", .str "fixed"), (.str "name", .str "F"), (.str "size", .int 1), (.str "logicalType", .str "decimal"), (.str "precision", .int 2)]) == none
#guard (match parseTop 10 (.dict [(.str "type", .str "record"), (.str "name", .str "R"), (.str "fields", .list [
    .dict [(.str "name", .str "f"), (.str "type", .str "int"), (.str "default", .str "1")]])]) [] with
  | .error .parse => true | _ => false)


