/-
  Properties/C07.lean — any history of write / failed write / flush / block copy reads back as the
  records successfully submitted. Re-opening for append resumes from the same stream contents with an
  empty pending block (the file's own schema, codec and marker are used, arguments are ignored — that
  part is tied by correspondence), so a history with re-opens is a history without them.
  Lemmas: Proofs/Writer.lean.
-/
import Properties.C04

open Binary Container ContainerProofs WriterProofs

/-- **C07 (invariant).** for every finite history over {write a conforming record, write a record that
    fails, flush, copy a block that decodes to its record count}: the stream is `header ++` well-formed
    blocks, the pending buffer holds exactly `count` whole records, and blocks ++ pending are exactly the
    records successfully submitted, in submission order -/
theorem c07_history (fuel : Nat) (env : Env) (o : WOpts) (s : Schema) (validate : Val → R Bool) (cfg : WCfg)
    (hdr : Bytes) (ops : List Op)
    (hops : ∀ op ∈ ops, OpOk (fileEnc fuel env o s) (fileDec fuel env s) (fileNf fuel env o s) op) :
    let init : WState × Ghost := ({ out := hdr, pending := [], count := 0 }, { blocks := [], pend := [], submitted := [] })
    let sg := runG (fileEnc fuel env o s) (fileDec fuel env s) validate cfg (fileNf fuel env o s) init ops
    WInv (fileDec fuel env s) cfg hdr sg.1 sg.2 := by
  intro init sg
  have hinit : WInv (fileDec fuel env s) cfg hdr init.1 init.2 := ⟨by simp [init, flat], by simp [init], rfl, rfl⟩
  exact inv_run (fileEnc fuel env o s) (fileDec fuel env s) validate cfg (fileNf fuel env o s)
    (ExtendProofs.readData_ext env {} fuel s) hdr init ops hinit hops

/-- **C07 (read back).** after each flush the stream reads back as exactly the records successfully
    submitted so far, in submission order, and ends normally -/
theorem c07_flush_reads_back (fuel : Nat) (env : Env) (o : WOpts) (s : Schema) (validate : Val → R Bool) (cfg : WCfg)
    (hs : cfg.codec.Sound) (hsync : cfg.sync.length = 16) (hdr : Bytes) (st : WState) (g : Ghost)
    (h : WInv (fileDec fuel env s) cfg hdr st g)
    (hfit : ∀ b ∈ (gStep (fileEnc fuel env o s) (fileDec fuel env s) validate cfg (fileNf fuel env o s) st g .flush).blocks,
        b.count < 2 ^ 63 ∧ (cfg.codec.compress b.payload).length < 2 ^ 63)
    (k : Nat)
    (hk : (gStep (fileEnc fuel env o s) (fileDec fuel env s) validate cfg (fileNf fuel env o s) st g .flush).blocks.length < k) :
    ∃ area, (step (fileEnc fuel env o s) validate cfg st .flush).1.out = hdr ++ area ∧
      readBlocks (fileDec fuel env s) cfg.codec cfg.sync k area =
        ((gStep (fileEnc fuel env o s) (fileDec fuel env s) validate cfg (fileNf fuel env o s) st g .flush).submitted, .eof) :=
  flush_reads_back (fileEnc fuel env o s) (fileDec fuel env s) validate cfg (fileNf fuel env o s)
    (ExtendProofs.readData_ext env {} fuel s) hs hsync hdr st g h hfit k hk

/-- **C07 (failed write).** a write that raises — rejected by the validator or failing part-way
    through encoding — leaves the writer exactly as it was: it contributes nothing -/
theorem c07_failed_write_contributes_nothing (enc : Val → WR) (validate : Val → R Bool) (cfg : WCfg)
    (st : WState) (v : Val) (e : Err) (h : (step enc validate cfg st (.write v)).2 = some e) :
    (step enc validate cfg st (.write v)).1 = st :=
  failed_write_noop enc validate cfg st v e h

/-- **C07 (header).** nothing already on the stream is ever changed: after any history the stream is
    the old contents followed by more bytes — in particular the header (schema, codec, sync marker,
    metadata) written at creation never changes -/
theorem c07_header_never_changes (enc : Val → WR) (validate : Val → R Bool) (cfg : WCfg) (st : WState) (ops : List Op) :
    ∃ t, (run enc validate cfg st ops).out = st.out ++ t :=
  out_grows enc validate cfg st ops


/-- **C07 (re-opening for append).** a writer opened on a stream that already holds a container file written with
    header `(metadata, sync)` resumes with that file's own sync marker and codec name, whatever `codec`,
    `sync_marker`, `schema` or `metadata` arguments it is given: a history with re-opens is a history of one writer
    (`c07_history`) -/
theorem c07_reopen_resumes (metadata : List (String × Bytes)) (sync area hb : Bytes) (codecName : String)
    (hw : writeHeader metadata sync = ⟨hb, none⟩) (hsync : sync.length = 16)
    (hkeys : (metadata.map (·.1)).Nodup) (hlen : metadata.length < Spec.LIMIT)
    (hsmall : ∀ e ∈ metadata, (utf8Enc e.1).length < Spec.LIMIT ∧ e.2.length < Spec.LIMIT)
    (hcodec : metadata.lookup "avro.codec" = some (utf8Enc codecName)) :
    reopen (hb ++ area) = .ok (sync, codecName) := by
  unfold reopen
  rw [HeaderProofs.header_roundtrip metadata sync area hb hw hsync hkeys hlen hsmall]
  simp only [bind, Except.bind, Header.codecName, hcodec, utf8Dec_utf8Enc]
  rfl

/-- **C07 (append detection).** `_is_appendable`: exactly the seekable streams that are not at position 0, are not
    the interpreter's `<stdout>` and can be read; a stream that qualifies but cannot be read is an error -/
theorem c07_appendable_table (f : StreamFacts) :
    isAppendable f = (if f.seekable = true ∧ f.pos ≠ 0 ∧ f.isStdout = false then
        (if f.readable then .ok true else .error .value) else .ok false) := by
  obtain ⟨s, p, o, r⟩ := f
  cases s <;> cases o <;> cases r <;> by_cases hp : p = 0 <;> simp [isAppendable, hp]

/-- **C07 (a re-open is a flush).** On a stream that begins with the header this file was created with — whatever
    blocks follow — closing the writer and opening a new one for append, with any arguments, continues with the very
    same configuration and the state a `flush` leaves: a history with re-opens is the same history with flushes. -/
theorem c07_reopen_is_flush (enc : Val → WR) (validate : Val → R Bool) (codecFor : String → Option Codec)
    (cfg : WCfg) (st : WState) (metadata : List (String × Bytes)) (hb : Bytes) (codecName : String)
    (hw : writeHeader metadata cfg.sync = ⟨hb, none⟩) (hsync : cfg.sync.length = 16)
    (hkeys : (metadata.map (·.1)).Nodup) (hlen : metadata.length < Spec.LIMIT)
    (hsmall : ∀ e ∈ metadata, (utf8Enc e.1).length < Spec.LIMIT ∧ e.2.length < Spec.LIMIT)
    (hcodec : metadata.lookup "avro.codec" = some (utf8Enc codecName)) (hfor : codecFor codecName = some cfg.codec)
    (hout : ∃ area, st.out = hb ++ area) :
    reopenStep codecFor cfg st = .ok (cfg, (step enc validate cfg st .flush).1) := by
  obtain ⟨area, harea⟩ := hout
  have hgrow : ∃ area', (dumpIfPending cfg st).out = hb ++ area' := by
    unfold dumpIfPending
    split
    · exact ⟨area ++ blockBytes cfg.codec cfg.sync st.count st.pending, by simp [dump, harea, List.append_assoc]⟩
    · exact ⟨area, harea⟩
  obtain ⟨area', harea'⟩ := hgrow
  unfold reopenStep
  simp only [harea', c07_reopen_resumes metadata cfg.sync area' hb codecName hw hsync hkeys hlen hsmall hcodec, bind, Except.bind, hfor,
    pure, Except.pure, step]
