/-
  Properties/C10.lean — validate accepts exactly conforming data and agrees with the writers' gate.
  Lemmas: Proofs/Validate.lean. (That accepted data is encoded and round-trips is C01/C02: their
  hypothesis "the normal form is defined" is the same conformance notion; the float-width caveat is
  the property's own.)
-/
import Proofs.Validate
import Model.Container

open Validate ValidateProofs

/-- **C10 (exactly the conforming data).** for every schema without logical-type annotations (those
    are C16), `validate(…, raise_errors=False)` returns exactly `Spec.conforms` — the documented mapping —
    for every datum, `strict` and `disable_tuple_notation` setting, at every nesting depth -/
theorem c10_validate_eq_conforms (env : Env) (o : VOpts) (henv : env.plain = true) (fuel : Nat) (field : String)
    (s : Schema) (v : Val) (b : Bool) (hs : s.plain = true)
    (h : validate fuel env o false field s (some v) = .ok b) :
    Spec.conforms fuel env o.strict o.disableTuple s v = b :=
  validate_eq_conforms env o henv fuel field s (some v) b hs h

/-- **C10 (raising mode).** `raise_errors=True` raises `ValidationError` in precisely the cases where
    the non-raising mode returns `False`, and returns `True` in precisely the cases where it returns `True` -/
theorem c10_raise_iff (env : Env) (o : VOpts) (henv : env.plain = true) (fuel : Nat) (field : String) (s : Schema)
    (d : Option Val) (hs : s.plain = true) :
    (validate fuel env o true field s d = .error .validation ↔ validate fuel env o false field s d = .ok false) ∧
    (validate fuel env o true field s d = .ok true ↔ validate fuel env o false field s d = .ok true) := by
  rw [validate_raise_eq]
  have hnv := validate_NV env o henv fuel field s d hs
  unfold NV at hnv
  cases hF : validate fuel env o false field s d with
  | error e =>
    constructor
    · simp only [lift]; constructor
      · intro h; rw [hF] at hnv; exact absurd h hnv
      · intro h; cases h
    · simp [lift]
  | ok b => cases b <;> simp [lift]

/-- **C10 (strict).** in strict mode a record lacking a field that has no default is rejected, even
    when the field's type accepts null -/
theorem c10_strict (env : Env) (fuel : Nat) (field : String) (s : Schema) (dtn : Bool) :
    validate (fuel + 1) env { strict := true, disableTuple := dtn } false field s none = .ok false := by
  simp [validate, bind, Except.bind, pure, Except.pure]

/-- **C10 (writer gate).** a writer with validation enabled rejects everything `validate` rejects
    before emitting any byte of that record: its state is unchanged -/
theorem c10_gate (enc : Val → WR) (validate' : Val → R Bool) (cfg : Container.WCfg) (st : Container.WState) (v : Val)
    (hv : cfg.validator = true) (hrej : validate' v = .ok false) :
    Container.step enc validate' cfg st (.write v) = (st, some .validation) := by
  simp [Container.step, Container.writeGate, hv, hrej]

/-! non-vacuity: a plain schema and environment; a conforming and a non-conforming datum -/
example : (Schema.record "R" [.mk "a" (.union [.prim .null false none, .array (.prim .int false none)]) none []] []).plain = true ∧
    Env.plain [] = true := by decide
example : Spec.conforms 5 [] false false
    (.record "R" [.mk "a" (.union [.prim .null false none, .array (.prim .int false none)]) none []] [])
    (.dict [(.str "a", .list [.int 1, .int 2147483647])]) = true := by decide +kernel
example : Spec.conforms 5 [] false false
    (.record "R" [.mk "a" (.union [.prim .null false none, .array (.prim .int false none)]) none []] [])
    (.dict [(.str "a", .list [.int 1, .int 2147483648])]) = false := by decide +kernel
