/-
  Properties/TablesValidate.lean — obligations against the generated tables (Gen/Tables.lean), closed by evaluation.
-/
import Properties.TablesCommon
import Model.Validate
namespace Tables

theorem int_bounds_v :
    int? "const.INT_MIN_VALUE" = some Validate.INT_MIN ∧ int? "const.INT_MAX_VALUE" = some Validate.INT_MAX ∧
    int? "const.LONG_MIN_VALUE" = some Validate.LONG_MIN ∧ int? "const.LONG_MAX_VALUE" = some Validate.LONG_MAX := by
  decide

theorem validators_dispatch :
    disp? "_validation_py.VALIDATORS" "null" = some "_validate_null" ∧
    disp? "_validation_py.VALIDATORS" "boolean" = some "_validate_boolean" ∧
    disp? "_validation_py.VALIDATORS" "string" = some "_validate_string" ∧
    disp? "_validation_py.VALIDATORS" "int" = some "_validate_int" ∧
    disp? "_validation_py.VALIDATORS" "long" = some "_validate_long" ∧
    disp? "_validation_py.VALIDATORS" "float" = some "_validate_float" ∧
    disp? "_validation_py.VALIDATORS" "double" = some "_validate_float" ∧
    disp? "_validation_py.VALIDATORS" "bytes" = some "_validate_bytes" ∧
    disp? "_validation_py.VALIDATORS" "fixed" = some "_validate_fixed" ∧
    disp? "_validation_py.VALIDATORS" "enum" = some "_validate_enum" ∧
    disp? "_validation_py.VALIDATORS" "array" = some "_validate_array" ∧
    disp? "_validation_py.VALIDATORS" "map" = some "_validate_map" ∧
    disp? "_validation_py.VALIDATORS" "union" = some "_validate_union" ∧
    disp? "_validation_py.VALIDATORS" "record" = some "_validate_record" := by
  decide

end Tables
