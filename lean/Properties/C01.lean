/-
  Properties/C01.lean — binary round trip. Only the property theorems live here; the lemmas are in
  Proofs/Varint.lean, Proofs/Basic.lean, Proofs/Roundtrip.lean.
-/
import Proofs.Roundtrip

open Binary

/-- `read_long` inverts `write_long` on the whole int64 range and consumes exactly the bytes written -/
theorem c01_long_roundtrip (n : Int) (hlo : -(2^63) ≤ n) (hhi : n < 2^63) (rest : Bytes) :
    ∃ bs, encodeLong n = WR.ok bs ∧ decodeLong (bs ++ rest) = .ok (n, rest) :=
  VarintProofs.decodeLong_encodeLong n hlo hhi rest

/-- **C01.** For every schema (primitives, records with defaults, enums, fixed, arrays, maps, unions,
    by-name references incl. recursive ones — `env` is the table of named schemas), every writer
    option set and every datum whose documented normal form `nf` is defined: the bytes `write_data`
    emits are read back by `read_data` as exactly `nf`, and the reader consumes exactly those bytes
    (whatever follows, `rest`, is returned untouched).  No bound on sizes or depth: `fuel` is only the
    nesting depth the call is given, and the same `fuel` that sufficed to write suffices to read. -/
theorem c01_roundtrip (env : Env) (o : WOpts) (fuel : Nat) (s : Schema) (v nf : Val) (bs rest : Bytes)
    (hw : writeData fuel env o s v = ⟨bs, none⟩)
    (hn : Spec.normalize fuel env o s v = some nf) :
    readData fuel env {} s (bs ++ rest) = .ok (nf, rest) :=
  RoundtripProofs.roundtrip env o fuel s v nf bs rest hw hn

/-- values written back to back on one stream are read back one by one -/
theorem c01_stream (env : Env) (o : WOpts) (fuel : Nat) (s : Schema) (vs nfs : List Val) (bs rest : Bytes)
    (hw : WR.concat (vs.map (writeData fuel env o s)) = ⟨bs, none⟩)
    (hn : Spec.mapM' (Spec.normalize fuel env o s) vs = some nfs) :
    readItemsWith (readData fuel env {} s) vs.length (bs ++ rest) = .ok (nfs, rest) :=
  RoundtripProofs.items_roundtrip _ _ _ vs nfs bs rest
    (fun x _ b nf rest' h1 h2 => RoundtripProofs.roundtrip env o fuel s x nf b rest' h1 h2) hw hn

/-! non-vacuity: a recursive record with a union, an array, a map, an enum, a float and an omitted
    defaulted field has a defined normal form and is written successfully -/
def c01_exampleSchema : Schema :=
  .record "Node" [
    .mk "x" (.prim .long false none) none [],
    .mk "kids" (.array (.ref "Node")) none [],
    .mk "u" (.union [.prim .null false none, .prim .string false none, .prim .double false none]) none [],
    .mk "m" (.map (.prim .float false none)) (some (.dict [])) [],
    .mk "e" (.enum "E" ["A", "B"] none []) none []] []
def c01_exampleEnv : Env := [("Node", c01_exampleSchema)]
def c01_exampleValue : Val :=
  .dict [(.str "x", .int (-9223372036854775808)),
         (.str "kids", .list [.dict [(.str "x", .int 8192), (.str "kids", .list []), (.str "u", .str "é"),
                                     (.str "m", .dict [(.str "k", .int 3)]), (.str "e", .str "B")]]),
         (.str "u", .tuple [.str "double", .int 1]), (.str "e", .str "A")]

example : (Spec.normalize 6 c01_exampleEnv {} c01_exampleSchema c01_exampleValue).isSome = true ∧
    (writeData 6 c01_exampleEnv {} c01_exampleSchema c01_exampleValue).err = none := by
  decide +kernel
