/-
  Properties/C14.lean — fingerprints. Lemmas: Proofs/Rabin.lean.
-/
import Proofs.Rabin
import Gen.Tables

open Rabin

def c14Algs : List String := (Gen.strSets.lookup "_schema_common.FINGERPRINT_ALGORITHMS").getD []
def c14Java : List (String × String) := (Gen.strMaps.lookup "_schema_common.JAVA_FINGERPRINT_MAPPING").getD []

/-- **C14.** the Python loop on unbounded ints computes the specification's 64-bit fingerprint
    (seed and polynomial 0xC15D213AA4D7A795), for every byte string -/
theorem c14_rabin_eq_spec (bs : Bytes) : rabin bs = (Spec.fingerprint64 bs).toNat ∧ rabin bs < 2 ^ 64 :=
  ⟨RabinProofs.rabin_eq_spec bs, RabinProofs.rabin_lt bs⟩

/-- the table-driven definition equals the bit-serial CRC (one shift / conditional xor per bit) -/
theorem c14_table_eq_bitserial (bs : Bytes) : Spec.fingerprint64 bs = Spec.bitSerial bs :=
  RabinProofs.fingerprint64_eq_bitSerial bs

/-- sixteen hex digits, little-endian byte order, decoding back to the fingerprint -/
theorem c14_hex (n : Nat) (h : n < 2 ^ 64) :
    (hexLE8 n).toList.length = 16 ∧ RabinProofs.parseHex (hexLE8 n).toList = some (Py.toBytesLE 8 n) ∧
    Py.fromBytesLE (Py.toBytesLE 8 n) = n :=
  RabinProofs.hexLE8_spec n h

/-- the empty text maps to the seed -/
theorem c14_empty : (match fingerprint c14Algs c14Java "" "CRC-64-AVRO" with
      | .ok (.hex h) => h == "95a7d7a43a215dc1" | _ => false) = true ∧
    rabin [] = 0xC15D213AA4D7A795 := by
  constructor <;> decide +kernel

theorem c14_tables : c14Algs.contains "MD5" = true ∧ c14Algs.contains "SHA-256" = true ∧
    c14Algs.contains "CRC-64-AVRO" = true ∧ c14Java = [("MD5", "md5"), ("SHA-256", "sha256")] := by
  decide +kernel

/-- dispatch: an unknown name is a ValueError; the Java spellings and every advertised hashlib name
    give that digest of the UTF-8 bytes; `CRC-64-AVRO` gives the Rabin fingerprint text -/
theorem c14_dispatch (text : String) :
    (∀ alg, c14Algs.contains alg = false → fingerprint c14Algs c14Java text alg = .error .value) ∧
    fingerprint c14Algs c14Java text "MD5" = .ok (.digest "md5") ∧
    fingerprint c14Algs c14Java text "SHA-256" = .ok (.digest "sha256") ∧
    fingerprint c14Algs c14Java text "CRC-64-AVRO" = .ok (.hex (hexLE8 (rabin (utf8Enc text)))) ∧
    (∀ alg, c14Algs.contains alg = true → alg ≠ "MD5" → alg ≠ "SHA-256" → alg ≠ "CRC-64-AVRO" →
      fingerprint c14Algs c14Java text alg = .ok (.digest alg)) := by
  obtain ⟨t1, t2, t3, tj⟩ := c14_tables
  refine ⟨?_, ?_, ?_, ?_, ?_⟩
  · intro alg h
    simp only [fingerprint, h, Bool.not_false, ↓reduceIte]
  · simp only [fingerprint, t1, tj, List.lookup]
    simp
  · simp only [fingerprint, t2, tj, List.lookup]
    simp
  · simp only [fingerprint, t3, tj, List.lookup]
    simp
  · intro alg hc h1 h2 h3
    have e1 : (alg == "MD5") = false := by simpa using h1
    have e2 : (alg == "SHA-256") = false := by simpa using h2
    have e3 : (alg == "CRC-64-AVRO") = false := by simpa using h3
    simp only [fingerprint, hc, tj, List.lookup, e1, e2, Option.getD_none, e3, Bool.not_true, Bool.false_eq_true,
      ↓reduceIte]

/-- schemas with equal canonical forms have equal fingerprints -/
theorem c14_congruence (t t' alg : String) (h : t = t') :
    fingerprint c14Algs c14Java t alg = fingerprint c14Algs c14Java t' alg := by rw [h]

/-- non-vacuity: the Apache reference vector `"int"` ↦ 0x7275d51a3f395c8f (printed little-endian) -/
example : (match fingerprint c14Algs c14Java "\"int\"" "CRC-64-AVRO" with
    | .ok (.hex h) => h == "8f5c393f1ad57572" | _ => false) = true := by decide +kernel
