/-
  Properties/C06.lean — truncated or sync-corrupted files never yield records that were not written.
  Lemmas: Proofs/Container.lean (generic in the record decoder and in any sound codec: for a
  compressed payload the statement uses only `decompress (compress x) = x` and the fact that
  `read_bytes` length-checks the compressed payload before decompression runs).
-/
import Proofs.Container
import Properties.C03

open Binary Container ContainerProofs

/-- **C06 (truncation).** reading any prefix `p` of a well-formed block area yields exactly the
    records of the first `j` blocks for some `j` — never a record that was not written, a reordered
    or a partially decoded one — and ends normally only if `p` is exactly those `j` blocks, i.e. the
    cut falls on a block boundary. (The header is read by the record decoder, so C03's prefix theorem
    covers cuts inside the header.) -/
theorem c06_truncation (dec : Bytes → R (Val × Bytes)) (c : Codec) (hs : c.Sound) (sync : Bytes) (hsync : sync.length = 16)
    (bs : List Blk) (hok : ∀ b ∈ bs, b.Ok dec c) (k : Nat) (p q : Bytes) (hk : bs.length < k)
    (hpq : p ++ q = flat c sync bs) :
    ∃ j, j ≤ bs.length ∧ (readBlocks dec c sync k p).1 = (bs.take j).flatMap (·.recs) ∧
      ((readBlocks dec c sync k p).2 = .eof → p = flat c sync (bs.take j)) :=
  read_prefix dec c hs sync hsync bs hok k p q hk hpq

/-- conversely a cut on a block boundary ends normally with the records of the blocks before it -/
theorem c06_boundary (dec : Bytes → R (Val × Bytes)) (c : Codec) (hs : c.Sound) (sync : Bytes) (hsync : sync.length = 16)
    (bs : List Blk) (hok : ∀ b ∈ bs, b.Ok dec c) (j k : Nat) (hk : bs.length < k) :
    readBlocks dec c sync k (flat c sync (bs.take j)) = ((bs.take j).flatMap (·.recs), .eof) :=
  read_flat dec c hs sync hsync (bs.take j) (fun b hb => hok b (List.mem_of_mem_take hb)) k
    (Nat.lt_of_le_of_lt (List.length_take_le' _ _) hk)

/-- **C06 (sync).** any alteration of the marker that follows block `b` is reported as an error when
    that block is reached: the records of the blocks up to and including `b` are yielded, then ValueError -/
theorem c06_sync (dec : Bytes → R (Val × Bytes)) (c : Codec) (hs : c.Sound) (sync : Bytes) (hsync : sync.length = 16)
    (pre : List Blk) (b : Blk) (hpre : ∀ x ∈ pre, x.Ok dec c) (hb : b.Ok dec c)
    (s' rest : Bytes) (hlen : s'.length = 16) (hne : s' ≠ sync) (k : Nat) (hk : pre.length < k) :
    readBlocks dec c sync k (flat c sync pre ++ (lenBytes ↑b.count ++ (lenBytes ↑(c.compress b.payload).length ++
        (c.compress b.payload ++ (s' ++ rest))))) = (pre.flatMap (·.recs) ++ b.recs, .error .value) :=
  read_altered_sync dec c hs sync hsync pre b hpre hb s' rest hlen hne k hk

/-- **C06 (schemaless).** decoding any proper prefix of a schemaless encoding never returns a value -/
theorem c06_schemaless_prefix (env : Env) (s : Schema) (v : Val) (p q : Bytes) (h : Spec.Enc env s v (p ++ q))
    (hq : q ≠ []) : ∀ f v' r', readData f env {} s p ≠ .ok (v', r') :=
  c03_prefix env s v p q h hq
