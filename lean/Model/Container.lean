/-
  Model/Container.lean — object container files: `write_header`, the block writers, `Writer`
  (`write`, `dump`, `flush`, `write_block`) of `fastavro/_write_py.py`; `_read_header`, the block
  readers, `skip_sync`, `_iter_avro_records`, `_iter_avro_blocks`, `is_avro` of `fastavro/_read_py.py`.

  The record codec is a parameter (`enc : Val → WR`, `dec : Bytes → R (Val × Bytes)`): the driver and
  the property theorems instantiate it with `Binary.writeData` / `Binary.readData` for the file's
  schema. Compression libraries are external: a `Codec` is a pair of functions; `Codec.null` is the
  identity and fully concrete.
-/
import Model.Binary

namespace Container
open Binary

def MAGIC : Bytes := [0x4F, 0x62, 0x6A, 0x01]
def SYNC_SIZE : Nat := 16

structure Codec where
  compress : Bytes → Bytes
  /-- `none` = the decompression library raised -/
  decompress : Bytes → Option Bytes

def Codec.null : Codec := { compress := id, decompress := some }

/-- a codec is sound when decompressing what it compressed gives the data back -/
def Codec.Sound (c : Codec) : Prop := ∀ x, c.decompress (c.compress x) = some x

/-- `HEADER_SCHEMA` -/
def headerSchema : Schema :=
  .record "org.apache.avro.file.Header"
    [ .mk "magic" (.fixed "magic" 4 none []) none [],
      .mk "meta" (.map (.prim .bytes false none)) none [],
      .mk "sync" (.fixed "sync" 16 none []) none [] ] []

/-- `write_header(encoder, metadata, sync_marker)` -/
def writeHeader (metadata : List (String × Bytes)) (sync : Bytes) : WR :=
  writeData 4 [] {} headerSchema
    (.dict [(.str "magic", .bytes MAGIC),
            (.str "meta", .dict (metadata.map fun e => (.str e.1, .bytes e.2))),
            (.str "sync", .bytes sync)])

structure Header where
  metadata : List (String × Bytes)
  sync : Bytes
deriving Repr, Inhabited

/-- `_read_header`'s `read_data(decoder, HEADER_SCHEMA, …)`: an `EOFError` becomes
    `ValueError("cannot read header - is it an avro file?")` -/
def readHeader (bs : Bytes) : R (Header × Bytes) :=
  match readData 4 [] {} headerSchema bs with
  | .error .eof => .error .value
  | .error e => .error e
  | .ok (.dict kv, rest) =>
    let metadata := match dictGetV kv "meta" with
      | some (.dict m) => m.filterMap fun (k, v) => match k, v with
          | .str k, .bytes b => some (k, b)
          | _, _ => none
      | _ => []
    let sync := match dictGetV kv "sync" with | some (.bytes b) => b | _ => []
    .ok ({ metadata := metadata, sync := sync }, rest)
  | .ok _ => .error .other

/-- `metadata.get("avro.codec", "null")` after `{k: v.decode()}` -/
def Header.codecName (h : Header) : R String :=
  match h.metadata.lookup "avro.codec" with
  | none => .ok "null"
  | some b => match utf8Dec b with | some s => .ok s | none => .error .value

/-- `is_avro`: the first four bytes are the magic -/
def isAvro (bs : Bytes) : Bool := bs.take 4 == MAGIC

/-- what `_is_appendable` asks of the stream -/
structure StreamFacts where
  seekable : Bool
  pos : Nat
  isStdout : Bool        -- `getattr(file_like, "name", "") == "<stdout>"`
  readable : Bool

/-- `_is_appendable(file_like)` (`.error .value`: "you must use the 'a+' mode, not just 'a'") -/
def isAppendable (f : StreamFacts) : R Bool :=
  if f.seekable && f.pos != 0 then
    if f.isStdout then .ok false
    else if f.readable then .ok true
    else .error .value
  else .ok false

/-- `Writer.__init__` on an appendable stream: the header is read again; the sync marker and the codec name are the
    file's own — the `schema`, `codec`, `sync_marker` and `metadata` arguments play no part -/
def reopen (out : Bytes) : R (Bytes × String) := do
  let (h, _) ← readHeader out
  let cn ← h.codecName
  pure (h.sync, cn)

/-! ### writing -/

/-- `encoder.write_long(n)` for a count / length -/
def lenBytes (n : Int) : Bytes := (encodeLong n).out

/-- `<codec>_write_block` + sync: count, length of the compressed payload, compressed payload, marker -/
def blockBytes (c : Codec) (sync : Bytes) (count : Int) (payload : Bytes) : Bytes :=
  lenBytes count ++ (lenBytes (c.compress payload).length ++ (c.compress payload ++ sync))

structure WState where
  /-- everything written to the output stream so far -/
  out : Bytes
  /-- `self.io`: the encoded records of the block being filled -/
  pending : Bytes
  /-- `self.block_count` -/
  count : Nat
deriving Repr, Inhabited

structure WCfg where
  codec : Codec
  sync : Bytes
  interval : Nat
  validator : Bool

/-- `Writer.dump` -/
def dump (cfg : WCfg) (st : WState) : WState :=
  { out := st.out ++ blockBytes cfg.codec cfg.sync st.count st.pending, pending := [], count := 0 }

inductive Op where
  | write (v : Val)
  | flush
  /-- `write_block(block)`: number of records and *decompressed* payload of a block of another file -/
  | writeBlock (count : Int) (payload : Bytes)

/-- `if self.io._fo.tell() or self.block_count > 0: self.dump()` -/
def dumpIfPending (cfg : WCfg) (st : WState) : WState :=
  if st.pending.length != 0 || st.count > 0 then dump cfg st else st

/-- `if self.validate_fn: self.validate_fn(record, …, raise_errors=True, …)` -/
def writeGate (validate : Val → R Bool) (cfg : WCfg) (v : Val) : Option Err :=
  if cfg.validator then
    match validate v with
    | .ok true => none
    | .ok false => some .validation
    | .error e => some e
  else none

/-- one `Writer` method call. `enc` is `write_data` under the file's schema, `validate` is the
    `validate_fn` gate. The second component is the exception raised, if any.
    A write that raises leaves the pending block exactly as it was (the buffer is truncated back). -/
def step (enc : Val → WR) (validate : Val → R Bool) (cfg : WCfg) (st : WState) : Op → WState × Option Err
  | .write v =>
    match writeGate validate cfg v with
    | some e => (st, some e)
    | none =>
      let w := enc v
      match w.err with
      | some e => (st, some e)
      | none =>
        let st' := { st with pending := st.pending ++ w.out, count := st.count + 1 }
        (if st'.pending.length ≥ cfg.interval then dump cfg st' else st', none)
  | .flush => (dumpIfPending cfg st, none)
  | .writeBlock n payload =>
    let st := dumpIfPending cfg st
    ({ st with out := st.out ++ blockBytes cfg.codec cfg.sync n payload }, none)

def run (enc : Val → WR) (validate : Val → R Bool) (cfg : WCfg) (st : WState) (ops : List Op) : WState :=
  ops.foldl (fun s op => (step enc validate cfg s op).1) st

/-! ### reading -/

inductive End where
  | eof
  | error (e : Err)
deriving Repr, DecidableEq, Inhabited

/-- `for i in range(block_count): yield read_data(BinaryDecoder(block_fo), …)`: the records yielded
    and the exception that stopped the loop, if any -/
def readRecords (dec : Bytes → R (Val × Bytes)) : Nat → Bytes → List Val × Option Err
  | 0, _ => ([], none)
  | n+1, bs =>
    match dec bs with
    | .error e => ([], some e)
    | .ok (v, rest) =>
      let (vs, e) := readRecords dec n rest
      (v :: vs, e)

/-- `read_block`: `decoder.read_bytes()` (length-checked) then decompression -/
def readPayload (c : Codec) (bs : Bytes) : R (Bytes × Bytes) := do
  let (data, rest) ← decBytesRaw bs
  match c.decompress data with
  | some p => pure (p, rest)
  | none => throw .other

/-- `_iter_avro_records`. `k` bounds the number of blocks (callers pass `bs.length + 1`). -/
def readBlocks (dec : Bytes → R (Val × Bytes)) (c : Codec) (sync : Bytes) : Nat → Bytes → List Val × End
  | 0, _ => ([], .error .fuel)
  | k+1, bs =>
    match decodeLong bs with
    | .error .eof => ([], .eof)                      -- `except EOFError: return`
    | .error e => ([], .error e)
    | .ok (count, r1) =>
      match readPayload c r1 with
      | .error e => ([], .error e)
      | .ok (payload, r2) =>
        match readRecords dec count.toNat payload with
        | (recs, some e) => (recs, .error e)
        | (recs, none) =>
          -- skip_sync: `fo.read(SYNC_SIZE) != sync_marker` → ValueError
          if r2.take SYNC_SIZE != sync then (recs, .error .value)
          else
            let (more, e) := readBlocks dec c sync k (r2.drop SYNC_SIZE)
            (recs ++ more, e)

/-- the whole of `reader(fo)`: header, then records -/
def readContainer (decFor : Header → Option (Bytes → R (Val × Bytes))) (codecFor : String → Option Codec)
    (bs : Bytes) : R Header × List Val × End :=
  match readHeader bs with
  | .error e => (.error e, [], .error e)
  | .ok (h, rest) =>
    match h.codecName with
    | .error e => (.ok h, [], .error e)
    | .ok cn =>
      match decFor h, codecFor cn with
      | some dec, some c =>
        let (recs, e) := readBlocks dec c h.sync (rest.length + 1) rest
        (.ok h, recs, e)
      | none, _ => (.ok h, [], .error .parse)
      | _, none => (.ok h, [], .error .value)

structure BlockInfo where
  offset : Nat
  size : Nat
  numRecords : Int
  payload : Bytes
deriving Repr

/-- `_iter_avro_blocks`: offsets and sizes relative to the start of the stream -/
def readBlockInfos (c : Codec) (sync : Bytes) : Nat → Nat → Bytes → List BlockInfo × End
  | 0, _, _ => ([], .error .fuel)
  | k+1, off, bs =>
    match decodeLong bs with
    | .error .eof => ([], .eof)
    | .error e => ([], .error e)
    | .ok (count, r1) =>
      match readPayload c r1 with
      | .error e => ([], .error e)
      | .ok (payload, r2) =>
        if r2.take SYNC_SIZE != sync then ([], .error .value)
        else
          let rest := r2.drop SYNC_SIZE
          let size := bs.length - rest.length
          let (more, e) := readBlockInfos c sync k (off + size) rest
          ({ offset := off, size := size, numRecords := count, payload := payload } :: more, e)

/-- closing a writer and opening a new one on the same stream (`writer(fo, …)` on an appendable `fo`): the old writer
    flushes; the new one re-reads the header and takes the marker and the codec named there (`codecFor` is
    `BLOCK_WRITERS[...]`); its own `codec` / `sync_marker` / `schema` / `metadata` arguments are not consulted -/
def reopenStep (codecFor : String → Option Codec) (cfg : WCfg) (st : WState) : R (WCfg × WState) := do
  let st := dumpIfPending cfg st
  let (sync, name) ← reopen st.out
  match codecFor name with
  | some c => pure ({ cfg with codec := c, sync := sync }, st)
  | none => throw .value

end Container
