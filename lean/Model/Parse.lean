/-
  Model/Parse.lean — follows `fastavro/_schema_py.py`: `schema_name`, `_default_matches_schema`,
  `_validate_enum_symbols`, `_parse_schema`, `parse_field`, `parse_schema`.
  A raw schema is a Python object (`Val`); the result is the typed `Schema` plus `named_schemas`.
  Not modelled: `expand=True`, the types `error` / `request` / `error_union` (→ `.other`).
-/
import Model.Schema
import Model.Py

namespace Parse

def truthy (v : Val) : Bool := v.truthy

/-- `isinstance(v, int)` (bools are ints) and its value -/
def asPyInt? : Val → Option Int
  | .int n => some n
  | .bool b => some (if b then 1 else 0)
  | _ => none

def isStr : Val → Bool | .str _ => true | _ => false
def isDict : Val → Bool | .dict _ => true | _ => false
def isList : Val → Bool | .list _ => true | _ => false
def isFloat : Val → Bool | .float _ => true | _ => false

/-- `schema_name(schema, parent_ns)` → (namespace, fullname) -/
def schemaName (kv : List (Val × Val)) (parentNs : String) : R (String × String) :=
  match dictGetV kv "name" with
  | none => .error .parse
  | some (.str name) =>
    let ns := match dictGetV kv "namespace" with
      | some (.str n) => some n
      | some .none => some ""      -- falsy namespace behaves like the empty one
      | some _ => none
      | none => some parentNs
    match ns with
    | none => .error .type
    | some ns =>
      if name.contains '.' then
        -- name.rsplit(".", 1)[0]
        let parts := name.splitOn "."
        .ok (".".intercalate parts.dropLast, name)
      else if ns != "" then .ok (ns, ns ++ "." ++ name)
      else .ok ("", name)
  | some _ => .error .type

/-- `isinstance(_maybe_float(default), float)` -/
def maybeFloatIsFloat : Val → Bool
  | .float _ => true
  | .int _ => true           -- float(int) succeeds (OverflowError for huge ints is not caught: ignored)
  | .bool _ => true
  | .str s =>
      -- float("...") succeeds for numeric-looking strings; approximated: decimal digits / nan / inf
      let t := s.toList.map Char.toLower
      let t := match t with
        | '+' :: r => r
        | '-' :: r => r
        | r => r
      t == "nan".toList || t == "inf".toList || t == "infinity".toList ||
        (!t.isEmpty && t.all Char.isDigit)
  | _ => false

/-- `_default_matches_schema(default, schema)` on a *parsed* branch: only bare primitive names are
    checked, everything else "matches". -/
def defaultMatches (d : Val) : Schema → Bool
  | .prim p false _ =>
    match p with
    | .null => (match d with | .none => true | _ => false)
    | .boolean => (match d with | .bool _ => true | _ => false)
    | .string => isStr d
    | .bytes => isStr d
    | .double => maybeFloatIsFloat d
    | .float => maybeFloatIsFloat d
    | .int => (asPyInt? d).isSome
    | .long => (asPyInt? d).isSome
  | _ => true

/-- the dict-form primitive check of `_parse_schema` (`isinstance(default, float)` for float/double) -/
def defaultMatchesDictPrim (d : Val) : Prim → Bool
  | .null => (match d with | .none => true | _ => false)
  | .boolean => (match d with | .bool _ => true | _ => false)
  | .string => isStr d
  | .bytes => isStr d
  | .double => isFloat d
  | .float => isFloat d
  | .int => (asPyInt? d).isSome
  | .long => (asPyInt? d).isSome

/-- `SYMBOL_REGEX.fullmatch`: `[A-Za-z_][A-Za-z0-9_]*` -/
def symbolOk (s : String) : Bool :=
  match s.toList with
  | [] => false
  | c :: rest =>
    (c.isAlpha || c == '_') && rest.all fun d => d.isAlphanum || d == '_'

def asStrList? (v : Val) : Option (List String) :=
  match v with
  | .list xs => xs.mapM fun x => match x with | .str s => some s | _ => none
  | _ => none

/-- number of decimal digits of `n > 0` -/
def numDigits (n : Nat) : Nat := (Nat.toDigits 10 n).length

/-- `int(math.floor(math.log10(2) * (8 * size - 1)))` computed exactly for `size ≥ 1` -/
def maxPrecision (size : Nat) : Int :=
  if size = 0 then -1 else (numDigits (2 ^ (8 * size - 1)) : Int) - 1

structure St where
  names : List String
  env : Env

/-- checks of the `decimal` annotation; returns the typed annotation -/
def parseLogical (kv : List (Val × Val)) (isFixed : Bool) : R (Option LogT) :=
  match dictGetV kv "logicalType" with
  | none => .ok none
  | some (.str lt) =>
    let scale := dictGetV kv "scale"
    let precision := dictGetV kv "precision"
    if lt == "decimal" then do
      let scaleT := match scale with | some v => truthy v | none => false
      let precT := match precision with | some v => truthy v | none => false
      if scaleT then
        match scale.bind asPyInt? with
        | none => throw .parse
        | some n => if n < 0 then throw .parse
      if precT then
        match precision.bind asPyInt? with
        | none => throw .parse
        | some n =>
          if n ≤ 0 then throw .parse
          if isFixed then
            match dictGetV kv "size" with
            | some (.int sz) => if n > maxPrecision sz.toNat then throw .parse
            | some _ => throw .type
            | none => throw .index
      if scaleT && precT then
        match precision.bind asPyInt?, scale.bind asPyInt? with
        | some p, some s => if p < s then throw .parse
        | _, _ => pure ()
      pure (some { name := lt, precision := precision.bind asPyInt?,
                   scale := (scale.bind asPyInt?).getD 0 })
    else
      pure (some { name := lt, precision := precision.bind asPyInt?,
                   scale := (scale.bind asPyInt?).getD 0 })
  | some v => if truthy v then .ok (some { name := "?" }) else .ok none

def aliasesOf (kv : List (Val × Val)) : List String :=
  match dictGetV kv "aliases" with
  | some v => (asStrList? v).getD []
  | none => []

/-- `[p(s) for s in xs]` threading the parser state -/
def parseListWith (p : Val → St → R (Schema × St)) : List Val → St → R (List Schema × St)
  | [], st => .ok ([], st)
  | x :: rest, st => do
      let (s, st) ← p x st
      let (ss, st) ← parseListWith p rest st
      pure (s :: ss, st)

/-- `parse_field` over the field list; `p type state default` parses the field's type -/
def parseFieldsWith (p : Val → St → Option Val → R (Schema × St)) : List Val → St → R (List Field × St)
  | [], st => .ok ([], st)
  | .dict kv :: rest, st => do
      let aliases ← match dictGetV kv "aliases" with
        | none => pure []
        | some (.list xs) => pure (xs.filterMap fun v => match v with | .str s => some s | _ => none)
        | some _ => throw .parse
      let dflt := dictGetV kv "default"
      let name ← match dictGetV kv "name" with
        | some (.str n) => pure n
        | some _ => throw .other
        | none => throw .index
      let ty ← match dictGetV kv "type" with | some v => pure v | none => throw .index
      let (s, st) ← p ty st dflt
      let (fs, st) ← parseFieldsWith p rest st
      pure (.mk name s dflt aliases :: fs, st)
  | _ :: _, _ => .error .type

/-- `_parse_schema(schema, namespace, expand=False, _, names, named_schemas, default, ignore)`.
    `dflt = none` is `NO_DEFAULT`. The fuel bounds the nesting depth only. -/
def parse (fuel : Nat) (raw : Val) (ns : String) (st : St) (dflt : Option Val) (ign : Bool) :
    R (Schema × St) :=
  match fuel with
  | 0 => .error .fuel
  | fuel+1 =>
  match raw with
  | .list xs => do
      let (bs, st) ← parseListWith (fun x st => parse fuel x ns st none ign) xs st
      match dflt with
      | some d =>
        if !(bs.any (defaultMatches d)) && !ign then throw .parse
      | none => pure ()
      pure (.union bs, st)
  | .dict kv => do
      let ty ← match dictGetV kv "type" with
        | some (.str t) => pure t
        | some _ => throw .type
        | none => throw .index
      let lt ← parseLogical kv (ty == "fixed")
      if ty == "array" then
        let items ← match dictGetV kv "items" with | some v => pure v | none => throw .index
        let (s, st) ← parse fuel items ns st none ign
        match dflt with
        | some d => if !isList d && !ign then throw .parse
        | none => pure ()
        pure (.array s, st)
      else if ty == "map" then
        let values ← match dictGetV kv "values" with | some v => pure v | none => throw .index
        let (s, st) ← parse fuel values ns st none ign
        match dflt with
        | some d => if !isDict d && !ign then throw .parse
        | none => pure ()
        pure (.map s, st)
      else if ty == "enum" then
        let (_, full) ← schemaName kv ns
        if st.names.contains full then throw .parse
        let st := { st with names := st.names ++ [full] }
        -- _validate_enum_symbols
        let symsV ← match dictGetV kv "symbols" with | some v => pure v | none => throw .index
        let symsL ← match symsV with | .list xs => pure xs | _ => throw .type
        for s in symsL do
          match s with
          | .str t => if !symbolOk t then throw .parse
          | _ => throw .parse
        let syms := symsL.filterMap fun v => match v with | .str s => some s | _ => none
        if syms.eraseDups.length != syms.length then throw .parse
        let edef := dictGetV kv "default"
        match edef with
        | some (.str d) => if !syms.contains d then throw .parse
        | some _ => throw .parse
        | none => pure ()
        match dflt with
        | some d => if !isStr d && !ign then throw .parse
        | none => pure ()
        let s := Schema.enum full syms edef (aliasesOf kv)
        pure (s, { st with env := st.env.set full s })
      else if ty == "fixed" then
        let (_, full) ← schemaName kv ns
        if st.names.contains full then throw .parse
        let st := { st with names := st.names ++ [full] }
        match dflt with
        | some d => if !isStr d && !ign then throw .parse
        | none => pure ()
        let size ← match dictGetV kv "size" with
          | some (.int n) => if n < 0 then throw .other else pure n.toNat
          | some _ => throw .other
          | none => throw .index
        let s := Schema.fixed full size lt (aliasesOf kv)
        pure (s, { st with env := st.env.set full s })
      else if ty == "record" then
        let (ns', full) ← schemaName kv ns
        if st.names.contains full then throw .parse
        let st := { st with names := st.names ++ [full] }
        match dflt with
        | some d => if !isDict d && !ign then throw .parse
        | none => pure ()
        let aliases := aliasesOf kv
        -- registered before the fields are parsed, so that the record can refer to itself
        let st := { st with env := st.env.set full (.record full [] aliases) }
        let fieldsV := match dictGetV kv "fields" with | some (.list xs) => xs | _ => []
        let (fs, st) ← parseFieldsWith (fun ty st d => parse fuel ty ns' st d ign) fieldsV st
        let s := Schema.record full fs aliases
        pure (s, { st with env := st.env.set full s })
      else
        match Prim.ofName? ty, dflt with
        | some p, some d =>
          if !defaultMatchesDictPrim d p && !ign then throw .parse
          else pure (.prim p true lt, st)
        | some p, none => pure (.prim p true lt, st)
        | none, _ =>
          if ty == "error" || ty == "request" || ty == "error_union" then throw .other
          else throw .unknownType
  | .str name =>
      match Prim.ofName? name, dflt with
      | some p, some d =>
        if !defaultMatches d (.prim p false none) && !ign then throw .parse
        else pure (.prim p false none, st)
      | some p, none => pure (.prim p false none, st)
      | none, _ =>
        let full := if !name.contains '.' && ns != "" then ns ++ "." ++ name else name
        if (st.env.get? full).isNone then throw .unknownType
        else pure (.ref full, st)
  | _ => .error .type

/-- `parse_schema(schema, named_schemas)` for a raw (unparsed) schema: a top-level list is parsed
    element by element, each with a fresh `names` set. -/
def parseTop (fuel : Nat) (raw : Val) (env : Env) (ign : Bool := false) : R (Schema × Env) :=
  match raw with
  | .list xs => do
      let rec go (xs : List Val) (env : Env) : R (List Schema × Env) :=
        match xs with
        | [] => pure ([], env)
        | x :: rest => do
          let (s, st) ← parse fuel x "" { names := [], env := env } none ign
          let (ss, env) ← go rest st.env
          pure (s :: ss, env)
      let (ss, env) ← go xs env
      pure (.union ss, env)
  | _ => do
      let (s, st) ← parse fuel raw "" { names := [], env := env } none ign
      pure (s, st.env)

end Parse
