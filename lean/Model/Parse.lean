/-
  Model/Parse.lean — follows `fastavro/_schema_py.py`: `schema_name`, `_default_matches_schema`,
  `_validate_enum_symbols`, `_parse_schema`, `parse_field`, `parse_schema`.
  A raw schema is a Python object (`Val`); the result is the typed `Schema` plus `named_schemas`.
  Not modelled: `expand=True`, the types `error` / `request` / `error_union` (→ `.other`).
-/
import Model.Schema
import Model.Py

namespace Parse

def truthy (v : Val) : Bool := v.truthy

/-- `isinstance(v, int)` (bools are ints) and its value -/
def asPyInt? : Val → Option Int
  | .int n => some n
  | .bool b => some (if b then 1 else 0)
  | _ => none

/-- `isinstance(v, int) and not isinstance(v, bool)` -/
def isPlainInt : Val → Bool
  | .int _ => true
  | _ => false

def isStr : Val → Bool | .str _ => true | _ => false
def isDict : Val → Bool | .dict _ => true | _ => false
def isList : Val → Bool | .list _ => true | _ => false
def isFloat : Val → Bool | .float _ => true | _ => false

/-- `schema_name(schema, parent_ns)` → (namespace, fullname) -/
def schemaName (kv : List (Val × Val)) (parentNs : String) : R (String × String) :=
  match dictGetV kv "name" with
  | none => .error .parse
  | some (.str name) =>
    let ns := match dictGetV kv "namespace" with
      | some (.str n) => some n
      | some .none => some ""      -- falsy namespace behaves like the empty one
      | some _ => none
      | none => some parentNs
    match ns with
    | none => .error .type
    | some ns =>
      if name.contains '.' then
        -- name.rsplit(".", 1)[0]
        let parts := name.splitOn "."
        .ok (".".intercalate parts.dropLast, name)
      else if ns != "" then .ok (ns, ns ++ "." ++ name)
      else .ok ("", name)
  | some _ => .error .type

/-- `isinstance(_maybe_float(default), float)` -/
def maybeFloatIsFloat : Val → Bool
  | .float _ => true
  | .int _ => true           -- float(int) succeeds (OverflowError for huge ints is not caught: ignored)
  | .bool _ => false         -- booleans are rejected explicitly
  | .str s =>
      -- float("...") succeeds for numeric-looking strings; approximated: decimal digits / nan / inf
      let t := s.toList.map Char.toLower
      let t := match t with
        | '+' :: r => r
        | '-' :: r => r
        | r => r
      t == "nan".toList || t == "inf".toList || t == "infinity".toList ||
        (!t.isEmpty && t.all Char.isDigit)
  | _ => false

/-- `_default_matches_schema(default, schema)` on a *parsed* branch: only bare primitive names are
    checked, everything else "matches". -/
def defaultMatches (d : Val) : Schema → Bool
  | .prim p false _ =>
    match p with
    | .null => (match d with | .none => true | _ => false)
    | .boolean => (match d with | .bool _ => true | _ => false)
    | .string => isStr d
    | .bytes => isStr d
    | .double => maybeFloatIsFloat d
    | .float => maybeFloatIsFloat d
    | .int => isPlainInt d
    | .long => isPlainInt d
  | _ => true

/-- the dict-form primitive check of `_parse_schema`: `_default_matches_schema(default, schema_type)` -/
def defaultMatchesDictPrim (d : Val) (p : Prim) : Bool := defaultMatches d (.prim p false none)

/-- `SYMBOL_REGEX.fullmatch`: `[A-Za-z_][A-Za-z0-9_]*` -/
def symbolOk (s : String) : Bool :=
  match s.toList with
  | [] => false
  | c :: rest =>
    (c.isAlpha || c == '_') && rest.all fun d => d.isAlphanum || d == '_'

def asStrList? (v : Val) : Option (List String) :=
  match v with
  | .list xs => xs.mapM fun x => match x with | .str s => some s | _ => none
  | _ => none

/-- number of decimal digits of `n > 0` -/
def numDigits (n : Nat) : Nat := (Nat.toDigits 10 n).length

/-- `int(math.floor(math.log10(2) * (8 * size - 1)))` computed exactly for `size ≥ 1` -/
def maxPrecision (size : Nat) : Int :=
  if size = 0 then -1 else (numDigits (2 ^ (8 * size - 1)) : Int) - 1

structure St where
  names : List String
  env : Env

/-- `if scale and (not isinstance(scale, int) or scale < 0): raise` -/
def scaleCheck (scale : Option Val) : R Unit :=
  match scale with
  | none => .ok ()
  | some v =>
    if truthy v then
      match asPyInt? v with
      | none => .error .parse
      | some n => if n < 0 then .error .parse else .ok ()
    else .ok ()

/-- `if precision: …` — a positive integer, and for `fixed` at most what `size` bytes can hold -/
def precisionCheck (kv : List (Val × Val)) (precision : Option Val) (isFixed : Bool) : R Unit :=
  match precision with
  | none => .ok ()
  | some v =>
    if truthy v then
      match asPyInt? v with
      | none => .error .parse
      | some n =>
        if n ≤ 0 then .error .parse
        else if isFixed then
          match dictGetV kv "size" with
          | some (.int sz) => if n > maxPrecision sz.toNat then .error .parse else .ok ()
          | some _ => .error .type
          | none => .error .index
        else .ok ()
    else .ok ()

/-- `if scale and precision and precision < scale: raise` -/
def crossCheck (scale precision : Option Val) : R Unit :=
  match scale, precision with
  | some sv, some pv =>
    if truthy sv && truthy pv then
      match asPyInt? pv, asPyInt? sv with
      | some p, some s => if p < s then .error .parse else .ok ()
      | _, _ => .ok ()
    else .ok ()
  | _, _ => .ok ()

/-- checks of the `decimal` annotation; returns the typed annotation -/
def parseLogical (kv : List (Val × Val)) (isFixed : Bool) : R (Option LogT) :=
  match dictGetV kv "logicalType" with
  | none => .ok none
  | some (.str lt) =>
    let scale := dictGetV kv "scale"
    let precision := dictGetV kv "precision"
    if lt == "decimal" then do
      scaleCheck scale
      precisionCheck kv precision isFixed
      crossCheck scale precision
      pure (some { name := lt, precision := precision.bind asPyInt?,
                   scale := (scale.bind asPyInt?).getD 0 })
    else
      pure (some { name := lt, precision := precision.bind asPyInt?,
                   scale := (scale.bind asPyInt?).getD 0 })
  | some v => if truthy v then .ok (some { name := "?" }) else .ok none

def aliasesOf (kv : List (Val × Val)) : List String :=
  match dictGetV kv "aliases" with
  | some v => (asStrList? v).getD []
  | none => []

/-- `[p(s) for s in xs]` threading the parser state -/
def parseListWith (p : Val → St → R (Schema × St)) : List Val → St → R (List Schema × St)
  | [], st => .ok ([], st)
  | x :: rest, st => do
      let (s, st) ← p x st
      let (ss, st) ← parseListWith p rest st
      pure (s :: ss, st)

/-- the part of `parse_field` that reads the field's attributes: aliases (must be a list), default,
    name, type -/
def fieldHeader (kv : List (Val × Val)) : R (List String × Option Val × String × Val) :=
  match dictGetV kv "aliases" with
  | some (.list xs) => fieldHeader2 kv (xs.filterMap fun v => match v with | .str s => some s | _ => none)
  | some _ => .error .parse
  | none => fieldHeader2 kv []
where
  fieldHeader2 (kv : List (Val × Val)) (aliases : List String) : R (List String × Option Val × String × Val) :=
    match dictGetV kv "name", dictGetV kv "type" with
    | some (.str n), some ty => .ok (aliases, dictGetV kv "default", n, ty)
    | some (.str _), none => .error .index
    | some _, _ => .error .other
    | none, _ => .error .index

/-- `parse_field` over the field list; `p type state default` parses the field's type -/
def parseFieldsWith (p : Val → St → Option Val → R (Schema × St)) : List Val → St → R (List Field × St)
  | [], st => .ok ([], st)
  | .dict kv :: rest, st => do
      let (aliases, dflt, name, ty) ← fieldHeader kv
      let (s, st) ← p ty st dflt
      let (fs, st) ← parseFieldsWith p rest st
      pure (.mk name s dflt aliases :: fs, st)
  | _ :: _, _ => .error .type

/-- the `default is not NO_DEFAULT and not isinstance(default, …)` check of the complex types -/
def checkDefault (dflt : Option Val) (ok : Val → Bool) (ign : Bool) : R Unit :=
  match dflt with
  | some d => if !ok d && !ign then .error .parse else .ok ()
  | none => .ok ()

def getKey (kv : List (Val × Val)) (k : String) : R Val :=
  match dictGetV kv k with
  | some v => .ok v
  | none => .error .index

/-- `schema_type == "array"` -/
def parseArray (p : Val → St → R (Schema × St)) (kv : List (Val × Val)) (st : St) (dflt : Option Val) (ign : Bool) :
    R (Schema × St) := do
  let items ← getKey kv "items"
  let (s, st) ← p items st
  checkDefault dflt isList ign
  pure (.array s, st)

/-- `schema_type == "map"` -/
def parseMap (p : Val → St → R (Schema × St)) (kv : List (Val × Val)) (st : St) (dflt : Option Val) (ign : Bool) :
    R (Schema × St) := do
  let values ← getKey kv "values"
  let (s, st) ← p values st
  checkDefault dflt isDict ign
  pure (.map s, st)

/-- a symbol is a string matching `SYMBOL_REGEX` -/
def symValOk : Val → Bool
  | .str t => symbolOk t
  | _ => false

def strOf? : Val → Option String
  | .str s => some s
  | _ => none

/-- the symbol names of a list of values -/
def symNames (symsL : List Val) : List String := symsL.filterMap strOf?

/-- `_validate_enum_symbols`: every symbol a well-formed name, no duplicates, default among them -/
def enumSymbols (kv : List (Val × Val)) : R (List String × Option Val) := do
  let symsV ← getKey kv "symbols"
  match symsV with
  | .list symsL =>
    if !(symsL.all symValOk) then .error .parse else
    let syms := symNames symsL
    if syms.eraseDups.length != syms.length then .error .parse else
    match dictGetV kv "default" with
    | some (.str d) => if !syms.contains d then .error .parse else .ok (syms, some (.str d))
    | some _ => .error .parse
    | none => .ok (syms, none)
  | _ => .error .type

/-- `schema_type == "enum"` -/
def parseEnum (kv : List (Val × Val)) (ns : String) (st : St) (dflt : Option Val) (ign : Bool) : R (Schema × St) := do
  let (_, full) ← schemaName kv ns
  if st.names.contains full then .error .parse else
  let st := { st with names := st.names ++ [full] }
  let (syms, edef) ← enumSymbols kv
  checkDefault dflt isStr ign
  let s := Schema.enum full syms edef (aliasesOf kv)
  pure (s, { st with env := st.env.set full s })

def fixedSize (kv : List (Val × Val)) : R Nat :=
  match dictGetV kv "size" with
  | some (.int n) => if n < 0 then .error .other else .ok n.toNat
  | some _ => .error .other
  | none => .error .index

/-- `schema_type == "fixed"` -/
def parseFixed (kv : List (Val × Val)) (ns : String) (st : St) (dflt : Option Val) (ign : Bool) (lt : Option LogT) :
    R (Schema × St) := do
  let (_, full) ← schemaName kv ns
  if st.names.contains full then .error .parse else
  let st := { st with names := st.names ++ [full] }
  checkDefault dflt isStr ign
  let size ← fixedSize kv
  let s := Schema.fixed full size lt (aliasesOf kv)
  pure (s, { st with env := st.env.set full s })

/-- `schema_type == "record"`: the name is registered before the fields are parsed, so that the record
    can refer to itself -/
def parseRecord (pf : String → List Val → St → R (List Field × St)) (kv : List (Val × Val)) (ns : String) (st : St)
    (dflt : Option Val) (ign : Bool) : R (Schema × St) := do
  let (ns', full) ← schemaName kv ns
  if st.names.contains full then .error .parse else
  let st := { st with names := st.names ++ [full] }
  checkDefault dflt isDict ign
  let aliases := aliasesOf kv
  let st := { st with env := st.env.set full (.record full [] aliases) }
  let fieldsV := dictListOr kv "fields"
  let (fs, st) ← pf ns' fieldsV st
  let s := Schema.record full fs aliases
  pure (s, { st with env := st.env.set full s })

/-- `schema_type in PRIMITIVES` (dict form) / anything else -/
def parsePrimDict (ty : String) (st : St) (dflt : Option Val) (ign : Bool) (lt : Option LogT) : R (Schema × St) :=
  match Prim.ofName? ty with
  | some p => do
    checkDefault dflt (fun d => defaultMatchesDictPrim d p) ign
    pure (.prim p true lt, st)
  | none =>
    if ty == "error" || ty == "request" || ty == "error_union" then .error .other else .error .unknownType

def dictType (kv : List (Val × Val)) : R String :=
  match dictGetV kv "type" with
  | some (.str t) => .ok t
  | some _ => .error .type
  | none => .error .index

/-- a schema given as a string: a primitive or a by-name reference -/
def parseName (name : String) (ns : String) (st : St) (dflt : Option Val) (ign : Bool) : R (Schema × St) :=
  match Prim.ofName? name with
  | some p => do
    checkDefault dflt (fun d => defaultMatches d (.prim p false none)) ign
    pure (.prim p false none, st)
  | none =>
    let full := if !name.contains '.' && ns != "" then ns ++ "." ++ name else name
    if (st.env.get? full).isNone then .error .unknownType else .ok (.ref full, st)

/-- `_parse_schema(schema, namespace, expand=False, _, names, named_schemas, default, ignore)`.
    `dflt = none` is `NO_DEFAULT`. The fuel bounds the nesting depth only. -/
def parse (fuel : Nat) (raw : Val) (ns : String) (st : St) (dflt : Option Val) (ign : Bool) :
    R (Schema × St) :=
  match fuel with
  | 0 => .error .fuel
  | fuel+1 =>
  match raw with
  | .list xs => do
      let (bs, st) ← parseListWith (fun x st => parse fuel x ns st none ign) xs st
      checkDefault dflt (fun d => bs.any (defaultMatches d)) ign
      pure (.union bs, st)
  | .dict kv => do
      let ty ← dictType kv
      let lt ← parseLogical kv (ty == "fixed")
      if ty == "array" then parseArray (fun x st => parse fuel x ns st none ign) kv st dflt ign
      else if ty == "map" then parseMap (fun x st => parse fuel x ns st none ign) kv st dflt ign
      else if ty == "enum" then parseEnum kv ns st dflt ign
      else if ty == "fixed" then parseFixed kv ns st dflt ign lt
      else if ty == "record" then
        parseRecord (fun ns' fs st => parseFieldsWith (fun ty st d => parse fuel ty ns' st d ign) fs st) kv ns st dflt ign
      else parsePrimDict ty st dflt ign lt
  | .str name => parseName name ns st dflt ign
  | _ => .error .type

/-- `parse_schema(schema, named_schemas)` for a raw (unparsed) schema: a top-level list is parsed
    element by element, each with a fresh `names` set. -/
def parseTop (fuel : Nat) (raw : Val) (env : Env) (ign : Bool := false) : R (Schema × Env) :=
  match raw with
  | .list xs => do
      let rec go (xs : List Val) (env : Env) : R (List Schema × Env) :=
        match xs with
        | [] => pure ([], env)
        | x :: rest => do
          let (s, st) ← parse fuel x "" { names := [], env := env } none ign
          let (ss, env) ← go rest st.env
          pure (s :: ss, env)
      let (ss, env) ← go xs env
      pure (.union ss, env)
  | _ => do
      let (s, st) ← parse fuel raw "" { names := [], env := env } none ign
      pure (s, st.env)

/-- what `parse_schema` is handed: a raw schema, or the object an earlier call returned for a record
    (it carries `__fastavro_parsed` and the `__named_schemas` of that call) -/
inductive SchemaArg where
  | raw (v : Val)
  | marked (s : Schema) (named : Env)

/-- `parse_schema(schema, named_schemas)`: a marked object is returned as it is, its named schemas
    copied into the caller's dictionary -/
def parseSchema (fuel : Nat) (a : SchemaArg) (env : Env) : R (Schema × Env) :=
  match a with
  | .raw v => parseTop fuel v env
  | .marked s named => .ok (s, named.foldl (fun e kv => e.set kv.1 kv.2) env)

end Parse
