/-
  Model/Binary.lean — follows `fastavro/io/binary_encoder.py`, `fastavro/io/binary_decoder.py`,
  the `write_*` family of `fastavro/_write_py.py` (incl. `write_union`'s branch choice) and the
  reader-schema-free paths of `read_*` / `skip_*` in `fastavro/_read_py.py`.
-/
import Model.Schema
import Model.Py
import Model.Logical
import Model.Validate

structure WOpts where
  strict : Bool := false
  strictAllowDefault : Bool := false
  disableTuple : Bool := false
deriving Repr, Inhabited

def WOpts.toV (o : WOpts) : VOpts := { strict := o.strict, disableTuple := o.disableTuple }

structure ROpts where
  returnRecordName : Bool := false
  returnRecordNameOverride : Bool := false
  returnNamedType : Bool := false
  returnNamedTypeOverride : Bool := false
deriving Repr, Inhabited

/-- result of a write: the bytes emitted so far and the exception, if any, that stopped it.
    (The Python writers emit straight into the stream, so bytes written before an exception stay.) -/
structure WR where
  out : Bytes
  err : Option Err
deriving Repr, Inhabited, DecidableEq

namespace WR
def ok (b : Bytes) : WR := ⟨b, none⟩
def fail (e : Err) : WR := ⟨[], some e⟩
/-- sequencing: `b` runs only if `a` did not raise -/
def append (a b : WR) : WR :=
  match a.err with
  | some _ => a
  | none => ⟨a.out ++ b.out, b.err⟩
def toR (w : WR) : R Bytes := match w.err with | none => .ok w.out | some e => .error e
end WR

namespace Binary

/-! ### varints -/

/-- `(datum << 1) ^ (datum >> 63)` -/
def zigzag (n : Int) : Int := Py.xor (Py.shl n 1) (Py.shr n 63)

/-- the loop of `write_int` on a non-negative int:
    `while (d & ~0x7F) != 0: emit((d & 0x7F) | 0x80); d >>= 7` then `emit(d)` -/
def varint (d : Nat) : Bytes :=
  if d < 128 then [UInt8.ofNat d] else UInt8.ofNat (d % 128 + 128) :: varint (d / 128)
termination_by d
decreasing_by omega

/-- `BinaryEncoder.write_int` / `write_long`. A negative zig-zag value (|n| beyond 64 bits on the
    negative side) never terminates in Python; the model reports `.other`. -/
def encodeLong (n : Int) : WR :=
  let z := zigzag n
  if z < 0 then .fail .other else .ok (varint z.toNat)

/-- `(n >> 1) ^ -(n & 1)` -/
def unzigzag (n : Nat) : Int := Py.xor (Py.shr n 1) (-(Py.and n 1))

/-- continuation loop of `read_long`: `b = ord(fo.read(1))` (TypeError on end of input),
    `n |= (b & 0x7F) << shift` -/
def decodeVarintLoop (acc shift : Nat) : Bytes → R (Nat × Bytes)
  | [] => .error .type
  | b :: rest =>
    let acc' := acc ||| ((b.toNat &&& 0x7F) <<< shift)
    if b.toNat &&& 0x80 != 0 then decodeVarintLoop acc' (shift + 7) rest else .ok (acc', rest)

/-- `BinaryDecoder.read_long` -/
def decodeLong : Bytes → R (Int × Bytes)
  | [] => .error .eof
  | b :: rest =>
    let n := b.toNat &&& 0x7F
    if b.toNat &&& 0x80 != 0 then do
      let (n, rest) ← decodeVarintLoop n 7 rest
      pure (unzigzag n, rest)
    else .ok (unzigzag n, rest)

/-! ### primitive encoders -/

def encBool (v : Val) : WR := .ok [if v.truthy then 1 else 0]

def encInt : Val → WR
  | .int n => encodeLong n
  | .bool b => encodeLong (if b then 1 else 0)
  | _ => .fail .type

def u32LE (x : UInt32) : Bytes := Py.toBytesLE 4 x.toNat
def u64LE (x : UInt64) : Bytes := Py.toBytesLE 8 x.toNat

/-- Python `float(x)` for the values that can reach `struct.pack` -/
def toDouble? : Val → R UInt64
  | .float b => .ok b
  | .int n => match Fl.ofInt n with | some b => .ok b | none => .error .value
  | .bool b => .ok (if b then 0x3FF0000000000000 else 0)
  | _ => .error .eof      -- struct.error: required argument is not a float

def encFloat (v : Val) : WR :=
  match toDouble? v with
  | .error e => .fail e
  | .ok d => match Fl.f64ToF32 d with
    | some f => .ok (u32LE f)
    | none => .fail .value   -- OverflowError: float too large to pack with f format

def encDouble (v : Val) : WR :=
  match toDouble? v with
  | .error e => .fail e
  | .ok d => .ok (u64LE d)

/-- `write_bytes`: `write_long(len(datum)); fo.write(datum)` -/
def encBytes : Val → WR
  | .bytes b => (encodeLong b.length).append (.ok b)
  | .bytearray b => (encodeLong b.length).append (.ok b)
  | .str s => (encodeLong s.length).append (.fail .type)
  | .list xs => (encodeLong xs.length).append (.fail .type)
  | .tuple xs => (encodeLong xs.length).append (.fail .type)
  | .dict kv => (encodeLong kv.length).append (.fail .type)
  | _ => .fail .type

/-- `write_utf8` -/
def encUtf8 : Val → WR
  | .str s => let b := utf8Enc s; (encodeLong b.length).append (.ok b)
  | _ => .fail .type

/-- `write_fixed` -/
def encFixed (size : Nat) : Val → WR
  | .bytes b => if b.length != size then .fail .value else .ok b
  | .bytearray b => if b.length != size then .fail .value else .ok b
  | .str s => if s.length != size then .fail .value else .fail .type
  | .list xs => if xs.length != size then .fail .value else .fail .type
  | .tuple xs => if xs.length != size then .fail .value else .fail .type
  | .dict kv => if kv.length != size then .fail .value else .fail .type
  | _ => .fail .type

def indexOf? (xs : List String) (x : String) : Option Nat :=
  let i := xs.findIdx (· == x)
  if i < xs.length then some i else none

/-- `write_enum`: `symbols.index(datum)` -/
def encEnum (syms : List String) : Val → WR
  | .str s => match indexOf? syms s with
    | some i => encodeLong i
    | none => .fail .value
  | _ => .fail .value

/-- `float(datum_value)` applied by `write_record` to bare `float` / `double` fields -/
def pyFloat : Val → R Val
  | .float b => .ok (.float b)
  | .int n => match Fl.ofInt n with | some b => .ok (.float b) | none => .error .value
  | .bool b => .ok (.float (if b then 0x3FF0000000000000 else 0))
  | .str _ => .error .other       -- float("…") parsing is not modelled
  | _ => .error .type

/-! ### union branch choice (`write_union`) -/

/-- scan state of the un-hinted loop -/
structure Scan where
  best : Option Nat := none
  most : Int := -1
  couldBeFloat : Bool := false
  done : Bool := false

/-- what the loop body does once `_validate(datum, candidate, …)` returned True -/
def scanUpdate (env : Env) (v : Val) (st : Scan) (idx : Nat) (c : Schema) : Scan :=
  match unwrapRef env c with
  | .record _ fs _ =>
    let n : Int := sharedCount fs v
    if n > st.most then { st with best := some idx, most := n } else st
  | c' =>
    if c'.typeName == "float" then { st with best := some idx, couldBeFloat := true }
    else { st with best := some idx, done := true }

/-- one iteration of `for index, candidate in enumerate(schema)` -/
def scanStep (fuel : Nat) (env : Env) (o : WOpts) (v : Val) (st : Scan) (idx : Nat) (c : Schema) :
    R Scan :=
  if st.done then pure st else
  if st.couldBeFloat then
    if c.typeName == "double" then pure { st with best := some idx, done := true } else pure st
  else do
    let ok ← Validate.validate fuel env o.toV false "" c (some v)
    if !ok then pure st else pure (scanUpdate env v st idx c)

def scan (fuel : Nat) (env : Env) (o : WOpts) (v : Val) : Scan → Nat → List Schema → R Scan
  | st, _, [] => pure st
  | st, idx, c :: rest => do
      let st ← scanStep fuel env o v st idx c
      scan fuel env o v st (idx + 1) rest

/-- branch choice of `write_union`: index and the datum to write under it -/
def choose (fuel : Nat) (env : Env) (o : WOpts) (bs : List Schema) (v : Val) : R (Nat × Val) :=
  match v, o.disableTuple with
  | .tuple xs, false =>
    match xs with
    | [nameV, inner] =>
      let i := bs.findIdx fun b => nameV.strEq b.hintName
      if i < bs.length then pure (i, inner) else throw .value
    | _ => throw .value
  | _, _ => do
    let st ← scan fuel env o v {} 0 bs
    match st.best with
    | some i => pure (i, v)
    | none => throw .value

/-! ### writers -/

/-- the items a Python `for item in datum` yields, for the datum kinds that have a `len` -/
def iterItems? : Val → Option (List Val)
  | .list xs => some xs
  | .tuple xs => some xs
  | .bytes b => some (b.map fun x => .int x.toNat)
  | .bytearray b => some (b.map fun x => .int x.toNat)
  | .dict kv => some (kv.map (·.1))
  | .str s => some (s.toList.map fun c => .str (String.singleton c))
  | _ => none

/-- sequencing of a list of writes -/
def WR.concat : List WR → WR
  | [] => .ok []
  | w :: ws => w.append (WR.concat ws)

/-- `if field_type == "float" or field_type == "double": datum_value = float(datum_value)` -/
def fieldCoerce (t : Schema) (dv : Val) : R Val :=
  match t with
  | .prim .float false _ => pyFloat dv
  | .prim .double false _ => pyFloat dv
  | _ => .ok dv

/-- the field loop of `write_record`; `w` is `write_data` one level down -/
def writeFieldsWith (w : Schema → Val → WR) (o : WOpts) : List Field → List (Val × Val) → WR
  | [], _ => .ok []
  | f :: rest, kv =>
    let present := dictGetV kv f.name
    let missingErr : Option Err :=
      match present with
      | some _ => none
      | none =>
        if o.strict || (o.strictAllowDefault && f.default.isNone) then some .value
        else if f.default.isNone && !f.type.nullIn then some .value
        else none
    match missingErr with
    | some e => .fail e
    | none =>
      let dv : Val := match present with
        | some x => x
        | none => f.default.getD .none
      match fieldCoerce f.type dv with
      | .error e => .fail e
      | .ok dv => (w f.type dv).append (writeFieldsWith w o rest kv)

def writePrim (p : Prim) (v : Val) : WR :=
  match p with
  | .null => .ok []
  | .boolean => encBool v
  | .int => encInt v
  | .long => encInt v
  | .float => encFloat v
  | .double => encDouble v
  | .bytes => encBytes v
  | .string => encUtf8 v

/-- `write_data`. The fuel bounds the nesting depth only (Python's recursion depth). -/
def writeData (fuel : Nat) (env : Env) (o : WOpts) (s : Schema) (v : Val) : WR :=
  match fuel with
  | 0 => .fail .fuel
  | fuel+1 =>
  match s with
  | .prim p _ lt =>
    match Logical.prepare p.name lt 0 v with
    | .error e => .fail e
    | .ok v => writePrim p v
  | .fixed _ size lt _ =>
    match Logical.prepare "fixed" lt size v with
    | .error e => .fail e
    | .ok v => encFixed size v
  | .enum _ syms _ _ => encEnum syms v
  | .array items =>
    match iterItems? v with
    | none => .fail .type
    | some xs =>
      if xs.isEmpty then encodeLong 0
      else ((encodeLong xs.length).append
              (WR.concat (xs.map (writeData fuel env o items)))).append (encodeLong 0)
  | .map values =>
    match v with
    | .dict kv =>
      if kv.isEmpty then encodeLong 0
      else ((encodeLong kv.length).append
              (WR.concat (kv.map fun (k, x) => (encUtf8 k).append (writeData fuel env o values x)))).append
            (encodeLong 0)
    | .list xs => if xs.isEmpty then encodeLong 0 else (encodeLong xs.length).append (.fail .type)
    | .tuple xs => if xs.isEmpty then encodeLong 0 else (encodeLong xs.length).append (.fail .type)
    | .str t => if t.isEmpty then encodeLong 0 else (encodeLong t.length).append (.fail .type)
    | .bytes t => if t.isEmpty then encodeLong 0 else (encodeLong t.length).append (.fail .type)
    | _ => .fail .type
  | .union bs =>
    match choose fuel env o bs v with
    | .error e => .fail e
    | .ok (i, v') =>
      match bs[i]? with
      | some b => (encodeLong i).append (writeData fuel env o b v')
      | none => .fail .index
  | .record _ fields _ =>
    match v with
    | .dict kv =>
      let names := fields.map Field.name
      let extras := (dictKeys kv).filter fun k => !names.contains k
      if (o.strict || o.strictAllowDefault) && !extras.isEmpty then .fail .value
      else writeFieldsWith (writeData fuel env o) o fields kv
    | _ => .fail .type
  | .ref n =>
    match env.get? n with
    | some s' => writeData fuel env o s' v
    | none => .fail .index

/-! ### primitive decoders -/

def takeN (n : Nat) (bs : Bytes) : Option (Bytes × Bytes) :=
  if bs.length < n then none else some (bs.take n, bs.drop n)

def decBool : Bytes → R (Val × Bytes)
  | [] => .error .eof
  | b :: rest => .ok (.bool (b != 0), rest)

def decFloat (bs : Bytes) : R (Val × Bytes) :=
  match takeN 4 bs with
  | none => .error .eof
  | some (h, rest) => .ok (.float (Fl.f32ToF64 (UInt32.ofNat (Py.fromBytesLE h))), rest)

def decDouble (bs : Bytes) : R (Val × Bytes) :=
  match takeN 8 bs with
  | none => .error .eof
  | some (h, rest) => .ok (.float (UInt64.ofNat (Py.fromBytesLE h)), rest)

/-- `read_bytes`: a negative size makes `fo.read(size)` read to the end and then fails the
    length comparison -/
def decBytesRaw (bs : Bytes) : R (Bytes × Bytes) := do
  let (n, rest) ← decodeLong bs
  if n < 0 then throw .eof
  match takeN n.toNat rest with
  | none => throw .eof
  | some (h, rest) => pure (h, rest)

def decBytes (bs : Bytes) : R (Val × Bytes) := do
  let (h, rest) ← decBytesRaw bs
  pure (.bytes h, rest)

def decUtf8Raw (bs : Bytes) : R (String × Bytes) := do
  let (h, rest) ← decBytesRaw bs
  match utf8Dec h with
  | some s => pure (s, rest)
  | none => throw .value

def decUtf8 (bs : Bytes) : R (Val × Bytes) := do
  let (s, rest) ← decUtf8Raw bs
  pure (.str s, rest)

def decFixed (size : Nat) (bs : Bytes) : R (Val × Bytes) :=
  match takeN size bs with
  | none => .error .eof
  | some (h, rest) => .ok (.bytes h, rest)

/-- Python `d[k] = v` on an insertion-ordered dict with `str` keys -/
def valDictSet (kv : List (Val × Val)) (k : String) (v : Val) : List (Val × Val) :=
  match kv with
  | [] => [(.str k, v)]
  | (.str k', v') :: rest =>
    if k' == k then (.str k', v) :: rest else (.str k', v') :: valDictSet rest k v
  | e :: rest => e :: valDictSet rest k v

/-- `if index < 0: raise IndexError` followed by `xs[index]` (IndexError when too large) -/
def indexChecked {α} (xs : List α) (i : Int) : Option α := if i < 0 then none else xs[i.toNat]?

/-- `_get_name_and_record_counts_from_union` -/
def unionCounts (bs : List Schema) : Nat × Nat :=
  bs.foldl (fun (acc : Nat × Nat) b =>
    match b with
    | .record .. => (acc.1 + 1, acc.2 + 1)
    | .enum .. => (acc.1 + 1, acc.2)
    | .fixed .. => (acc.1 + 1, acc.2)
    | .ref _ => (acc.1 + 1, acc.2 + 1)
    | _ => acc) (0, 0)

/-- the `return_*` decision at the end of `read_union` (no reader schema) -/
def wrapUnionResult (env : Env) (ro : ROpts) (bs : List Schema) (b : Schema) (result : Val) : R Val :=
  let named := match b with | .record n _ _ | .enum n _ _ _ | .fixed n _ _ _ => some n | _ => none
  let refName : Option (Option String) := match b with
    | .ref n => some ((env.get? n).bind Schema.defName?)
    | _ => none
  if ro.returnNamedTypeOverride && (unionCounts bs).1 == 1 then pure result
  else if ro.returnNamedType && named.isSome then pure (.tuple [.str (named.getD ""), result])
  else if ro.returnNamedType && refName.isSome then
    match refName with
    | some (some n) => pure (.tuple [.str n, result])
    | _ => throw .index
  else if ro.returnRecordNameOverride && (unionCounts bs).2 == 1 then pure result
  else if ro.returnRecordName && (match b with | .record .. => true | _ => false) then
    pure (.tuple [.str (named.getD ""), result])
  else if ro.returnRecordName && refName.isSome then
    match refName with
    | some (some n) => pure (.tuple [.str n, result])
    | _ => throw .index
  else pure result

/-- `for i in range(n): item = rd()` -/
def readItemsWith (rd : Bytes → R (Val × Bytes)) : Nat → Bytes → R (List Val × Bytes)
  | 0, bs => pure ([], bs)
  | n+1, bs => do
    let (x, bs) ← rd bs
    let (xs, bs) ← readItemsWith rd n bs
    pure (x :: xs, bs)

/-- the block header handling of `_iter_array_or_map`: a negative count is followed by a byte size -/
def blockCount (c : Int) (bs : Bytes) : R (Nat × Bytes) :=
  if c < 0 then do
    let (_, r) ← decodeLong bs     -- block size, unused
    pure ((-c).toNat, r)
  else pure (c.toNat, bs)

/-- `_iter_array_or_map` driving `read_array`: `c` is the block count just read. `k` bounds the
    number of blocks; callers pass `bs.length + 1`, which can never run out because every block
    consumes at least the byte(s) of the next count. -/
def readBlocksWith (rd : Bytes → R (Val × Bytes)) : Nat → Int → Bytes → R (List Val × Bytes)
  | 0, _, _ => .error .fuel
  | k+1, c, bs =>
    if c == 0 then pure ([], bs) else do
      let (n, bs) ← blockCount c bs
      let (xs, bs) ← readItemsWith rd n bs
      let (c', bs) ← decodeLong bs
      let (ys, bs) ← readBlocksWith rd k c' bs
      pure (xs ++ ys, bs)

/-- `for i in range(n): key = read_utf8(); d[key] = rd()` -/
def readEntriesWith (rd : Bytes → R (Val × Bytes)) :
    Nat → Bytes → List (Val × Val) → R (List (Val × Val) × Bytes)
  | 0, bs, acc => pure (acc, bs)
  | n+1, bs, acc => do
    let (k, bs) ← decUtf8Raw bs
    let (x, bs) ← rd bs
    readEntriesWith rd n bs (valDictSet acc k x)

def readMapBlocksWith (rd : Bytes → R (Val × Bytes)) :
    Nat → Int → Bytes → List (Val × Val) → R (List (Val × Val) × Bytes)
  | 0, _, _, _ => .error .fuel
  | k+1, c, bs, acc =>
    if c == 0 then pure (acc, bs) else do
      let (n, bs) ← blockCount c bs
      let (acc, bs) ← readEntriesWith rd n bs acc
      let (c', bs) ← decodeLong bs
      readMapBlocksWith rd k c' bs acc

/-- the field loop of `read_record` (no reader schema) -/
def readFieldsWith (rd : Schema → Bytes → R (Val × Bytes)) :
    List Field → Bytes → List (Val × Val) → R (List (Val × Val) × Bytes)
  | [], bs, acc => pure (acc, bs)
  | f :: rest, bs, acc => do
    let (x, bs) ← rd f.type bs
    readFieldsWith rd rest bs (valDictSet acc f.name x)

def readPrim (p : Prim) (bs : Bytes) : R (Val × Bytes) :=
  match p with
  | .null => pure (.none, bs)
  | .boolean => decBool bs
  | .int => do let (n, r) ← decodeLong bs; pure (.int n, r)
  | .long => do let (n, r) ← decodeLong bs; pure (.int n, r)
  | .float => decFloat bs
  | .double => decDouble bs
  | .bytes => decBytes bs
  | .string => decUtf8 bs

/-- `read_data(decoder, writer_schema, named_schemas, None, options)`.
    The fuel bounds the nesting depth only. -/
def readData (fuel : Nat) (env : Env) (ro : ROpts) (s : Schema) (bs : Bytes) : R (Val × Bytes) :=
  match fuel with
  | 0 => .error .fuel
  | fuel+1 =>
  match s with
  | .prim p dictForm lt => do
    let (v, rest) ← readPrim p bs
    if dictForm then
      let v ← Logical.readLogical p.name lt v
      pure (v, rest)
    else pure (v, rest)
  | .fixed _ size lt _ => do
    let (v, rest) ← decFixed size bs
    let v ← Logical.readLogical "fixed" lt v
    pure (v, rest)
  | .enum _ syms _ _ => do
    let (i, rest) ← decodeLong bs
    match indexChecked syms i with
    | some sym => pure (.str sym, rest)
    | none => throw .index
  | .array items => do
    let (c, rest) ← decodeLong bs
    let (xs, rest) ← readBlocksWith (readData fuel env ro items) (rest.length + 1) c rest
    pure (.list xs, rest)
  | .map values => do
    let (c, rest) ← decodeLong bs
    let (kv, rest) ← readMapBlocksWith (readData fuel env ro values) (rest.length + 1) c rest []
    pure (.dict kv, rest)
  | .union branches => do
    let (i, rest) ← decodeLong bs
    match indexChecked branches i with
    | none => throw .index
    | some b =>
      let (v, rest) ← readData fuel env ro b rest
      let v ← wrapUnionResult env ro branches b v
      pure (v, rest)
  | .record _ fields _ => do
    let (kv, rest) ← readFieldsWith (readData fuel env ro) fields bs []
    pure (.dict kv, rest)
  | .ref n =>
    match env.get? n with
    | some s' => readData fuel env ro s' bs
    | none => throw .index

/-! ### skipping (`SKIPS`) -/

def skipItemsWith (sk : Bytes → R Bytes) (isMap : Bool) : Nat → Bytes → R Bytes
  | 0, bs => pure bs
  | n+1, bs => do
    let bs ← (if isMap then do let (_, r) ← decUtf8Raw bs; pure r else pure bs : R Bytes)
    let bs ← sk bs
    skipItemsWith sk isMap n bs

def skipBlocksWith (sk : Bytes → R Bytes) (isMap : Bool) : Nat → Int → Bytes → R Bytes
  | 0, _, _ => .error .fuel
  | k+1, c, bs =>
    if c == 0 then pure bs else do
      let (n, bs) ← blockCount c bs
      let bs ← skipItemsWith sk isMap n bs
      let (c', bs) ← decodeLong bs
      skipBlocksWith sk isMap k c' bs

def skipFieldsWith (sk : Schema → Bytes → R Bytes) : List Field → Bytes → R Bytes
  | [], bs => pure bs
  | f :: rest, bs => do
    let bs ← sk f.type bs
    skipFieldsWith sk rest bs

def skipPrim (p : Prim) (bs : Bytes) : R Bytes :=
  match p with
  | .null => pure bs
  | .boolean => do let (_, r) ← decBool bs; pure r
  | .int => do let (_, r) ← decodeLong bs; pure r
  | .long => do let (_, r) ← decodeLong bs; pure r
  | .float => do let (_, r) ← decFloat bs; pure r
  | .double => do let (_, r) ← decDouble bs; pure r
  | .bytes => do let (_, r) ← decBytesRaw bs; pure r
  | .string => do let (_, r) ← decUtf8Raw bs; pure r

/-- `skip_data` -/
def skipData (fuel : Nat) (env : Env) (s : Schema) (bs : Bytes) : R Bytes :=
  match fuel with
  | 0 => .error .fuel
  | fuel+1 =>
  match s with
  | .prim p _ _ => skipPrim p bs
  | .fixed _ size _ _ => do let (_, r) ← decFixed size bs; pure r
  | .enum .. => do let (_, r) ← decodeLong bs; pure r
  | .array items => do
    let (c, rest) ← decodeLong bs
    skipBlocksWith (skipData fuel env items) false (rest.length + 1) c rest
  | .map values => do
    let (c, rest) ← decodeLong bs
    skipBlocksWith (skipData fuel env values) true (rest.length + 1) c rest
  | .union branches => do
    let (i, rest) ← decodeLong bs
    match indexChecked branches i with
    | none => throw .index
    | some b => skipData fuel env b rest
  | .record _ fields _ => skipFieldsWith (skipData fuel env) fields bs
  | .ref n =>
    match env.get? n with
    | some s' => skipData fuel env s' bs
    | none => throw .index

end Binary
