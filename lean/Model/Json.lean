/-
  Model/Json.lean — the net effect of `json_writer` / `json_reader` on one datum, as the Python
  object handed to `json.dumps` / obtained from `json.loads` (a JSON value is a `Val` built from
  none / bool / int / float / str / list / dict).  The writer side follows `write_data` of
  `_write_py.py` (same traversal as the binary writer: field defaults, `write_union`'s branch choice)
  with the calls it makes on `AvroJSONEncoder`; the reader side follows `read_data` of `_read_py.py`
  with the calls it makes on `AvroJSONDecoder`.
  NOT modelled: the grammar machine of `fastavro/io/parser.py` that sequences those calls (symbol
  stack, `_processed_records`, the forced-null production for repeated record names) — on schemas
  where it derails (known findings F5) the model describes the intended result, and the check
  attributes the difference to the finding.  Logical types are outside this model.
-/
import Model.Binary

namespace Json
open Binary

/-- `bytes.decode("iso-8859-1")`: one character per byte -/
def latin1Dec (b : Bytes) : String := String.ofList (b.map fun x => Char.ofNat x.toNat)

/-- `str.encode("iso-8859-1")`: UnicodeEncodeError above U+00FF -/
def latin1Enc (s : String) : Option Bytes :=
  s.toList.mapM fun c => if c.toNat < 256 then some (UInt8.ofNat c.toNat) else none

/-- the label `Parser._parse` gives a union branch -/
def label : Schema → String
  | .record n _ _ => n
  | .enum n _ _ _ => n
  | .fixed n _ _ _ => n
  | s => s.typeName

/-- the branch symbol is `Null()` -/
def isNullBranch (env : Env) (b : Schema) : Bool :=
  match unwrapRef env b with
  | .prim .null _ _ => true
  | _ => false

def encPrim (p : Prim) (v : Val) : R Val :=
  match p, v with
  | .null, _ => pure .none                       -- write_null ignores the datum
  | .boolean, v => pure v                        -- written as given
  | .int, .int n => pure (.int n)
  | .long, .int n => pure (.int n)
  | .float, .float b => pure (.float b)          -- not rounded to single precision
  | .float, .int n => pure (.int n)
  | .double, .float b => pure (.float b)
  | .double, .int n => pure (.int n)
  | .bytes, .bytes b => pure (.str (latin1Dec b))
  | .bytes, .bytearray b => pure (.str (latin1Dec b))
  | .string, .str s => pure (.str s)
  | _, _ => throw .type

def encItemsWith (f : Val → R Val) : List Val → R (List Val)
  | [] => pure []
  | x :: xs => do let a ← f x; let b ← encItemsWith f xs; pure (a :: b)

/-- `write_map`: keys through `write_utf8` + `write_object_key`; an empty key trips "No key was set" -/
def encEntriesWith (f : Val → R Val) : List (Val × Val) → R (List (Val × Val))
  | [] => pure []
  | (k, x) :: rest => do
    match k with
    | .str s =>
      if s.isEmpty then throw .other
      let a ← f x
      let b ← encEntriesWith f rest
      pure ((.str s, a) :: b)
    | _ => throw .type

/-- `write_record`: fields in schema order, absent ones from their default -/
def encFieldsWith (f : Schema → Val → R Val) : List Field → List (Val × Val) → R (List (Val × Val))
  | [], _ => pure []
  | fld :: rest, kv => do
    let dv := presentOrDefault kv fld
    let dv ← fieldCoerce fld.type dv         -- float(datum_value) for float / double fields
    let a ← f fld.type dv
    let b ← encFieldsWith f rest kv
    pure ((.str fld.name, a) :: b)

/-- the JSON value `json_writer` emits for datum `v` (one line of its output) -/
def encode (wut : Bool) (fuel : Nat) (env : Env) (o : WOpts) (s : Schema) (v : Val) : R Val :=
  match fuel with
  | 0 => .error .fuel
  | fuel+1 =>
  match s with
  | .prim p _ none => encPrim p v
  | .prim _ _ (some _) => throw .other
  | .fixed _ _ none _ =>
    match v with
    | .bytes b => pure (.str (latin1Dec b))
    | _ => throw .type
  | .fixed _ _ (some _) _ => throw .other
  | .enum _ syms _ _ =>
    match v with
    | .str x => if syms.contains x then pure (.str x) else throw .value
    | _ => throw .value
  | .array items =>
    match v with
    | .list xs => do pure (.list (← encItemsWith (encode wut fuel env o items) xs))
    | .tuple xs => do pure (.list (← encItemsWith (encode wut fuel env o items) xs))
    | _ => throw .type
  | .map values =>
    match v with
    | .dict kv => do pure (.dict (← encEntriesWith (encode wut fuel env o values) kv))
    | _ => throw .type
  | .union bs => do
    let (i, v') ← choose fuel env o bs v
    match bs[i]? with
    | none => throw .index
    | some b =>
      let j ← encode wut fuel env o b v'
      if isNullBranch env b || !wut then pure j else pure (.dict [(.str (label b), j)])
  | .record _ fields _ =>
    match v with
    | .dict kv => do pure (.dict (← encFieldsWith (encode wut fuel env o) fields kv))
    | _ => throw .type
  | .ref n =>
    match env.get? n with
    | some s' => encode wut fuel env o s' v
    | none => throw .index

/-! ### reading -/

def decPrim (p : Prim) (j : Val) : R Val :=
  match p, j with
  | .null, _ => pure .none
  | .bytes, .str s => (match latin1Enc s with | some b => pure (.bytes b) | none => throw .value)
  | .bytes, _ => throw .type
  | _, j => pure j                               -- read_value returns the JSON value as it is

def decItemsWith (f : Val → R Val) : List Val → R (List Val)
  | [] => pure []
  | x :: xs => do let a ← f x; let b ← decItemsWith f xs; pure (a :: b)

def decEntriesWith (f : Val → R Val) : List (Val × Val) → List (Val × Val) → R (List (Val × Val))
  | [], acc => pure acc
  | (k, x) :: rest, acc => do
    match k with
    | .str s =>
      let a ← f x
      decEntriesWith f rest (valDictSet acc s a)
    | _ => throw .type

/-- the JSON value a field of type `t` is read from when its key is absent: the default, wrapped
    as a union value of the first branch when `t` is a union (`read_index`) -/
def absentField (env : Env) (t : Schema) (dflt : Option Val) : R Val :=
  match dflt with
  | none => throw .value                          -- "no value and no default"
  | some d =>
    match unwrapRef env t with
    | .union (b :: _) => if isNullBranch env b then pure d else pure (.dict [(.str (label b), d)])
    | _ => pure d

def decFieldsWith (env : Env) (f : Schema → Val → R Val) : List Field → List (Val × Val) → List (Val × Val) → R (List (Val × Val))
  | [], _, acc => pure acc
  | fld :: rest, kv, acc => do
    let j ← match dictGetV kv fld.name with
      | some x => pure x
      | none => absentField env fld.type fld.default
    let a ← f fld.type j
    decFieldsWith env f rest kv (valDictSet acc fld.name a)

def findLabel (env : Env) (bs : List Schema) (l : String) : Option Schema :=
  bs.find? fun b => label b == l

/-- the datum `json_reader` returns for JSON value `j` -/
def decode (fuel : Nat) (env : Env) (s : Schema) (j : Val) : R Val :=
  match fuel with
  | 0 => .error .fuel
  | fuel+1 =>
  match s with
  | .prim p _ none => decPrim p j
  | .prim _ _ (some _) => throw .other
  | .fixed _ _ none _ =>
    match j with
    | .str t => (match latin1Enc t with | some b => pure (.bytes b) | none => throw .value)
    | _ => throw .type
  | .fixed _ _ (some _) _ => throw .other
  | .enum _ syms _ _ =>
    match j with
    | .str x => if syms.contains x then pure (.str x) else throw .value
    | _ => throw .value
  | .array items =>
    match j with
    | .list xs => do pure (.list (← decItemsWith (decode fuel env items) xs))
    | _ => throw .type
  | .map values =>
    match j with
    | .dict kv => do pure (.dict (← decEntriesWith (decode fuel env values) kv []))
    | _ => throw .type
  | .union bs =>
    match j with
    | .none =>
      (match bs.find? (isNullBranch env) with
       | some b => decode fuel env b .none
       | none => throw .value)
    | .dict [(.str l, x)] =>
      (match findLabel env bs l with
       | some b => decode fuel env b x
       | none => throw .value)
    | _ => throw .type
  | .record _ fields _ =>
    match j with
    | .dict kv => do pure (.dict (← decFieldsWith env (decode fuel env) fields kv []))
    | _ => throw .type
  | .ref n =>
    match env.get? n with
    | some s' => decode fuel env s' j
    | none => throw .index

end Json
