/-
  Model/Logical.lean — follows `fastavro/_logical_writers_py.py` (`prepare_*`) and
  `fastavro/_logical_readers_py.py` (`read_*`).

  Abstract Python values: `date` = proleptic Gregorian ordinal; `time` = µs after midnight;
  `datetime` = µs since 1970-01-01T00:00 (UTC instant if aware; wall clock if naive, which equals
  the `time.mktime` result under TZ=UTC — the only setting the property quantifies over);
  `Decimal` = `as_tuple()`; `UUID` = its 128-bit integer.
  Float division `int(a / b)` by the constant divisors is modelled as truncating integer division
  (validated exhaustively at the carry points by the C16 thorough tier).
-/
import Model.Schema
import Model.Py

namespace Logical

-- constants; Gen/Tables.lean regenerates them from const.py and Properties/C16 proves equality
def MCS_PER_SECOND : Int := 1000000
def MCS_PER_MINUTE : Int := 60000000
def MCS_PER_HOUR : Int := 3600000000
def MLS_PER_SECOND : Int := 1000
def MLS_PER_MINUTE : Int := 60000
def MLS_PER_HOUR : Int := 3600000
def DAYS_SHIFT : Int := 719163
def MAXORDINAL : Int := 3652059
/-- µs since the epoch of datetime.min / datetime.max -/
def DT_MIN_US : Int := -62135596800000000
def DT_MAX_US : Int := 253402300799999999

/-- Python `int(a / b)` for `b > 0`: truncation toward zero -/
def truncDiv (a b : Int) : Int := Int.tdiv a b

/-- `timedelta` normalisation of a µs count: (days, seconds, microseconds), the last two non-negative -/
def tdNorm (us : Int) : Int × Int × Int :=
  let days := us.fdiv 86400000000
  let r := us.fmod 86400000000
  (days, r.fdiv 1000000, r.fmod 1000000)

def isLeap (y : Nat) : Bool := y % 4 == 0 && (y % 100 != 0 || y % 400 == 0)
def daysBeforeYear (y : Nat) : Nat := let y := y - 1; y * 365 + y / 4 - y / 100 + y / 400
def daysInMonth (y m : Nat) : Nat :=
  if m == 2 then (if isLeap y then 29 else 28)
  else if m == 4 || m == 6 || m == 9 || m == 11 then 30 else 31
def daysBeforeMonth (y m : Nat) : Nat :=
  (List.range (m - 1)).foldl (fun acc i => acc + daysInMonth y (i + 1)) 0
/-- `date(y, m, d).toordinal()`; `none` for an invalid date -/
def ymdToOrdinal (y m d : Nat) : Option Nat :=
  if 1 ≤ y && y ≤ 9999 && 1 ≤ m && m ≤ 12 && 1 ≤ d && d ≤ daysInMonth y m
  then some (daysBeforeYear y + daysBeforeMonth y m + d) else none

def digitsToNat? (cs : List Char) : Option Nat :=
  if cs.isEmpty || !cs.all Char.isDigit then none
  else some (cs.foldl (fun acc c => acc * 10 + (c.toNat - '0'.toNat)) 0)

/-- `date.fromisoformat` restricted to the `YYYY-MM-DD` form (and `YYYYMMDD`, accepted since 3.11) -/
def dateFromIso (s : String) : Option Nat :=
  let cs := s.toList
  let go (y m d : List Char) : Option Nat := do
    let y ← digitsToNat? y; let m ← digitsToNat? m; let d ← digitsToNat? d
    ymdToOrdinal y m d
  if cs.length == 10 && cs[4]? == some '-' && cs[7]? == some '-' then
    go (cs.take 4) ((cs.drop 5).take 2) (cs.drop 8)
  else if cs.length == 8 then go (cs.take 4) ((cs.drop 4).take 2) (cs.drop 6)
  else none

/-! ### writers -/

def prepareTimestampMillis : Val → R Val
  | .datetime us _ =>
      let (d, s, mc) := tdNorm us
      .ok (.int ((d * 24 * 3600 + s) * MLS_PER_SECOND + truncDiv mc 1000))
  | v => .ok v

def prepareTimestampMicros : Val → R Val
  | .datetime us _ =>
      let (d, s, mc) := tdNorm us
      .ok (.int ((d * 24 * 3600 + s) * MCS_PER_SECOND + mc))
  | v => .ok v

def prepareDate : Val → R Val
  | .date o => .ok (.int (o - DAYS_SHIFT))
  | .datetime us false => .ok (.int (us.fdiv 86400000000))   -- a naive datetime is a date
  | .datetime _ true => .error .other                         -- local date of an aware datetime: not modelled
  | .str s => match dateFromIso s with
      | some o => .ok (.int ((o : Int) - DAYS_SHIFT))
      | none => .ok (.str s)      -- not an ISO date: returned unchanged
  | v => .ok v

def prepareTimeMillis : Val → R Val
  | .time us =>
      let us : Int := us
      let h := us / 3600000000; let m := us / 60000000 % 60; let s := us / 1000000 % 60
      let mc := us % 1000000
      .ok (.int (h * MLS_PER_HOUR + m * MLS_PER_MINUTE + s * MLS_PER_SECOND + truncDiv mc 1000))
  | v => .ok v

def prepareTimeMicros : Val → R Val
  | .time us =>
      let us : Int := us
      let h := us / 3600000000; let m := us / 60000000 % 60; let s := us / 1000000 % 60
      let mc := us % 1000000
      .ok (.int (h * MCS_PER_HOUR + m * MCS_PER_MINUTE + s * MCS_PER_SECOND + mc))
  | v => .ok v

def digitsToNat (ds : List Nat) : Nat := ds.foldl (fun acc d => acc * 10 + d) 0

/-- `prepare_bytes_decimal` -/
def prepareBytesDecimal (lt : LogT) : Val → R Val
  | .decimal sign digits exp => do
      let precision ← match lt.precision with | some p => pure p | none => throw .index
      if (digits.length : Int) > precision then throw .value
      let delta := exp + lt.scale
      if delta < 0 then throw .value
      let unscaled := 10 ^ delta.toNat * digitsToNat digits
      let bytesReq := (Py.bitLength unscaled + 8) / 8
      let n : Int := if sign then -(unscaled : Int) else unscaled
      match Py.toBytesBESigned bytesReq n with
      | some b => pure (.bytes b)
      | none => throw .value
  | v => .ok v

/-- `prepare_fixed_decimal`, the mask / bits_req / offset_bits algorithm as written -/
def prepareFixedDecimal (lt : LogT) (size : Nat) : Val → R Val
  | .decimal sign digits exp => do
      let precision ← match lt.precision with | some p => pure p | none => throw .index
      if (digits.length : Int) > precision then throw .value
      if -exp > lt.scale then throw .value
      let delta := exp + lt.scale
      let digits := if delta > 0 then digits ++ List.replicate delta.toNat 0 else digits
      let unscaled := digitsToNat digits
      let sign := if unscaled = 0 then false else sign      -- negative zero is zero
      let bitsReq := Py.bitLength unscaled + 1
      let sizeInBits := size * 8
      -- if unscaled_datum > (1 << (size_in_bits - 1)) - (0 if sign else 1): raise ValueError
      if sizeInBits = 0 then throw .value                  -- 1 << -1 raises ValueError
      if (unscaled : Int) > (2 : Int) ^ (sizeInBits - 1) - (if sign then 0 else 1) then throw .value
      -- offset_bits = size_in_bits - bits_req  (may be negative in Python)
      let offsetBits : Int := (sizeInBits : Int) - bitsReq
      -- mask = (2**size_in_bits - 1) with the low bits_req bits toggled (all operands are non-negative)
      let mask : Nat := (2 ^ sizeInBits - 1) ^^^ (2 ^ bitsReq - 1)
      let bytesReq := if bitsReq < 8 then 1 else (if bitsReq % 8 != 0 then bitsReq / 8 + 1 else bitsReq / 8)
      if sign then
        -- unscaled_datum = (1 << bits_req) - unscaled_datum; unscaled_datum = mask | unscaled_datum
        let u : Nat := mask ||| (2 ^ bitsReq - unscaled)
        -- for index in range(size-1, -1, -1): write((u >> 8*index) & 0xFF)
        pure (.bytes (Py.toBytesBE size u))
      else
        let zeros := (offsetBits.fdiv 8).toNat     -- range(negative) is empty
        -- for index in range(bytes_req-1, -1, -1): write((unscaled >> 8*index) & 0xFF)
        pure (.bytes (List.replicate zeros 0 ++ Py.toBytesBE bytesReq unscaled))
  | v => .ok v

def hexDigit (n : Nat) : Char := if n < 10 then Char.ofNat (48 + n) else Char.ofNat (87 + n)
def hexOfNat (width n : Nat) : String :=
  String.ofList ((List.range width).reverse.map fun i => hexDigit ((n >>> (4 * i)) % 16))

/-- `str(uuid.UUID)` : 8-4-4-4-12 lower-case hex -/
def uuidToStr (n : Nat) : String :=
  let h := (hexOfNat 32 n).toList
  String.ofList (h.take 8 ++ ['-'] ++ (h.drop 8).take 4 ++ ['-'] ++ (h.drop 12).take 4 ++ ['-'] ++
    (h.drop 16).take 4 ++ ['-'] ++ h.drop 20)

def prepareUuid : Val → R Val
  | .uuid n => .ok (.str (uuidToStr n))
  | v => .ok v

/-- `LOGICAL_WRITERS.get(f"{type}-{logicalType}")` applied to a datum -/
def prepare (tyName : String) (lt : Option LogT) (size : Nat) (v : Val) : R Val :=
  match lt with
  | none => .ok v
  | some lt =>
    let key := tyName ++ "-" ++ lt.name
    if key == "long-timestamp-millis" then prepareTimestampMillis v
    else if key == "long-local-timestamp-millis" then prepareTimestampMillis v
    else if key == "long-timestamp-micros" then prepareTimestampMicros v
    else if key == "long-local-timestamp-micros" then prepareTimestampMicros v
    else if key == "int-date" then prepareDate v
    else if key == "bytes-decimal" then prepareBytesDecimal lt v
    else if key == "fixed-decimal" then prepareFixedDecimal lt size v
    else if key == "string-uuid" then prepareUuid v
    else if key == "int-time-millis" then prepareTimeMillis v
    else if key == "long-time-micros" then prepareTimeMicros v
    else .ok v

/-! ### readers -/

def readTimestamp (aware : Bool) (us : Int) : R Val :=
  -- timedelta(microseconds=…) overflows beyond ±999999999 days; datetime range is narrower
  if us < DT_MIN_US || us > DT_MAX_US then .error .value else .ok (.datetime us aware)

def readDate (n : Int) : R Val :=
  let o := n + DAYS_SHIFT
  if o < 1 || o > MAXORDINAL then .error .value else .ok (.date o)

/-- `read_time_millis`: `int(data / c)` truncates toward zero, `%` is Python's -/
def readTimeMillis (data : Int) : R Val :=
  let h := truncDiv data MLS_PER_HOUR
  let m := (truncDiv data MLS_PER_MINUTE).fmod 60
  let s := (truncDiv data MLS_PER_SECOND).fmod 60
  let mls := (data.fmod MLS_PER_SECOND) * 1000
  if h < 0 || h > 23 then .error .value
  else .ok (.time ((h * 3600000000 + m * 60000000 + s * 1000000 + mls).toNat))

def readTimeMicros (data : Int) : R Val :=
  let h := truncDiv data MCS_PER_HOUR
  let m := (truncDiv data MCS_PER_MINUTE).fmod 60
  let s := (truncDiv data MCS_PER_SECOND).fmod 60
  let mcs := data.fmod MCS_PER_SECOND
  if h < 0 || h > 23 then .error .value
  else .ok (.time ((h * 3600000000 + m * 60000000 + s * 1000000 + mcs).toNat))

def natDigits (n : Nat) : List Nat := (Nat.toDigits 10 n).map fun c => c.toNat - '0'.toNat

/-- round a digit string to `prec` significant digits, half-even; returns digits and the exponent shift -/
def roundDigits (ds : List Nat) (prec : Nat) : List Nat × Nat :=
  if ds.length ≤ prec then (ds, 0) else
  let keep := ds.take prec
  let rest := ds.drop prec
  let shift := rest.length
  let q := digitsToNat keep
  let half := 5 * 10 ^ (shift - 1)
  let r := digitsToNat rest
  let q := if r > half || (r == half && q % 2 == 1) then q + 1 else q
  let qd := natDigits q
  if qd.length > prec then (qd.take prec, shift + 1) else (qd, shift)

/-- `read_decimal` -/
def readDecimal (lt : LogT) (b : Bytes) : R Val := do
  let precision ← match lt.precision with | some p => pure p | none => throw .index
  let unscaled := Py.fromBytesBESigned b
  if precision < 1 then throw .value
  let (ds, sh) := roundDigits (natDigits unscaled.natAbs) precision.toNat
  pure (.decimal (unscaled < 0) ds ((sh : Int) - lt.scale))

def hexVal? (c : Char) : Option Nat :=
  if c.isDigit then some (c.toNat - 48)
  else if 'a' ≤ c && c ≤ 'f' then some (c.toNat - 87)
  else if 'A' ≤ c && c ≤ 'F' then some (c.toNat - 55) else none

/-- `uuid.UUID(s)`: strips `urn:`, `uuid:`, braces and hyphens, then wants 32 hex digits -/
def readUuid (s : String) : R Val :=
  let t := (s.replace "urn:" "").replace "uuid:" ""
  let cs := t.toList
  let cs := cs.dropWhile (fun c => c == '{' || c == '}')
  let cs := (cs.reverse.dropWhile (fun c => c == '{' || c == '}')).reverse
  let cs := cs.filter (· != '-')
  if cs.length != 32 then .error .value else
  match cs.mapM hexVal? with
  | some ds => .ok (.uuid (ds.foldl (fun acc d => acc * 16 + d) 0))
  | none => .error .value

/-- `LOGICAL_READERS.get(...)` applied to the raw value read -/
def readLogical (tyName : String) (lt : Option LogT) (v : Val) : R Val :=
  match lt with
  | none => .ok v
  | some lt =>
    let key := tyName ++ "-" ++ lt.name
    match v with
    | .int n =>
      if key == "long-timestamp-millis" then readTimestamp true (n * 1000)
      else if key == "long-local-timestamp-millis" then readTimestamp false (n * 1000)
      else if key == "long-timestamp-micros" then readTimestamp true n
      else if key == "long-local-timestamp-micros" then readTimestamp false n
      else if key == "int-date" then readDate n
      else if key == "int-time-millis" then readTimeMillis n
      else if key == "long-time-micros" then readTimeMicros n
      else .ok v
    | .bytes b =>
      if key == "bytes-decimal" || key == "fixed-decimal" then readDecimal lt b else .ok v
    | .str s => if key == "string-uuid" then readUuid s else .ok v
    | _ => .ok v

end Logical
