/-
  Model/Effects.lean — the abstract semantics behind the generated effect table (Gen/Effects.lean):
  a *store* maps the module-level state objects to values; a call is a function of its arguments and
  the store that returns a result and a new store and respects a declared footprint (C17); a thread
  is a program of atomic reads and writes of those objects, and threads interleave (C18).
-/

namespace Effects

abbrev Obj := String

/-- a public call with its footprint: `reads` = the objects whose value *before the call* can
    influence it (objects the call always rewrites before reading them are not among them),
    `writes` = the objects it may modify -/
structure Call (A V Res : Type) where
  reads : List Obj
  writes : List Obj
  run : A → (Obj → V) → Res × (Obj → V)
  /-- objects outside `writes` keep their value -/
  frame : ∀ a σ g, g ∉ writes → (run a σ).2 g = σ g
  /-- the result depends on the store only through `reads` -/
  dep : ∀ a σ σ', (∀ g ∈ reads, σ g = σ' g) → (run a σ).1 = (run a σ').1

/-- the store after a history of calls -/
def exec {A V Res} (σ : Obj → V) : List (Call A V Res × A) → (Obj → V)
  | [] => σ
  | (c, a) :: rest => exec (c.run a σ).2 rest

/-- the footprint condition: whatever a call may read (before writing it itself) is written by no call -/
def Safe {A V Res} (calls : List (Call A V Res)) : Prop :=
  ∀ c ∈ calls, ∀ g ∈ c.reads, ∀ c' ∈ calls, g ∉ c'.writes

/-! ### threads -/

/-- a thread: atomic reads and writes of shared objects, then a result -/
inductive Prog (V Res : Type) where
  | done (r : Res)
  | read (g : Obj) (k : V → Prog V Res)
  | write (g : Obj) (v : V) (k : Prog V Res)

namespace Prog

/-- no write anywhere in the program -/
def readOnly {V Res} : Prog V Res → Prop
  | .done _ => True
  | .read _ k => ∀ v, readOnly (k v)
  | .write _ _ _ => False

/-- one atomic step -/
def step {V Res} (σ : Obj → V) : Prog V Res → Prog V Res × (Obj → V)
  | .done r => (.done r, σ)
  | .read g k => (k (σ g), σ)
  | .write g v k => (k, fun h => if h = g then v else σ h)

/-- run alone for `n` steps -/
def runAlone {V Res} (σ : Obj → V) : Nat → Prog V Res → Prog V Res × (Obj → V)
  | 0, p => (p, σ)
  | n+1, p => runAlone (step σ p).2 n (step σ p).1

def result? {V Res} : Prog V Res → Option Res
  | .done r => some r
  | _ => none

end Prog

/-- the threads of a system and the shared store -/
structure Sys (V Res : Type) where
  threads : List (Prog V Res)
  store : Obj → V

/-- thread `i` takes one atomic step -/
def Sys.stepAt {V Res} (s : Sys V Res) (i : Nat) : Sys V Res :=
  match s.threads[i]? with
  | none => s
  | some p => { threads := s.threads.set i (Prog.step s.store p).1, store := (Prog.step s.store p).2 }

/-- run a schedule (the sequence of thread indices that take a step) -/
def Sys.runSched {V Res} (s : Sys V Res) : List Nat → Sys V Res
  | [] => s
  | i :: rest => (s.stepAt i).runSched rest

end Effects
