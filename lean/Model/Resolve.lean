/-
  Model/Resolve.lean — follows the reader-schema paths of `fastavro/_read_py.py`:
  `match_types`, `_reader_branches`, `match_schemas`, `maybe_promote`, and `read_data` /
  `read_enum` / `read_array` / `read_map` / `read_union` / `read_record` when a reader schema is given.
  `wenv` / `renv` are `named_schemas["writer"]` / `named_schemas["reader"]`.
  Not modelled here: the `return_*` options together with a reader schema (the property does not
  speak about them), logical-type readers under resolution, the types `error` / `request`.
  A falsy reader schema (`None`; `[]` is excluded) means "no reader schema" (`Binary.readData`).
-/
import Model.Binary

namespace Resolve
open Binary

def NAMED_TYPES : List String := ["enum", "error", "fixed", "record"]
def AVRO_TYPES : List String := ["array", "boolean", "bytes", "double", "enum", "error", "error_union", "fixed",
  "float", "int", "long", "map", "null", "record", "request", "string", "union"]

/-- `isinstance(schema, list)` -/
def isList : Schema → Bool | .union _ => true | _ => false
/-- `isinstance(schema, dict)` -/
def isDict : Schema → Bool
  | .prim _ d _ => d
  | .record .. | .enum .. | .fixed .. | .array _ | .map _ => true
  | _ => false

/-- the promotion cases of `match_types` on two type names (tied to /repo by Properties/TablesResolve) -/
def PROMOTIONS : List (String × String) :=
  [("bytes", "string"), ("float", "double"), ("int", "double"), ("int", "float"), ("int", "long"),
   ("long", "double"), ("long", "float"), ("string", "bytes")]

def promotes (w r : String) : Bool := PROMOTIONS.contains (w, r)

/-- `w_schema["name"].split(".")[-1]` -/
def unqual (n : String) : String := (n.splitOn ".").getLast?.getD n

def aliasesOfDef : Schema → List String
  | .record _ _ a => a
  | .enum _ _ _ a => a
  | .fixed _ _ _ a => a
  | _ => []

/-- the name test of the NAMED_TYPES branch of `match_schemas` -/
def namesMatch (wname rname : String) (raliases : List String) : Bool :=
  unqual wname == unqual rname || raliases.contains wname || raliases.contains (unqual wname)

/-- `match_types` on two *type names* (both arguments `str`), given `match_schemas` -/
def matchNamesWith (ms : Schema → Schema → R Schema) (wenv renv : Env) (w r : String) : R Bool :=
  if w == r && AVRO_TYPES.contains w then pure true
  else if promotes w r then pure true
  else
    -- names of named types stand for their definitions
    match wenv.get? w, renv.get? r with
    | some wd, some rd =>
      -- match_types(writer_schema, reader_schema): both are definitions (dicts)
      match ms wd rd with
      | .ok _ => pure true
      | .error .resolution => pure false
      | .error e => throw e
    | _, _ => pure (w == r)

/-- `match_types(writer_type, reader_type, named_schemas)`, given `match_schemas` -/
def matchTypesWith (ms : Schema → Schema → R Schema) (wenv renv : Env) (w r : Schema) : R Bool :=
  if isList w || isList r then pure true
  else if isDict w || isDict r then
    match ms w r with
    | .ok _ => pure true
    | .error .resolution => pure false
    | .error e => throw e
  else matchNamesWith ms wenv renv w.typeName r.typeName

/-- `definition(schema, names)` of `_reader_branches`: a name is replaced by its definition -/
def definitionOf (env : Env) (s : Schema) : Schema :=
  match s with
  | .ref n => (env.get? n).getD s
  | s => s

/-- the sort key of `_reader_branches`: 0 = the writer's kind and full name, 1 = the writer's kind, 2 = other -/
def branchRank (wenv renv : Env) (w : Schema) (s : Schema) : Nat :=
  let wd := definitionOf wenv w
  let rd := definitionOf renv s
  if rd.typeName != wd.typeName then 2
  else if wd.defName?.isSome && rd.defName? == wd.defName? then 0
  else 1

/-- `_reader_branches`: `sorted(r_union, key=rank)` (stable) -/
def readerBranches (wenv renv : Env) (w : Schema) (rs : List Schema) : List Schema :=
  rs.filter (fun s => branchRank wenv renv w s == 0) ++ rs.filter (fun s => branchRank wenv renv w s == 1) ++
    rs.filter (fun s => branchRank wenv renv w s == 2)

/-- `for schema in branches: if match_types(w, schema): return schema` — `none` when the loop ends -/
def firstMatchWith (mt : Schema → Schema → R Bool) (w : Schema) : List Schema → R (Option Schema)
  | [] => pure none
  | b :: rest => do
    if ← mt w b then pure (some b) else firstMatchWith mt w rest

/-- `match_schemas(w_schema, r_schema, named_schemas)`: the reader schema to continue with -/
def matchSchemas (fuel : Nat) (wenv renv : Env) (w r : Schema) : R Schema :=
  match fuel with
  | 0 => .error .fuel
  | fuel+1 =>
  let ms := matchSchemas fuel wenv renv
  let mt := matchTypesWith ms wenv renv
  match w, r with
  | .union _, _ => pure r
  | _, .union rs => do
    match ← firstMatchWith mt w (readerBranches wenv renv w rs) with
    | some b => ms w b
    | none => throw .resolution
  | .map wv, .map rv => do if ← mt wv rv then pure r else throw .resolution
  | .array wi, .array ri => do if ← mt wi ri then pure r else throw .resolution
  | _, _ =>
    let wt := w.typeName
    let rt := r.typeName
    if w.isNamedDef && r.isNamedDef then
      -- `w_type in NAMED_TYPES and r_type in NAMED_TYPES`
      if wt != rt then throw .resolution
      else
        let sizeOk := match w, r with
          | .fixed _ ws _ _, .fixed _ rs _ _ => ws == rs
          | _, _ => true
        if !sizeOk then throw .resolution
        else if namesMatch (w.defName?.getD "") (r.defName?.getD "") (aliasesOfDef r) then pure r
        else throw .resolution
    else if !AVRO_TYPES.contains wt && r.isNamedDef then do
      -- the writer refers to a named type, the reader defines one here
      let rn := r.defName?.getD ""
      if ← matchNamesWith ms wenv renv wt rn then pure (.ref rn) else throw .resolution
    else if w.isNamedDef && !AVRO_TYPES.contains rt then
      -- the writer defines the type here, the reader refers to it by name
      match renv.get? rt with
      | some rd => ms w rd
      | none => throw .resolution
    else do
      if ← matchNamesWith ms wenv renv wt rt then pure r else throw .resolution

def matchTypes (fuel : Nat) (wenv renv : Env) (w r : Schema) : R Bool :=
  matchTypesWith (matchSchemas fuel wenv renv) wenv renv w r

/-- which conversion `maybe_promote` applies for a pair of type names (tied to /repo by
    Properties/TablesResolve: the function is tabulated over its whole decision domain each run) -/
def promoteOp (wt rt : String) : String :=
  if (wt == "int" || wt == "long") && (rt == "float" || rt == "double") then "float"
  else if wt == "string" && rt == "bytes" then "encode"
  else if wt == "bytes" && rt == "string" then "decode"
  else "id"

/-- `maybe_promote(data, writer_type, reader_type)` -/
def maybePromote (v : Val) (wt rt : String) : R Val :=
  match promoteOp wt rt with
  | "float" => Binary.pyFloat v
  | "encode" => (match v with | .str s => pure (.bytes (utf8Enc s)) | _ => throw .type)
  | "decode" =>
    (match v with
     | .bytes b => (match utf8Dec b with | some s => pure (.str s) | none => throw .value)
     | _ => throw .type)
  | _ => pure v

/-- the lookup `readers_field_dict.get(name, aliases_field_dict.get(name))` of `read_record`:
    a field of that name (the last one, as in a dict built in order), else the last field carrying
    that alias -/
def findReaderField (rfields : List Field) (name : String) : Option Field :=
  match (rfields.reverse.find? fun f => f.name == name) with
  | some f => some f
  | none => rfields.reverse.find? fun f => f.aliases.contains name

/-- the writer-field loop of `read_record` with a reader schema: matched fields are read under the
    reader field's type and stored under the reader field's name, the others are skipped -/
def readFieldsRWith (rd : Schema → Schema → Bytes → R (Val × Bytes)) (sk : Schema → Bytes → R Bytes)
    (rfields : List Field) : List Field → Bytes → List (Val × Val) → R (List (Val × Val) × Bytes)
  | [], bs, acc => pure (acc, bs)
  | f :: rest, bs, acc =>
    match findReaderField rfields f.name with
    | some rf => do
      let (x, bs) ← rd f.type rf.type bs
      readFieldsRWith rd sk rfields rest bs (valDictSet acc rf.name x)
    | none => do
      let bs ← sk f.type bs
      readFieldsRWith rd sk rfields rest bs acc

/-- number of distinct field names (`len(readers_field_dict)`) -/
def distinctNames (fs : List Field) : Nat := (fs.map Field.name).eraseDups.length

/-- "fill in default values": reader fields that are neither writer fields nor already set -/
def fillDefaults (wnames : List String) : List Field → List (Val × Val) → R (List (Val × Val))
  | [], acc => pure acc
  | f :: rest, acc =>
    if !wnames.contains f.name && (dictGetV acc f.name).isNone then
      match f.default with
      | some d => fillDefaults wnames rest (valDictSet acc f.name d)
      | none => throw .resolution
    else fillDefaults wnames rest acc

/-- the items of `readers_field_dict` in insertion order: first occurrence position, last value -/
def readerFieldItems (rfields : List Field) : List Field :=
  (rfields.map Field.name).eraseDups.filterMap fun n => rfields.reverse.find? fun f => f.name == n

/-- `read_enum`'s reader-schema step on the decoded symbol -/
def resolveSymbol (sym : String) (r : Schema) : R Val :=
  match r with
  | .enum _ rsyms rdef _ =>
    if rsyms.contains sym then pure (.str sym)
    else match rdef with
      | some d => if d.truthy then pure d else throw .resolution
      | none => throw .resolution
  | _ => throw .index        -- `reader_schema["symbols"]` on something that is not an enum

/-- `read_data(decoder, writer_schema, named_schemas, reader_schema, options)` with a reader schema
    (`return_*` options off). The fuel bounds the nesting depth only. -/
def readR (fuel : Nat) (wenv renv : Env) (ro : ROpts) (w r : Schema) (bs : Bytes) : R (Val × Bytes) :=
  match fuel with
  | 0 => .error .fuel
  | fuel+1 => do
  -- reader_schema = match_schemas(writer_schema, reader_schema, named_schemas)
  let r' ← matchSchemas fuel wenv renv w r
  match w with
  | .ref n =>
    -- not in READERS: continue with the two definitions
    match wenv.get? n with
    | none => throw .index
    | some wd =>
      -- named_schemas["reader"].get(reader_schema)
      match r' with
      | .ref m =>
        (match renv.get? m with
         | some rd => readR fuel wenv renv ro wd rd bs
         | none => Binary.readData fuel wenv ro wd bs)
      | .prim p false _ =>
        (match renv.get? p.name with
         | some rd => readR fuel wenv renv ro wd rd bs
         | none => Binary.readData fuel wenv ro wd bs)
      | _ => throw .type     -- unhashable
  | .prim p _ lt => do
    let (v, rest) ← readPrim p bs
    if lt.isSome then
      let v ← Logical.readLogical p.name lt v
      pure (v, rest)
    else
      let v ← maybePromote v p.name r'.typeName
      pure (v, rest)
  | .fixed _ size lt _ => do
    let (v, rest) ← decFixed size bs
    if lt.isSome then
      let v ← Logical.readLogical "fixed" lt v
      pure (v, rest)
    else pure (v, rest)
  | .enum _ syms _ _ => do
    let (i, rest) ← decodeLong bs
    match indexChecked syms i with
    | none => throw .index
    | some sym =>
      let v ← resolveSymbol sym r'
      pure (v, rest)
  | .array wi =>
    match r' with
    | .array ri => do
      let (c, rest) ← decodeLong bs
      let (xs, rest) ← readBlocksWith (readR fuel wenv renv ro wi ri) (rest.length + 1) c rest
      pure (.list xs, rest)
    | _ => throw .index
  | .map wv =>
    match r' with
    | .map rv => do
      let (c, rest) ← decodeLong bs
      let (kv, rest) ← readMapBlocksWith (readR fuel wenv renv ro wv rv) (rest.length + 1) c rest []
      pure (.dict kv, rest)
    | _ => throw .index
  | .union wbs => do
    let (i, rest) ← decodeLong bs
    match indexChecked wbs i with
    | none => throw .index
    | some b =>
      match r' with
      | .union rs => do
        match ← firstMatchWith (matchTypes fuel wenv renv) b (readerBranches wenv renv b rs) with
        | some rb => readR fuel wenv renv ro b rb rest
        | none => throw .resolution
      | _ => do
        if ← matchTypes fuel wenv renv b r' then readR fuel wenv renv ro b r' rest
        else throw .resolution
  | .record _ wfields _ =>
    match r' with
    | .record _ rfields _ => do
      let (acc, rest) ← readFieldsRWith (readR fuel wenv renv ro) (skipData fuel wenv) rfields wfields bs []
      let acc ← if distinctNames rfields > acc.length
        then fillDefaults (wfields.map Field.name) (readerFieldItems rfields) acc else pure acc
      pure (.dict acc, rest)
    | _ => throw .index

/-- `schemaless_reader(fo, writer_schema, reader_schema)` after both schemas are parsed: no reader
    schema when none is given (or the raw schemas were equal) -/
def readTop (fuel : Nat) (wenv renv : Env) (ro : ROpts) (w : Schema) (r : Option Schema) (bs : Bytes) : R (Val × Bytes) :=
  match r with
  | none => Binary.readData fuel wenv ro w bs
  | some r => readR fuel wenv renv ro w r bs

end Resolve
