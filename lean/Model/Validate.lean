/-
  Model/Validate.lean — follows `fastavro/_validation_py.py`: the per-type validators, `_validate`
  (NoValue / strict logic, logical-type preparation, by-name look-up, raising mode) and the union
  validator (tuple notation that only names *record* branches, bare type names and references;
  error aggregation).
-/
import Model.Schema
import Model.Logical

structure VOpts where
  strict : Bool := false
  disableTuple : Bool := false
deriving Repr, Inhabited

namespace Validate

def INT_MIN : Int := -2147483648
def INT_MAX : Int := 2147483647
def LONG_MIN : Int := -9223372036854775808
def LONG_MAX : Int := 9223372036854775807

/-- `isinstance(d, (Sequence, array.array)) and not isinstance(d, str)`, with the items -/
def asSeq? : Val → Option (List Val)
  | .list xs => some xs
  | .tuple xs => some xs
  | .bytes b => some (b.map fun x => .int x.toNat)
  | .bytearray b => some (b.map fun x => .int x.toNat)
  | _ => none

def validPrim (p : Prim) (d : Val) : Bool :=
  match p, d with
  | .null, .none => true
  | .boolean, .bool _ => true
  | .string, .str _ => true
  | .bytes, .bytes _ => true
  | .bytes, .bytearray _ => true
  | .int, .int n => INT_MIN ≤ n && n ≤ INT_MAX
  | .long, .int n => LONG_MIN ≤ n && n ≤ LONG_MAX
  | .float, .int _ => true
  | .float, .float _ => true
  | .double, .int _ => true
  | .double, .float _ => true
  | _, _ => false

/-- `schema_name(parsed_record, parent_ns)[1]`: the parsed name is already full; when it has no
    dot the *field path* passed down as `parent_ns` is (mis)used as its namespace. -/
def recFullname (name field : String) : String :=
  if name.contains '.' then name else if field != "" then field ++ "." ++ name else name

/-- `all(p(d) for d in xs)` where `p` may raise: short-circuits at the first `False` -/
def allM (p : Val → R Bool) : List Val → R Bool
  | [] => pure true
  | x :: rest => do
      let b ← p x
      if b then allM p rest else pure false

/-- the field loop of `_validate_record`; `vd field schema datum` is `_validate` one level down -/
def fieldsWith (vd : String → Schema → Option Val → R Bool) (full : String) :
    List Field → List (Val × Val) → R Bool
  | [], _ => pure true
  | f :: rest, kv => do
      let d := match dictGetV kv f.name with
        | some v => some v
        | none => f.default
      let b ← vd (full ++ "." ++ f.name) f.type d
      if b then fieldsWith vd full rest kv else pure false

/-- does a `(name, value)` tuple name this branch? (`_validate_union`: the full name for named types,
    the type name otherwise — the rule of `write_union`) -/
def hintHits (nameV : Val) (b : Schema) : Bool := nameV.strEq b.hintName

/-- the tuple-notation loop of `_validate_union` -/
def hintWith (vd : Schema → Option Val → R Bool) (nameV inner : Val) : List Schema → R Bool
  | [] => pure false
  | b :: rest => if hintHits nameV b then vd b (some inner) else hintWith vd nameV inner rest

/-- the un-hinted loop of `_validate_union`: first branch that validates; the branches'
    `ValidationError`s are swallowed -/
def unionWith (vd : Schema → Option Val → R Bool) (v : Val) : List Schema → R Bool
  | [] => pure false
  | b :: rest =>
    match vd b (some v) with
    | .ok true => pure true
    | .ok false => unionWith vd v rest
    | .error .validation => unionWith vd v rest
    | .error e => throw e

/-- the dispatch on the schema type inside `_validate` (`VALIDATORS[record_type]` / by-name look-up);
    `vd field schema datum` is `_validate` one level down -/
def validateNode (vd : String → Schema → Option Val → R Bool) (env : Env) (o : VOpts) (field : String)
    (s : Schema) (v : Val) : R Bool :=
  match s with
  | .prim p _ lt => do
      let v ← Logical.prepare p.name lt 0 v
      pure (validPrim p v)
  | .fixed _ size lt _ => do
      let v ← Logical.prepare "fixed" lt size v
      pure (match v with | .bytes b => b.length == size | _ => false)
  | .enum _ syms _ _ =>
      pure (match v with | .str x => syms.contains x | _ => false)
  | .array items =>
      match asSeq? v with
      | some xs => allM (fun x => vd field items (some x)) xs
      | none => pure false
  | .map values =>
      match v with
      | .dict kv =>
        if kv.all (fun e => e.1.isStr)
        then allM (fun x => vd field values (some x)) (kv.map (·.2))
        else pure false
      | _ => pure false
  | .record name fields _ =>
      match v with
      | .dict kv =>
        let full := recFullname name field
        if !typeHintOk kv name then pure false
        else fieldsWith vd full fields kv
      | _ => pure false
  | .union branches =>
      match v, o.disableTuple with
      | .tuple xs, false =>
        match xs with
        | [nameV, inner] => hintWith (fun b d => vd field b d) nameV inner branches
        | _ => throw .value
      | _, _ => unionWith (fun b d => vd field b d) v branches
  | .ref n =>
      match env.get? n with
      | some s' => vd field s' (some v)
      | none => throw .unknownType

/-- `_validate(datum, schema, named_schemas, field, raise_errors, options)`; `d = none` is `NoValue`.
    The fuel bounds the nesting depth only (Python's recursion depth). -/
def validate (fuel : Nat) (env : Env) (o : VOpts) (raise : Bool) (field : String)
    (s : Schema) (d : Option Val) : R Bool :=
  match fuel with
  | 0 => .error .fuel
  | fuel+1 => do
    let result ← (if d.isNone && o.strict then pure false
                  else validateNode (validate fuel env o raise) env o field s (d.getD .none))
    if raise && !result then throw .validation
    pure result

end Validate
