/-
  Model/Basic.lean — shared vocabulary of the fastavro model.

  * `Bytes`  : byte strings
  * `Err`    : the small enum Python exceptions are canonicalised to
  * `Val`    : Python data as fastavro sees it (also used for raw schemas: a schema is a
               Python object made of dict / list / str / int / ...)
  No Mathlib imports here or anywhere under Model/ and Spec/ (the driver links natively).
-/

abbrev Bytes := List UInt8

/-- Exception classes, as the harness canonicalises them. `fuel` corresponds to nothing but
    `RecursionError`. -/
inductive Err where
  | eof          -- EOFError, struct.error
  | index        -- IndexError, KeyError
  | type         -- TypeError, AttributeError
  | value        -- ValueError, OverflowError, UnicodeError
  | resolution   -- SchemaResolutionError
  | parse        -- SchemaParseException
  | unknownType  -- UnknownType
  | validation   -- ValidationError
  | fuel         -- RecursionError / model fuel exhausted
  | other
deriving DecidableEq, Repr, Inhabited

def Err.name : Err → String
  | .eof => "eof" | .index => "index" | .type => "type" | .value => "value"
  | .resolution => "resolution" | .parse => "parse" | .unknownType => "unknownType"
  | .validation => "validation" | .fuel => "fuel" | .other => "other"

abbrev R (α : Type) := Except Err α

/-- Python data. Floats are carried as the 64 bits of the IEEE-754 double. -/
inductive Val where
  | none
  | bool (b : Bool)
  | int (n : Int)
  | float (bits : UInt64)
  | str (s : String)
  | bytes (b : Bytes)
  | bytearray (b : Bytes)
  | list (xs : List Val)
  | tuple (xs : List Val)
  | dict (kv : List (Val × Val))      -- insertion ordered
  | date (ordinal : Int)              -- datetime.date, proleptic Gregorian ordinal
  | time (us : Nat)                   -- datetime.time (naive), microseconds after midnight
  | datetime (us : Int) (aware : Bool) -- µs since 1970-01-01T00:00 (UTC if aware, wall clock if naive)
  | decimal (neg : Bool) (digits : List Nat) (exp : Int)  -- Decimal.as_tuple() of a finite decimal
  | uuid (n : Nat)
  | opaque (tyname : String)          -- anything else
deriving Repr, Inhabited

namespace Val

/-- structural equality with fuel-free recursion through the nested lists -/
partial def beqImpl : Val → Val → Bool
  | .none, .none => true
  | .bool a, .bool b => a == b
  | .int a, .int b => a == b
  | .float a, .float b => a == b
  | .str a, .str b => a == b
  | .bytes a, .bytes b => a == b
  | .bytearray a, .bytearray b => a == b
  | .list a, .list b => a.length == b.length && (a.zip b).all fun (x, y) => beqImpl x y
  | .tuple a, .tuple b => a.length == b.length && (a.zip b).all fun (x, y) => beqImpl x y
  | .dict a, .dict b =>
      a.length == b.length && (a.zip b).all fun ((k, x), (l, y)) => beqImpl k l && beqImpl x y
  | .date a, .date b => a == b
  | .time a, .time b => a == b
  | .datetime a x, .datetime b y => a == b && x == y
  | .decimal s d e, .decimal s' d' e' => s == s' && d == d' && e == e'
  | .uuid a, .uuid b => a == b
  | .opaque a, .opaque b => a == b
  | _, _ => false

end Val

/-- Python truthiness -/
def Val.truthy : Val → Bool
  | .none => false
  | .bool b => b
  | .int n => n != 0
  | .float b => !(b == 0 || b == 0x8000000000000000)
  | .str s => s != ""
  | .bytes b => !b.isEmpty
  | .bytearray b => !b.isEmpty
  | .list xs => !xs.isEmpty
  | .tuple xs => !xs.isEmpty
  | .dict kv => !kv.isEmpty
  | _ => true

/-- `isinstance(v, str)` -/
def Val.isStr : Val → Bool
  | .str _ => true
  | _ => false

/-- `v == s` for a Python value and a string -/
def Val.strEq (v : Val) (s : String) : Bool :=
  match v with
  | .str n => n == s
  | _ => false

/-- Python `str.encode()` (UTF-8). -/
def utf8Enc (s : String) : Bytes := s.toUTF8.data.toList
/-- Python `bytes.decode()` (UTF-8, strict). -/
def utf8Dec (b : Bytes) : Option String := String.fromUTF8? (ByteArray.mk b.toArray)

theorem utf8Dec_utf8Enc (s : String) : utf8Dec (utf8Enc s) = some s := by
  unfold utf8Dec utf8Enc
  have : ByteArray.mk (s.toUTF8.data.toList.toArray) = s.toUTF8 := by simp
  rw [this]
  simp only [String.fromUTF8?]
  have h : s.toUTF8.IsValidUTF8 := s.isValidUTF8
  simp only [h, ↓reduceDIte]
  rfl

/-- association-list lookup used for Python dicts with `str` keys -/
def dictGetV (kv : List (Val × Val)) (key : String) : Option Val :=
  match kv with
  | [] => none
  | (.str k, v) :: rest => if k == key then some v else dictGetV rest key
  | _ :: rest => dictGetV rest key

/-- `d.get(key, [])` read as a list (anything else is treated as empty) -/
def dictListOr (kv : List (Val × Val)) (key : String) : List Val :=
  match dictGetV kv key with
  | some (.list xs) => xs
  | _ => []

/-- Python dict semantics: a later assignment to an existing key keeps the key's position
    and replaces the value. -/
def dictSet (kv : List (String × Val)) (k : String) (v : Val) : List (String × Val) :=
  match kv with
  | [] => [(k, v)]
  | (k', v') :: rest => if k' == k then (k', v) :: rest else (k', v') :: dictSet rest k v
