/-
  Model/Py.lean — the slice of Python semantics the codec relies on.
  Core Lean has no `Int.xor` / `Int.land`: they are defined here from `Nat` bit operations by the
  two's-complement case split, so that the model can follow the Python source literally
  (`(n << 1) ^ (n >> 63)`, `datum & ~0x7F`, `(n >> 1) ^ -(n & 1)`).
-/
import Model.Basic

namespace Py

/-- Python `x ^ y` on arbitrary ints -/
def xor (x y : Int) : Int :=
  match x, y with
  | .ofNat a,   .ofNat b   => Int.ofNat (a ^^^ b)
  | .ofNat a,   .negSucc b => .negSucc (a ^^^ b)
  | .negSucc a, .ofNat b   => .negSucc (a ^^^ b)
  | .negSucc a, .negSucc b => Int.ofNat (a ^^^ b)

/-- Python `x & y` -/
def and (x y : Int) : Int :=
  match x, y with
  | .ofNat a,   .ofNat b   => Int.ofNat (a &&& b)
  | .ofNat a,   .negSucc b => Int.ofNat (a &&& (a ^^^ (a &&& b)))   -- a & ~b = a ^ (a & b)
  | .negSucc a, .ofNat b   => Int.ofNat (b &&& (b ^^^ (a &&& b)))
  | .negSucc a, .negSucc b => .negSucc (a ||| b)

/-- Python `x | y` -/
def or (x y : Int) : Int :=
  match x, y with
  | .ofNat a,   .ofNat b   => Int.ofNat (a ||| b)
  | .ofNat a,   .negSucc b => .negSucc (b &&& (b ^^^ (a &&& b)))    -- ~(~a & b)
  | .negSucc a, .ofNat b   => .negSucc (a &&& (a ^^^ (a &&& b)))
  | .negSucc a, .negSucc b => .negSucc (a &&& b)

/-- Python `~x` -/
def inv (x : Int) : Int := -x - 1
/-- Python `x >> k` (arithmetic, floor) -/
def shr (x : Int) (k : Nat) : Int := x >>> k
/-- Python `x << k` -/
def shl (x : Int) (k : Nat) : Int := x * 2 ^ k

/-- Python `x // y` (floor division) for `y > 0` -/
def floordiv (x y : Int) : Int := x.fdiv y
/-- Python `x % y` for `y > 0` -/
def mod (x y : Int) : Int := x.fmod y

/-- `int.bit_length()` -/
def bitLength (n : Nat) : Nat := if n = 0 then 0 else Nat.log2 n + 1

/-- Python list indexing `xs[i]` with negative indices counted from the end -/
def listIndex {α} (xs : List α) (i : Int) : Option α :=
  if 0 ≤ i then xs[i.toNat]? else
    if (-i).toNat ≤ xs.length then xs[xs.length - (-i).toNat]? else none

/-- `n.to_bytes(len, "big", signed=False)` for `0 ≤ n < 256^len` (most significant first) -/
def toBytesBE : Nat → Nat → Bytes
  | 0, _ => []
  | len+1, n => UInt8.ofNat ((n >>> (8 * len)) % 256) :: toBytesBE len n

/-- `int.from_bytes(b, "big", signed=False)` -/
def fromBytesBE (b : Bytes) : Nat := b.foldl (fun acc x => acc * 256 + x.toNat) 0

/-- `n.to_bytes(len, "little", signed=False)` -/
def toBytesLE : Nat → Nat → Bytes
  | 0, _ => []
  | len+1, n => UInt8.ofNat (n % 256) :: toBytesLE len (n / 256)

def fromBytesLE : Bytes → Nat
  | [] => 0
  | b :: rest => b.toNat + 256 * fromBytesLE rest

/-- `int.from_bytes(b, "big", signed=True)` -/
def fromBytesBESigned (b : Bytes) : Int :=
  let n := fromBytesBE b
  let bits := 8 * b.length
  if bits = 0 then 0 else if n < 2 ^ (bits - 1) then (n : Int) else (n : Int) - (2 ^ bits : Nat)

/-- `n.to_bytes(len, "big", signed=True)`; `none` = OverflowError -/
def toBytesBESigned (len : Nat) (n : Int) : Option Bytes :=
  let bits := 8 * len
  if len = 0 then (if n = 0 then some [] else none)
  else if n ≥ 0 then (if n.toNat < 2 ^ (bits - 1) then some (toBytesBE len n.toNat) else none)
  else if (-n).toNat ≤ 2 ^ (bits - 1) then some (toBytesBE len (2 ^ bits - (-n).toNat)) else none

end Py

/-! ### IEEE-754 conversions done on bit patterns with integer arithmetic only
    (`struct.pack('<f', x)`, `struct.unpack('<f', b)`, `float(int)`) — kernel-evaluable, no `Float`. -/
namespace Fl

def roundShift (m shift : Nat) : Nat :=
  -- m / 2^shift rounded to nearest, ties to even
  if shift = 0 then m else
  let q := m >>> shift
  let rem := m % 2 ^ shift
  let half := 2 ^ (shift - 1)
  if rem > half || (rem == half && q % 2 == 1) then q + 1 else q

/-- double bits → single bits, round-to-nearest-even; `none` = OverflowError
    ("float too large to pack with f format") for a finite double beyond the float range. -/
def f64ToF32 (bits : UInt64) : Option UInt32 :=
  let b := bits.toNat
  let sign := b >>> 63
  let e := (b >>> 52) % 2048
  let m := b % 2 ^ 52
  if e = 2047 then
    if m = 0 then some (UInt32.ofNat (sign * 2 ^ 31 + 0x7F800000))
    else some (UInt32.ofNat (sign * 2 ^ 31 + 0x7FC00000 + (m >>> 29) % 2 ^ 22))
  else
    let M := if e = 0 then m else m + 2 ^ 52
    if M = 0 then some (UInt32.ofNat (sign * 2 ^ 31)) else
    -- value = M * 2^(E - 1075) with E = max e 1; work with the offset exponent E (≥ 1)
    let E := if e = 0 then 1 else e
    let bl := Py.bitLength M
    -- exponent of the unit of the 24-bit result, offset by 1075: E' = max (bl-1+E-23) (1075-149)
    let e1 := bl + E - 24       -- bl + E ≥ 2 … may be small; Nat subtraction floors at 0 which is below 926
    let E' := if e1 < 926 then 926 else e1
    let shift := E' - E
    let q := roundShift M shift
    -- biased single exponent of a normal result = (E' - 1075) + 150 = E' - 925
    if q ≥ 2 ^ 24 then
      -- only possible as exactly 2^24 after rounding up
      let biased := E' + 1 - 925
      if biased ≥ 255 then none else some (UInt32.ofNat (sign * 2 ^ 31 + biased * 2 ^ 23))
    else if q ≥ 2 ^ 23 then
      let biased := E' - 925
      if biased ≥ 255 then none else some (UInt32.ofNat (sign * 2 ^ 31 + biased * 2 ^ 23 + (q - 2 ^ 23)))
    else some (UInt32.ofNat (sign * 2 ^ 31 + q))

/-- single bits → double bits (exact widening) -/
def f32ToF64 (bits : UInt32) : UInt64 :=
  let b := bits.toNat
  let sign := b >>> 31
  let e := (b >>> 23) % 256
  let m := b % 2 ^ 23
  if e = 255 then
    if m = 0 then UInt64.ofNat (sign * 2 ^ 63 + 0x7FF0000000000000)
    else UInt64.ofNat (sign * 2 ^ 63 + 0x7FF8000000000000 + (m % 2 ^ 22) * 2 ^ 29)
  else if e = 0 then
    if m = 0 then UInt64.ofNat (sign * 2 ^ 63) else
    let bl := Py.bitLength m
    -- value = m * 2^-149, leading bit exponent p = bl - 1 - 149; biased = p + 1023 = bl + 873
    let biased := bl + 873
    let mant := (m * 2 ^ (53 - bl)) - 2 ^ 52
    UInt64.ofNat (sign * 2 ^ 63 + biased * 2 ^ 52 + mant)
  else
    UInt64.ofNat (sign * 2 ^ 63 + (e + 896) * 2 ^ 52 + m * 2 ^ 29)

/-- Python `float(n)` for an int: round-half-even; `none` = OverflowError -/
def ofInt (n : Int) : Option UInt64 :=
  if n = 0 then some 0 else
  let sign := if n < 0 then 1 else 0
  let M := n.natAbs
  let bl := Py.bitLength M
  if bl ≤ 53 then
    let mant := M * 2 ^ (53 - bl) - 2 ^ 52
    some (UInt64.ofNat (sign * 2 ^ 63 + (bl - 1 + 1023) * 2 ^ 52 + mant))
  else
    let shift := bl - 53
    let q := roundShift M shift
    let (q, p) := if q ≥ 2 ^ 53 then (2 ^ 52, bl) else (q, bl - 1)
    let biased := p + 1023
    if biased ≥ 2047 then none else
    some (UInt64.ofNat (sign * 2 ^ 63 + biased * 2 ^ 52 + (q - 2 ^ 52)))

def isNaN64 (bits : UInt64) : Bool :=
  let b := bits.toNat
  (b >>> 52) % 2048 == 2047 && b % 2 ^ 52 != 0

end Fl
