/-
  Model/Rabin.lean — follows `rabin_fingerprint` (`fastavro/_schema_common.py`) and `fingerprint`
  (`fastavro/_schema_py.py`). Python's unbounded ints never go negative or beyond 64 bits here:
  `mask = -(fp & 1); fp = (fp >> 1) ^ (empty & mask)` is read as "xor with the polynomial when the
  low bit is set".
-/
import Model.Basic
import Model.Py

namespace Rabin

def EMPTY64 : Nat := 0xC15D213AA4D7A795

/-- one step of the inner loop of the table construction -/
def tblStep (fp : Nat) : Nat := if fp % 2 = 1 then (fp >>> 1) ^^^ EMPTY64 else fp >>> 1

def tableEntry (i : Nat) : Nat := tblStep (tblStep (tblStep (tblStep (tblStep (tblStep (tblStep (tblStep i)))))))

/-- `fp_table` -/
def fpTable : List Nat := (List.range 256).map tableEntry

/-- `result = (result >> 8) ^ fp_table[(result ^ byte) & 0xFF]` -/
def step (r : Nat) (b : UInt8) : Nat := (r >>> 8) ^^^ fpTable.getD ((r ^^^ b.toNat) &&& 0xFF) 0

def rabin (data : Bytes) : Nat := data.foldl step EMPTY64

def hexDigit (n : Nat) : Char := if n < 10 then Char.ofNat (48 + n) else Char.ofNat (87 + n)
def hexByte (b : UInt8) : List Char := [hexDigit (b.toNat / 16), hexDigit (b.toNat % 16)]
def hexOfBytes (bs : Bytes) : String := String.ofList (bs.flatMap hexByte)

/-- `result.to_bytes(length=8, byteorder="little", signed=False).hex()` -/
def hexLE8 (n : Nat) : String := hexOfBytes (Py.toBytesLE 8 n)

inductive FP where
  | hex (s : String)          -- the CRC-64-AVRO fingerprint text
  | digest (alg : String)     -- `hashlib.new(alg, data).hexdigest()` (external)
deriving Repr, DecidableEq

/-- `fingerprint(parsing_canonical_form, algorithm)`; `algs` = `FINGERPRINT_ALGORITHMS`,
    `javaMap` = `JAVA_FINGERPRINT_MAPPING` -/
def fingerprint (algs : List String) (javaMap : List (String × String)) (text : String) (alg : String) : R FP :=
  if !algs.contains alg then .error .value else
  let alg := (javaMap.lookup alg).getD alg
  if alg == "CRC-64-AVRO" then .ok (.hex (hexLE8 (rabin (utf8Enc text))))
  else .ok (.digest alg)

end Rabin
