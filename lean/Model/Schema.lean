/-
  Model/Schema.lean — typed view of a *parsed* fastavro schema, as the codec functions see it.
-/
import Model.Basic

inductive Prim where
  | null | boolean | int | long | float | double | bytes | string
deriving DecidableEq, Repr, Inhabited

def Prim.name : Prim → String
  | .null => "null" | .boolean => "boolean" | .int => "int" | .long => "long"
  | .float => "float" | .double => "double" | .bytes => "bytes" | .string => "string"

def Prim.ofName? : String → Option Prim
  | "null" => some .null | "boolean" => some .boolean | "int" => some .int | "long" => some .long
  | "float" => some .float | "double" => some .double | "bytes" => some .bytes
  | "string" => some .string | _ => none

/-- logical-type annotation carried by a dict-form schema (`logicalType`, `precision`, `scale`) -/
structure LogT where
  name : String
  precision : Option Int := none
  scale : Int := 0
deriving DecidableEq, Repr, Inhabited

mutual
/-- parsed schema. `ref` is a full name looked up in the table of named schemas. -/
inductive Schema where
  /-- `"int"` (`dictForm = false`) or `{"type": "int", ...}` (`dictForm = true`) -/
  | prim (p : Prim) (dictForm : Bool) (lt : Option LogT)
  | record (name : String) (fields : List Field) (aliases : List String)
  | enum (name : String) (symbols : List String) (default : Option Val) (aliases : List String)
  | fixed (name : String) (size : Nat) (lt : Option LogT) (aliases : List String)
  | array (items : Schema)
  | map (values : Schema)
  | union (branches : List Schema)
  | ref (name : String)
inductive Field where
  | mk (name : String) (type : Schema) (default : Option Val) (aliases : List String)
end

instance : Inhabited Schema := ⟨.prim .null false none⟩
instance : Inhabited Field := ⟨.mk "" default none []⟩

def Field.name : Field → String | .mk n _ _ _ => n
def Field.type : Field → Schema | .mk _ t _ _ => t
def Field.default : Field → Option Val | .mk _ _ d _ => d
def Field.aliases : Field → List String | .mk _ _ _ a => a

/-- `named_schemas`: full name → definition, insertion ordered -/
abbrev Env := List (String × Schema)

def Env.get? (env : Env) (n : String) : Option Schema :=
  match env with
  | [] => none
  | (k, s) :: rest => if k == n then some s else Env.get? rest n

/-- Python dict assignment `named_schemas[k] = s` (keeps the position of an existing key) -/
def Env.set (env : Env) (k : String) (s : Schema) : Env :=
  match env with
  | [] => [(k, s)]
  | (k', s') :: rest => if k' == k then (k', s) :: rest else (k', s') :: Env.set rest k s

/-- `extract_record_type` -/
def Schema.typeName : Schema → String
  | .prim p _ _ => p.name
  | .record .. => "record"
  | .enum .. => "enum"
  | .fixed .. => "fixed"
  | .array _ => "array"
  | .map _ => "map"
  | .union _ => "union"
  | .ref n => n

/-- the name a `(name, value)` tuple hint is compared with in `write_union` -/
def Schema.hintName : Schema → String
  | .record n _ _ => n
  | .enum n _ _ _ => n
  | .fixed n _ _ _ => n
  | s => s.typeName

def Schema.isNamedDef : Schema → Bool
  | .record .. | .enum .. | .fixed .. => true
  | _ => false

def Schema.defName? : Schema → Option String
  | .record n _ _ => some n
  | .enum n _ _ _ => some n
  | .fixed n _ _ _ => some n
  | _ => none

mutual
/-- no logical-type annotation anywhere inside the schema -/
def Schema.plain : Schema → Bool
  | .prim _ _ lt => lt.isNone
  | .fixed _ _ lt _ => lt.isNone
  | .enum .. => true
  | .ref _ => true
  | .array items => items.plain
  | .map values => values.plain
  | .union bs => Schema.plainList bs
  | .record _ fs _ => Schema.plainFields fs
def Schema.plainList : List Schema → Bool
  | [] => true
  | s :: rest => s.plain && Schema.plainList rest
def Schema.plainFields : List Field → Bool
  | [] => true
  | .mk _ t _ _ :: rest => t.plain && Schema.plainFields rest
end

def Env.plain (env : Env) : Bool := env.all fun e => e.2.plain

mutual
/-- every record inside the schema has pairwise distinct field names, none of them `-type` -/
def Schema.fieldsOk : Schema → Bool
  | .prim .. => true
  | .fixed .. => true
  | .enum .. => true
  | .ref _ => true
  | .array items => items.fieldsOk
  | .map values => values.fieldsOk
  | .union bs => Schema.fieldsOkList bs
  | .record _ fs _ => decide ((fs.map Field.name).Nodup) && !(fs.map Field.name).contains "-type" && Schema.fieldsOkFields fs
def Schema.fieldsOkList : List Schema → Bool
  | [] => true
  | s :: rest => s.fieldsOk && Schema.fieldsOkList rest
def Schema.fieldsOkFields : List Field → Bool
  | [] => true
  | .mk _ t _ _ :: rest => t.fieldsOk && Schema.fieldsOkFields rest
end

def Env.fieldsOk (env : Env) : Bool := env.all fun e => e.2.fieldsOk

/-- `not ("-type" in datum and datum["-type"] != name)` -/
def typeHintOk (kv : List (Val × Val)) (name : String) : Bool :=
  match dictGetV kv "-type" with
  | some v => v.strEq name
  | none => true

/-- a by-name branch stands for its definition: `candidate = named_schemas[record_type]` -/
def unwrapRef (env : Env) (s : Schema) : Schema :=
  match s with
  | .ref n => (env.get? n).getD s
  | s => s

/-- `datum.get(field name, field default)` (`None` when there is no default) -/
def presentOrDefault (kv : List (Val × Val)) (fld : Field) : Val :=
  match dictGetV kv fld.name with
  | some x => x
  | none => fld.default.getD .none

def dictKeys (kv : List (Val × Val)) : List String :=
  kv.filterMap fun (k, _) => match k with | .str s => some s | _ => none

/-- `len(candidate_fields & datum_fields)` -/
def sharedFields (fs : List Field) (kv : List (Val × Val)) : Nat :=
  let keys := dictKeys kv
  ((fs.map Field.name).eraseDups.filter keys.contains).length

/-- `len(candidate_fields & set(datum))` for a Python datum -/
def sharedCount (fs : List Field) (v : Val) : Int :=
  match v with
  | .dict kv => (sharedFields fs kv : Nat)
  | _ => 0

def AVRO_TYPE_NAMES : List String :=
  ["boolean", "bytes", "double", "float", "int", "long", "null", "string", "fixed", "enum",
   "record", "error", "array", "map", "union", "request", "error_union"]

/-- Python `sub in s` for strings -/
def strContains (s sub : String) : Bool :=
  let a := s.toList
  let b := sub.toList
  (List.range (a.length + 1)).any fun i => (a.drop i).take b.length == b

/-- `_accepts_null(field_type)` of `write_record`: the type is null (either spelling) or a union with a
    null branch -/
def Schema.nullIn : Schema → Bool
  | .prim .null _ _ => true
  | .union bs => bs.any fun b => match b with
      | .prim .null _ _ => true
      | _ => false
  | _ => false
